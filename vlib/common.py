"""Shared plumbing for checks: exit codes, known findings, evidence files, replay files, work pools.

Exit codes of every check:  0 held / 1 violation (with VIOLATION line) / 2 undecided / 3 checker error.
"""
import hashlib
import json
import os
import re
import sys
import time

VERIF = os.path.dirname(os.path.dirname(os.path.abspath(__file__)))
REPO = os.environ.get("VERIF_REPO", "/repo")
VENV_PY = "/venv/bin/python"
VT_PY = "python3-vt"
# build-time only (tools/try_seed.py): evaluations of deliberately broken trees write their evidence / replays elsewhere
_OUT = os.environ.get("VERIF_SCRATCH_OUT")
EVIDENCE_DIR = os.path.join(_OUT or VERIF, "evidence")
REPLAY_DIR = os.path.join(_OUT or VERIF, "replays")
KNOWN_FILE = os.path.join(VERIF, "KNOWN_FINDINGS.txt")


def seed():
    try:
        return int(os.environ.get("VERIF_SEED", "0"))
    except ValueError:
        return 0


def known_findings():
    """KNOWN_FINDINGS.txt lines:
         known: property=<id> key=<stable key> <what fails>
         fixed: property=<id> <commit> <what failed>          (suppresses nothing)
    returns {property: {key: description}}"""
    out = {}
    if not os.path.exists(KNOWN_FILE):
        return out
    for line in open(KNOWN_FILE, encoding="utf-8"):
        line = line.strip()
        m = re.match(r"known:\s+property=(\S+)\s+key=(\S+)\s*(.*)", line)
        if m:
            out.setdefault(m.group(1), {})[m.group(2)] = m.group(3)
    return out


def write_replay(prop, key, payload):
    os.makedirs(REPLAY_DIR, exist_ok=True)
    h = hashlib.sha1(key.encode()).hexdigest()[:12]
    path = os.path.join(REPLAY_DIR, f"{prop}-{h}.json")
    with open(path, "w", encoding="utf-8") as f:
        json.dump(dict(payload, property=prop, key=key), f, indent=1, default=repr)
    return path


def write_evidence(prop, tier, level, coverage, assumptions, wall_s, violations):
    os.makedirs(EVIDENCE_DIR, exist_ok=True)
    ev = {
        "property_id": prop,
        "tier": tier,
        "seed": seed(),
        "level": level,
        "coverage": coverage,
        "assumptions": assumptions,
        "wall_s": round(wall_s, 2),
        "violations": violations,
    }
    path = os.path.join(EVIDENCE_DIR, f"{prop}.json")
    tmp = path + ".tmp"
    with open(tmp, "w", encoding="utf-8") as f:
        json.dump(ev, f, indent=1, default=repr)
    os.replace(tmp, path)
    return path


def report(prop, violations):
    """violations: list of dicts(key, what, replay payload...).  Prints KNOWN-FINDING / VIOLATION lines.
    Returns the number of violations not covered by KNOWN_FINDINGS.txt."""
    known = known_findings().get(prop, {})
    new = 0
    seen_known = set()
    seen_new = set()
    for v in violations:
        key = v["key"]
        if key in known:
            if key not in seen_known:
                seen_known.add(key)
                print(f"KNOWN-FINDING: property={prop} {key} {known[key]}")
            continue
        if key in seen_new:
            continue
        seen_new.add(key)
        path = write_replay(prop, key, v)
        tail = " no-failing-input-found" if v.get("no_failing_input") else ""
        print(f"VIOLATION property={prop} replay={path}{tail}")
        print(f"  what: {v.get('what', '')[:300]}")
        new += 1
    return new
