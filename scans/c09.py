"""C09 frame scans: functions documented to copy never touch the caller's tree after taking the copy."""
import ast
import os

from scans.common import REPO, Scan, functions


def run():
    sc = Scan("C09")
    fns = dict(functions(os.path.join(REPO, "sqlglot/optimizer/optimizer.py")))
    opt = fns["optimize"]
    seen_copy = False
    later_uses = []
    for st in opt.body:
        if seen_copy:
            later_uses += [n.lineno for n in ast.walk(st) if isinstance(n, ast.Name) and n.id == "expression"]
        if isinstance(st, ast.Assign) and "maybe_parse(expression" in ast.unparse(st) and "copy=True" in ast.unparse(st):
            seen_copy = True
    sc.check("optimize:input-unused-after-copy", seen_copy and not later_uses, "optimize() copies its input with maybe_parse(..., copy=True) and never refers to `expression` again", f"later uses at lines {later_uses}")
    gen = dict(functions(os.path.join(REPO, "sqlglot/generator.py")))["Generator.generate"]
    first = gen.body[1] if isinstance(gen.body[0], ast.Expr) and isinstance(gen.body[0].value, ast.Constant) else gen.body[0]
    ok = isinstance(first, ast.If) and ast.unparse(first.test) == "copy" and ast.unparse(first.body[0]) == "expression = expression.copy()"
    sc.check("generate:copies-first", ok, "Generator.generate starts with `if copy: expression = expression.copy()`", ast.unparse(first)[:80])
    dia = dict(functions(os.path.join(REPO, "sqlglot/dialects/dialect.py")))
    g = dia.get("Dialect.generate")
    sc.check("Dialect.generate:copy-default", g is not None and any(a.arg == "copy" for a in g.args.args + g.args.kwonlyargs) and "copy=copy" in ast.unparse(g),
             "Dialect.generate forwards its copy flag to Generator.generate", "")
    core = dict(functions(os.path.join(REPO, "sqlglot/expressions/core.py")))
    sqlm = core.get("Expr.sql") or core.get("Expression.sql")
    sc.check("Expr.sql:copy-default-true", sqlm is not None and any(a.arg == "copy" and isinstance(d, ast.Constant) and d.value is True
             for a, d in zip(sqlm.args.args[-len(sqlm.args.defaults):], sqlm.args.defaults)) or (sqlm is not None and any(a.arg == "copy" and isinstance(d, ast.Constant) and d.value is True for a, d in zip(sqlm.args.kwonlyargs, sqlm.args.kw_defaults) if d is not None)),
             "Expression.sql defaults to copy=True", "")
    return sc


if __name__ == "__main__":
    run().main()
