"""C15 frame scans: a reused Parser / Tokenizer / Generator starts every call from the state a fresh object has."""
import ast
import os

from scans.common import REPO, Scan, files, functions


def init_vs_reset(sc, relpath, cls, entry_method, entry_must_call="reset"):
    path = os.path.join(REPO, relpath)
    fns = dict(functions(path))
    init, reset, entry = fns.get(f"{cls}.__init__"), fns.get(f"{cls}.reset"), fns.get(f"{cls}.{entry_method}")
    sc.check(f"{cls}:has-reset", bool(init and reset and entry), f"{cls} defines __init__, reset and {entry_method}")
    if not (init and reset and entry):
        return
    params = {a.arg for a in init.args.args + init.args.kwonlyargs}

    def assigns(fn):
        out = {}
        for n in ast.walk(fn):
            if isinstance(n, (ast.Assign, ast.AnnAssign)) and n.value is not None:
                tgts = n.targets if isinstance(n, ast.Assign) else [n.target]
                for t in tgts:
                    if isinstance(t, ast.Attribute) and isinstance(t.value, ast.Name) and t.value.id == "self":
                        out[t.attr] = n.value
        return out

    ia, ra = assigns(init), assigns(reset)
    per_call = {f: v for f, v in ia.items() if not ({n.id for n in ast.walk(v) if isinstance(n, ast.Name)} & params)
                and not any(isinstance(n, ast.Call) for n in ast.walk(v))}
    # per-call state = fields whose initial value does not depend on a constructor argument (counters, buffers, cursors)
    for f, v in sorted(per_call.items()):
        same = f in ra and ast.dump(ra[f]) == ast.dump(v)
        sc.check(f"{cls}.reset:{f}", same, f"{cls}.reset() assigns self.{f} the value __init__ gives it ({ast.unparse(v)})",
                 f"reset has {ast.unparse(ra[f]) if f in ra else 'no assignment'}")
    # every field that any other method mutates must be one reset() restores or a constructor option
    mutated = set()
    for qn, fn in fns.items():
        if not qn.startswith(cls + ".") or qn in (f"{cls}.__init__", f"{cls}.reset"):
            continue
        for n in ast.walk(fn):
            if isinstance(n, ast.Attribute) and isinstance(n.ctx, (ast.Store, ast.Del)) and isinstance(n.value, ast.Name) and n.value.id == "self":
                mutated.add((n.attr, qn))
            if isinstance(n, ast.AugAssign) and isinstance(n.target, ast.Attribute) and isinstance(n.target.value, ast.Name) and n.target.value.id == "self":
                mutated.add((n.target.attr, qn))
    return per_call, ra, mutated, entry


def first_call_is(fn, method):
    """the first statement that touches self state is `self.<method>()`."""
    for st in fn.body:
        if isinstance(st, ast.Expr) and isinstance(st.value, ast.Constant):
            continue
        if isinstance(st, ast.Expr) and isinstance(st.value, ast.Call) and isinstance(st.value.func, ast.Attribute) and st.value.func.attr == method:
            return True
        return False
    return False


def run():
    sc = Scan("C15")
    for relpath, cls, entry, extra_ok in (
        ("sqlglot/parser.py", "Parser", "_parse", {"error_level"}),  # _try_parse saves/restores error_level (proved: contracts/errors_funnel.py)
        ("sqlglot/tokenizer_core.py", "TokenizerCore", "tokenize", set()),
    ):
        r = init_vs_reset(sc, relpath, cls, entry)
        if not r:
            continue
        per_call, ra, mutated, entry_fn = r
        sc.check(f"{cls}.{entry}:resets-first", first_call_is(entry_fn, "reset"), f"{cls}.{entry} calls self.reset() before anything else")
        leaked = sorted({(f, qn) for f, qn in mutated if f not in ra and f not in extra_ok})
        sc.check(f"{cls}:mutated-fields-are-reset", not leaked, f"every field a {cls} method assigns is restored by reset()", f"not reset: {leaked[:6]}")
    # Generator: per-call state must be re-initialised by generate() before printing
    gpaths = files("sqlglot/generator.py", "sqlglot/generators/*.py")
    stores = {}
    for path in gpaths:
        for qn, fn in functions(path):
            if qn.endswith(".__init__"):
                continue
            for n in ast.walk(fn):
                if isinstance(n, ast.Attribute) and isinstance(n.ctx, (ast.Store, ast.Del)) and isinstance(n.value, ast.Name) and n.value.id == "self":
                    stores.setdefault(n.attr, set()).add(f"{os.path.relpath(path, REPO)}:{qn}")
                # mutating calls on a field: self.F.append(...) etc.
                if (isinstance(n, ast.Call) and isinstance(n.func, ast.Attribute) and n.func.attr in ("append", "extend", "pop", "clear", "add", "update", "insert", "remove")
                        and isinstance(n.func.value, ast.Attribute) and isinstance(n.func.value.value, ast.Name) and n.func.value.value.id == "self"):
                    stores.setdefault(n.func.value.attr, set()).add(f"{os.path.relpath(path, REPO)}:{qn}")
    gen = dict(functions(os.path.join(REPO, "sqlglot/generator.py")))
    generate, init = gen["Generator.generate"], gen["Generator.__init__"]
    reinit = set()
    for st in generate.body:
        if any(isinstance(n, ast.Call) and isinstance(n.func, ast.Attribute) and n.func.attr == "sql" and isinstance(n.func.value, ast.Name) and n.func.value.id == "self" for n in ast.walk(st)):
            break
        for n in ast.walk(st):
            if isinstance(n, ast.Attribute) and isinstance(n.ctx, ast.Store) and isinstance(n.value, ast.Name) and n.value.id == "self":
                reinit.add(n.attr)
    # fields restored by their writer: every function that assigns the field re-assigns it in a `finally` block
    restored = set()
    writers = {}
    for path in gpaths:
        for qn, fn in functions(path):
            if qn.endswith(".__init__") or qn == "Generator.generate":
                continue
            for n in ast.walk(fn):
                if isinstance(n, ast.Attribute) and isinstance(n.ctx, ast.Store) and isinstance(n.value, ast.Name) and n.value.id == "self":
                    fin = {m.attr for t_ in ast.walk(fn) if isinstance(t_, ast.Try) for st in t_.finalbody for m in ast.walk(st)
                           if isinstance(m, ast.Attribute) and isinstance(m.ctx, ast.Store)}
                    writers.setdefault(n.attr, []).append(n.attr in fin)
    for f, oks in writers.items():
        if oks and all(oks):
            restored.add(f)
    for f, sites in sorted(stores.items()):
        sc.check(f"Generator:{f}", f in reinit or f in restored, f"self.{f} (mutated in {sorted(sites)[:3]}) is re-initialised by generate() before self.sql(...) or restored by its writer",
                 f"generate re-initialises {sorted(reinit)}")
    # stateful callables created in __init__ must be re-created per call
    for n in ast.walk(init):
        if isinstance(n, ast.Assign) and isinstance(n.value, ast.Call) and isinstance(n.value.func, ast.Name) and n.value.func.id == "name_sequence":
            f = n.targets[0].attr
            sc.check(f"Generator:{f}:stateful-callable", f in reinit, f"self.{f} is a stateful name_sequence() closure and is re-created by generate()", f"generate re-initialises {sorted(reinit)}")
    sc.assumptions.append("frame scans are syntactic (attribute stores and mutator calls on self.<field>); state reachable only through other objects is not covered")
    return sc


if __name__ == "__main__":
    run().main()
