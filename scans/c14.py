"""C14 frame scans: the error level and the collected errors are consulted only by the funnel functions under
contract, so IGNORE / WARN / RAISE cannot make any other code branch differently."""
from scans.common import Scan, attr_uses, files

PARSER_FILES = files("sqlglot/parser.py", "sqlglot/parsers/*.py")
GEN_FILES = files("sqlglot/generator.py", "sqlglot/generators/*.py", "sqlglot/transforms.py", "sqlglot/dialects/*.py")

ALLOWED = {
    # field: (files, functions allowed to READ it, functions allowed to WRITE it)
    "error_level": (PARSER_FILES, {"Parser.raise_error", "Parser.validate_expression", "Parser._try_parse", "Parser.check_errors"},
                    {"Parser.__init__", "Parser._try_parse"}),
    "errors": (PARSER_FILES, {"Parser.raise_error", "Parser.check_errors", "Parser.parse_into"}, {"Parser.__init__", "Parser.reset"}),
    "max_errors": (PARSER_FILES, {"Parser.check_errors"}, {"Parser.__init__"}),
    "unsupported_level": (GEN_FILES, {"Generator.generate", "Generator.unsupported"}, {"Generator.__init__"}),
    "unsupported_messages": (GEN_FILES, {"Generator.generate", "Generator.unsupported"}, {"Generator.__init__", "Generator.generate"}),
    "max_unsupported": (GEN_FILES, {"Generator.generate"}, {"Generator.__init__"}),
}


def run():
    sc = Scan("C14")
    for field, (paths, readers, writers) in ALLOWED.items():
        uses = attr_uses(paths, field)
        bad_r, bad_w = [], []
        for site, ctxs in uses.items():
            qn = site.split(":", 1)[1]
            if "Load" in ctxs and qn not in readers:
                bad_r.append(site)
            if ("Store" in ctxs or "Del" in ctxs) and qn not in writers:
                bad_w.append(site)
        sc.check(f"{field}:read-only-in-funnel", not bad_r, f".{field} is read only in {sorted(readers)}", f"also read in {bad_r}")
        sc.check(f"{field}:written-only-in", not bad_w, f".{field} is written only in {sorted(writers)}", f"also written in {bad_w}")
    # UnsupportedError may be raised directly only where a caller converts it into Generator.unsupported():
    #   - Generator.unsupported / Generator.generate themselves
    #   - transform functions (module-level functions taking only an expression), which transforms.preprocess wraps in
    #     `except UnsupportedError: self.unsupported(...)`
    #   - call sites inside generator methods that are themselves wrapped in try/except UnsupportedError
    import ast, os
    from scans.common import REPO, tree_of

    offenders = []
    for path in files("sqlglot/generator.py", "sqlglot/generators/*.py", "sqlglot/transforms.py", "sqlglot/dialects/*.py"):
        tree = tree_of(path)
        rel = os.path.relpath(path, REPO)
        raisers = set()
        for fn in [n for n in ast.walk(tree) if isinstance(n, ast.FunctionDef)]:
            for n in ast.walk(fn):
                if isinstance(n, ast.Raise) and n.exc is not None and "UnsupportedError" in ast.unparse(n.exc):
                    raisers.add(fn.name)
        raisers -= {"unsupported", "generate"}
        for name in sorted(raisers):
            # every direct call of a raiser from a generator *method* (first parameter self) must sit inside try/except UnsupportedError
            for fn in [n for n in ast.walk(tree) if isinstance(n, ast.FunctionDef) and n.args.args and n.args.args[0].arg == "self"]:
                guarded = set()
                for t_ in ast.walk(fn):
                    if isinstance(t_, ast.Try) and any(h.type is not None and "UnsupportedError" in ast.unparse(h.type) for h in t_.handlers):
                        for st in t_.body:
                            guarded.update(id(x) for x in ast.walk(st))
                for c in ast.walk(fn):
                    if isinstance(c, ast.Call) and isinstance(c.func, ast.Name) and c.func.id == name and id(c) not in guarded:
                        offenders.append(f"{rel}:{fn.name} calls {name}() outside try/except UnsupportedError")
            # a generator method that raises UnsupportedError itself bypasses the level
            for fn in [n for n in ast.walk(tree) if isinstance(n, ast.FunctionDef) and n.args.args and n.args.args[0].arg == "self" and n.name == name]:
                if rel != "sqlglot/transforms.py" or True:
                    offenders.append(f"{rel}:{fn.name} raises UnsupportedError directly")
    sc.check("UnsupportedError:raised-only-through-funnel", not offenders,
             "UnsupportedError reaches the caller only via Generator.unsupported()/generate(): direct raises live in transform functions whose call sites convert them",
             f"{offenders[:5]}")
    # generate() resets unsupported_messages AFTER preprocess(): a message recorded while preprocessing would be dropped under
    # WARN / RAISE but raise under IMMEDIATE.  Frame condition: nothing reachable from Generator.preprocess through self.<m>()
    # calls (any generator class in the scanned files; overrides are looked up by name) calls self.unsupported.
    by_name = {}
    for path in files("sqlglot/generator.py", "sqlglot/generators/*.py", "sqlglot/dialects/*.py"):
        rel = os.path.relpath(path, REPO)
        for n in ast.walk(tree_of(path)):
            if isinstance(n, ast.ClassDef):
                for m in n.body:
                    if isinstance(m, ast.FunctionDef) and m.args.args and m.args.args[0].arg == "self":
                        by_name.setdefault(m.name, []).append((f"{rel}:{n.name}.{m.name}", m))
    seen, todo, reporters = set(), ["preprocess"], []
    while todo:
        name = todo.pop()
        if name in seen:
            continue
        seen.add(name)
        for site, fn in by_name.get(name, []):
            for c in ast.walk(fn):
                if isinstance(c, ast.Call) and isinstance(c.func, ast.Attribute) and isinstance(c.func.value, ast.Name) and c.func.value.id == "self":
                    if c.func.attr == "unsupported":
                        reporters.append(f"{site}:{c.lineno}")
                    elif c.func.attr in by_name:
                        todo.append(c.func.attr)
    sc.check("preprocess:records-no-unsupported", not reporters and "preprocess" in by_name,
             "no generator method reachable from Generator.preprocess() calls self.unsupported() (generate() clears the messages after preprocessing)",
             f"{reporters[:5]}; reachable methods: {sorted(seen)[:12]}")
    # generate() is the entry point that resets the collected messages (and reports them at its end): a generator method that
    # re-enters it on the SAME generator (self.generate(...)) would drop every message collected so far for the outer statement
    # under WARN / RAISE, while IMMEDIATE has already raised.  Frame condition: no method of a generator class calls self.generate.
    reentrant = []
    for path in files("sqlglot/generator.py", "sqlglot/generators/*.py"):
        rel = os.path.relpath(path, REPO)
        for n in ast.walk(tree_of(path)):
            if isinstance(n, ast.ClassDef):
                for m in n.body:
                    if isinstance(m, ast.FunctionDef) and m.args.args and m.args.args[0].arg == "self":
                        for c in ast.walk(m):
                            if isinstance(c, ast.Call) and isinstance(c.func, ast.Attribute) and c.func.attr == "generate" \
                                    and isinstance(c.func.value, ast.Name) and c.func.value.id == "self":
                                reentrant.append(f"{rel}:{n.name}.{m.name}:{c.lineno}")
    sc.check("generate:not-reentered", not reentrant,
             "no generator method calls self.generate() (the entry point that clears unsupported_messages is never re-entered on the same generator)",
             f"{reentrant[:5]}")
    # parse_into reads e.errors of ParseError objects (not self.errors): confirm it never touches self.errors
    sc.assumptions.append("frame scans are syntactic: getattr/setattr with computed names and aliasing of the parser object under another attribute name are not covered")
    return sc


if __name__ == "__main__":
    run().main()
