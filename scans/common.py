"""Mechanical frame scans over the real source (ast): each scan is a checked frame condition --
'field F is read / written only inside functions S' -- decided syntactically on every run."""
import ast
import collections
import glob
import hashlib
import json
import os

REPO = os.environ.get("VERIF_REPO", "/repo")


def files(*patterns):
    out = []
    for p in patterns:
        out += sorted(glob.glob(os.path.join(REPO, p)))
    return out


_TREES = {}


def tree_of(path):
    if path not in _TREES:
        _TREES[path] = ast.parse(open(path, encoding="utf-8").read())
    return _TREES[path]


def functions(path):
    """yield (qualname, FunctionDef) for module-level functions and methods (nested defs belong to their parent)."""
    tree = tree_of(path)
    for n in tree.body:
        if isinstance(n, ast.FunctionDef):
            yield n.name, n
        elif isinstance(n, ast.ClassDef):
            for m in n.body:
                if isinstance(m, ast.FunctionDef):
                    yield f"{n.name}.{m.name}", m


def attr_uses(paths, attr):
    """{'<relpath>:<qualname>': [ctx names]} for every `.attr` access."""
    out = collections.defaultdict(list)
    for path in paths:
        rel = os.path.relpath(path, REPO)
        fn_nodes = set()
        for qn, fn in functions(path):
            for n in ast.walk(fn):
                fn_nodes.add(id(n))
                if isinstance(n, ast.Attribute) and n.attr == attr:
                    out[f"{rel}:{qn}"].append(type(n.ctx).__name__)
        # module level / class level statements outside functions
        for n in ast.walk(tree_of(path)):
            if isinstance(n, ast.Attribute) and n.attr == attr and id(n) not in fn_nodes:
                out[f"{rel}:<module>"].append(type(n.ctx).__name__)
    return dict(out)


class Scan:
    def __init__(self, prop):
        self.prop = prop
        self.obligations = 0
        self.discharged = 0
        self.violations = []
        self.functions = []
        self.assumptions = []

    def check(self, key, ok, text, detail=""):
        self.obligations += 1
        if ok:
            self.discharged += 1
        else:
            self.violations.append({"key": f"scan:{self.prop}:{key}", "what": f"frame condition broken: {text} | {detail}", "function": key})
        self.functions.append({"function": f"scan:{key}", "sha256": hashlib.sha256(text.encode()).hexdigest()[:16], "status": "ok", "obligations": 1,
                               "discharged": int(bool(ok)), "guards": 0, "guard_undecided": 0})

    def result(self):
        return {"obligations": self.obligations, "discharged": self.discharged, "violations": self.violations, "functions": self.functions,
                "assumptions": self.assumptions}

    def main(self):
        import argparse

        ap = argparse.ArgumentParser()
        ap.add_argument("--out")
        a = ap.parse_args()
        res = self.result()
        if a.out:
            json.dump(res, open(a.out, "w"), indent=1)
        print(f"scan {self.prop}: {self.discharged}/{self.obligations} frame conditions hold")
        for v in self.violations:
            print("  BROKEN", v["key"], v["what"][:200])
