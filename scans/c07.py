"""C07 frame scan: the options of the pretty-printing protocol are constant for the lifetime of a Generator.

_replace_line_breaks() (protect content), indent()/sep()/seg()/text_width() (lay out) and generate() (restore the
sentinel) only agree with one another if they all see the same `pretty`, `pad`, `_indent`, `max_text_width`,
`leading_comma` and `comments`.  The tier-A contracts on those functions are stated for a fixed `self`; this scan is the
frame condition that makes "fixed" true: outside Generator.__init__ nothing in the generator code stores to those
fields (by assignment, augmented assignment, del, with/for target, or setattr / __dict__ access)."""
import ast
import os

from scans.common import REPO, Scan, files, functions, tree_of

GEN_FILES = files("sqlglot/generator.py", "sqlglot/generators/*.py", "sqlglot/transforms.py", "sqlglot/dialects/*.py")
ANY_OBJECT = ("pretty", "pad", "_indent", "max_text_width", "leading_comma")  # names only a Generator has
SELF_ONLY = ("comments",)  # also an Expression field: only `self.comments` of a generator method counts
WRITERS = {"sqlglot/generator.py:Generator.__init__"}


def stores(fn):
    """(attribute node) for every store / del / aug-assign target below fn"""
    for n in ast.walk(fn):
        if isinstance(n, ast.Attribute) and isinstance(n.ctx, (ast.Store, ast.Del)):
            yield n
        elif isinstance(n, ast.AugAssign) and isinstance(n.target, ast.Attribute):
            yield n.target


def run():
    sc = Scan("C07")
    bad = {f: [] for f in ANY_OBJECT + SELF_ONLY}
    dynamic = []
    for path in GEN_FILES:
        rel = os.path.relpath(path, REPO)
        for qn, fn in functions(path):
            site = f"{rel}:{qn}"
            for a in stores(fn):
                on_self = isinstance(a.value, ast.Name) and a.value.id == "self"
                if (a.attr in ANY_OBJECT or (a.attr in SELF_ONLY and on_self)) and site not in WRITERS:
                    bad[a.attr].append(f"{site}:{a.lineno}")
            for n in ast.walk(fn):
                # dynamic stores: setattr(x, <name>, ...) with a non-constant name or one of the fields; x.__dict__ / vars(x) updates
                if isinstance(n, ast.Call) and isinstance(n.func, ast.Name) and n.func.id in ("setattr", "delattr") and len(n.args) >= 2:
                    name = n.args[1]
                    if not (isinstance(name, ast.Constant) and name.value not in ANY_OBJECT + SELF_ONLY):
                        dynamic.append(f"{site}:{n.lineno}")
                if isinstance(n, ast.Attribute) and n.attr == "__dict__" and isinstance(n.value, ast.Name) and n.value.id == "self":
                    dynamic.append(f"{site}:{n.lineno}")
    for f in ANY_OBJECT + SELF_ONLY:
        sc.check(f"{f}:written-only-in-init", not bad[f], f"generator option .{f} is stored only in Generator.__init__", f"also stored in {bad[f]}")
    sc.check("no-dynamic-option-store", not dynamic, "no setattr/delattr/__dict__ store that could reach a generator option", f"{dynamic}")
    sc.assumptions.append("frame scan is syntactic: stores through aliases of the generator other than `self` to .comments are not seen")
    return sc


if __name__ == "__main__":
    run().main()
