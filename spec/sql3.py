"""Reference three-valued evaluator for the boolean/arithmetic fragment of property C06.

    eval3(expr, env) -> int | bool | None

Written from the SQL standard (ISO 9075-2 <boolean value expression>, <comparison predicate>, <between predicate>,
<in predicate>, <null predicate>, <boolean test>, <case expression>, <numeric value expression>), NOT from sqlglot:

* AND / OR / NOT are Kleene connectives over {TRUE, FALSE, NULL(=UNKNOWN)};
* a comparison with a NULL operand is NULL;  x BETWEEN lo AND hi  ==  x >= lo AND x <= hi;
* x IN (v1..vn) == x = v1 OR ... OR x = vn (n >= 1);  IS [NOT] NULL / IS [NOT] TRUE|FALSE are two-valued;
* COALESCE = first non-NULL argument; CASE (searched and simple) / IF take the first branch whose condition is TRUE;
* + - * and unary minus propagate NULL.

Values: Python None = NULL, bool = SQL BOOLEAN, int = SQL INTEGER.  Booleans and integers are distinct kinds: a
boolean where a number is required (or vice versa, or a bool/int comparison) is outside the fragment -> Unsupported.
Any node type not listed in _EVAL is outside the fragment -> Unsupported (callers skip, never flag).

`python -m spec.sql3 --selftest` cross-checks eval3 against the sqlite3 engine of the standard library on a few
thousand generated well-typed expressions (SQLite stores booleans as 0/1: compared modulo that representation).
"""
import os
import sys

sys.path.insert(0, os.environ.get("VERIF_REPO", "/repo"))

from sqlglot import exp  # noqa: E402


class Unsupported(Exception):
    """node / typing outside the C06 fragment"""


def _bool(v):
    if v is None or v is True or v is False:
        return v
    raise Unsupported("integer used as a truth value")


def _int(v):
    if v is None or type(v) is int:
        return v
    raise Unsupported("boolean used as a number")


def _same_kind(vals):
    kinds = {type(v) for v in vals if v is not None}
    if len(kinds) > 1:
        raise Unsupported("mixed boolean/integer operands")


def _and(a, b):
    if a is False or b is False:
        return False
    if a is None or b is None:
        return None
    return True


def _or(a, b):
    if a is True or b is True:
        return True
    if a is None or b is None:
        return None
    return False


def _not(a):
    return None if a is None else (not a)


_CMP = {
    exp.EQ: lambda a, b: a == b,
    exp.NEQ: lambda a, b: a != b,
    exp.LT: lambda a, b: a < b,
    exp.LTE: lambda a, b: a <= b,
    exp.GT: lambda a, b: a > b,
    exp.GTE: lambda a, b: a >= b,
}


def _cmp(op, a, b):
    _same_kind((a, b))
    if a is None or b is None:
        return None
    return bool(op(a, b))  # FALSE < TRUE for booleans, as in the standard


def _column(e, env):
    if not isinstance(e.this, exp.Identifier):
        raise Unsupported("star / non-identifier column")
    return env[e.name]  # one-row environment keyed by column name: a table qualifier (t.x) is ignored


def _literal(e, env):
    if e.is_string:
        raise Unsupported("string literal")
    try:
        return int(e.this)
    except ValueError:
        raise Unsupported("non-integer number") from None


def _binary_cmp(e, env):
    return _cmp(_CMP[type(e)], eval3(e.this, env), eval3(e.expression, env))


def _between(e, env):
    if e.args.get("symmetric"):
        raise Unsupported("BETWEEN SYMMETRIC")
    x, lo, hi = eval3(e.this, env), eval3(e.args["low"], env), eval3(e.args["high"], env)
    return _and(_cmp(_CMP[exp.GTE], x, lo), _cmp(_CMP[exp.LTE], x, hi))


def _in(e, env):
    items = e.args.get("expressions")
    if not items or any(e.args.get(k) for k in ("query", "unnest", "field", "is_global")):
        raise Unsupported("IN without a non-empty value list")
    x, res = eval3(e.this, env), False
    for it in items:
        res = _or(res, _cmp(_CMP[exp.EQ], x, eval3(it, env)))
    return res


def _is(e, env):
    v, rhs = eval3(e.this, env), e.expression
    if type(rhs) is exp.Null:
        res = v is None
    elif type(rhs) is exp.Boolean:
        res = _bool(v) is bool(rhs.this)
    else:
        raise Unsupported("IS <non-constant>")
    return (not res) if e.args.get("negate") else res


def _coalesce(e, env):
    vals = [eval3(a, env) for a in [e.this] + list(e.args.get("expressions") or [])]
    _same_kind(vals)
    return next((v for v in vals if v is not None), None)


def _branches(conds_results, default):
    """[(cond truth value, result)], default result -> first result whose condition is TRUE (all results same kind)"""
    _same_kind([r for _, r in conds_results] + [default])
    return next((r for c, r in conds_results if c is True), default)


def _case(e, env):
    operand = e.args.get("this")
    ov = eval3(operand, env) if operand is not None else None
    pairs = []
    for w in e.args["ifs"]:
        if type(w) is not exp.If or w.args.get("false") is not None:
            raise Unsupported("malformed CASE branch")
        c = _cmp(_CMP[exp.EQ], ov, eval3(w.this, env)) if operand is not None else _bool(eval3(w.this, env))
        pairs.append((c, eval3(w.args["true"], env)))
    d = e.args.get("default")
    return _branches(pairs, eval3(d, env) if d is not None else None)


def _if(e, env):
    f = e.args.get("false")
    return _branches([(_bool(eval3(e.this, env)), eval3(e.args["true"], env))], eval3(f, env) if f is not None else None)


def _arith(op):
    def f(e, env):
        a, b = _int(eval3(e.this, env)), _int(eval3(e.expression, env))
        return None if a is None or b is None else op(a, b)

    return f


def _neg(e, env):
    v = _int(eval3(e.this, env))
    return None if v is None else -v


_EVAL = {
    exp.Column: _column,
    exp.Literal: _literal,
    exp.Boolean: lambda e, env: bool(e.this),
    exp.Null: lambda e, env: None,
    exp.Paren: lambda e, env: eval3(e.this, env),
    exp.Not: lambda e, env: _not(_bool(eval3(e.this, env))),
    exp.And: lambda e, env: _and(_bool(eval3(e.this, env)), _bool(eval3(e.expression, env))),
    exp.Or: lambda e, env: _or(_bool(eval3(e.this, env)), _bool(eval3(e.expression, env))),
    **{k: _binary_cmp for k in _CMP},
    exp.Between: _between,
    exp.In: _in,
    exp.Is: _is,
    exp.Coalesce: _coalesce,
    exp.Case: _case,
    exp.If: _if,
    exp.Add: _arith(lambda a, b: a + b),
    exp.Sub: _arith(lambda a, b: a - b),
    exp.Mul: _arith(lambda a, b: a * b),
    exp.Neg: _neg,
}


def eval3(expr, env):
    """value of `expr` (a sqlglot expression of the C06 fragment) under `env` {column name: int | bool | None}"""
    try:
        f = _EVAL[type(expr)]
    except KeyError:
        raise Unsupported(type(expr).__name__) from None
    return f(expr, env)


def show(v):
    return "NULL" if v is None else ("TRUE" if v is True else ("FALSE" if v is False else str(v)))


# ---------------------------------------------------------------------------------------------------------------
# development-time self-test against SQLite
def _gen_exprs(n, seed=20240607):
    """n well-typed expression strings (syntax shared by sqlglot's default dialect and SQLite) over x, y INT; b, c BOOL"""
    import random

    rnd = random.Random(seed)
    ops = ["=", "<>", "<", "<=", ">", ">="]

    # every operand is parenthesised: operator precedence (a parser matter) is not what is being cross-checked
    def N(d):
        return f"({num(d)})"

    def B(d):
        return f"({boo(d)})"

    def num(d):
        k = rnd.randrange(12 if d > 0 else 5)
        if k < 3:
            return rnd.choice(["x", "y"])
        if k < 5:
            return rnd.choice(["0", "1", "2", "NULL"])
        d -= 1
        if k == 5:
            return f"{N(d)} {rnd.choice('+-*')} {N(d)}"
        if k == 6:
            return f"- {N(d)}" if rnd.random() < 0.7 else rnd.choice(["-x", "-1", "- 2"])
        if k == 7:
            return f"COALESCE({num(d)}, {num(d)})"
        if k == 8:
            return f"CASE WHEN {boo(d)} THEN {num(d)} ELSE {num(d)} END"
        if k == 9:
            return f"CASE {num(d)} WHEN {num(d)} THEN {num(d)} WHEN {num(d)} THEN {num(d)} END"
        if k == 10:
            return f"IIF({boo(d)}, {num(d)}, {num(d)})"
        return f"CASE WHEN {boo(d)} THEN {num(d)} END"

    def boo(d):
        k = rnd.randrange(16 if d > 0 else 3)
        if k < 2:
            return rnd.choice(["b", "c"])
        if k == 2:
            return rnd.choice(["TRUE", "FALSE", "NULL"])
        d -= 1
        if k < 6:
            return f"{N(d)} {rnd.choice(ops)} {N(d)}"
        if k == 6:
            return f"{B(d)} AND {B(d)}"
        if k == 7:
            return f"{B(d)} OR {B(d)}"
        if k == 8:
            return f"NOT {B(d)}"
        if k == 9:
            return f"{N(d)} {rnd.choice(['', 'NOT '])}BETWEEN {N(d)} AND {N(d)}"
        if k == 10:
            return f"{N(d)} {rnd.choice(['', 'NOT '])}IN ({', '.join(num(d) for _ in range(rnd.randint(1, 3)))})"
        if k == 11:
            return f"{rnd.choice([N, B])(d)} IS {rnd.choice(['', 'NOT '])}NULL"
        if k == 12:
            return f"{B(d)} IS {rnd.choice(['', 'NOT '])}{rnd.choice(['TRUE', 'FALSE'])}"
        if k == 13:
            return f"CASE WHEN {boo(d)} THEN {boo(d)} ELSE {boo(d)} END"
        if k == 14:
            return f"COALESCE({boo(d)}, {boo(d)})"
        return f"{B(d)} {rnd.choice(['=', '<>', '<', '>='])} {B(d)}"

    return [(boo if i % 4 else num)(3) for i in range(n)]


def sqlite_rows(sql_exprs, ints=(None, -1, 0, 1, 2, 3), bools=(None, 0, 1)):
    """evaluate every SQL text on the full grid of (x, y, b, c); yields (sql, [(x, y, b, c, value)])"""
    import itertools
    import sqlite3

    con = sqlite3.connect(":memory:")
    con.execute("CREATE TABLE t (x INTEGER, y INTEGER, b INTEGER, c INTEGER)")
    con.executemany("INSERT INTO t VALUES (?,?,?,?)", list(itertools.product(ints, ints, bools, bools)))
    for s in sql_exprs:
        yield s, con.execute(f"SELECT x, y, b, c, ({s}) FROM t").fetchall()


def selftest(n=4000, verbose=True):
    from sqlglot import parse_one

    texts = _gen_exprs(n)
    bad = cells = unsupported = 0
    kinds = {}
    for s, rows in sqlite_rows(texts):
        e = parse_one(s)
        for node in e.walk():
            kinds[type(node).__name__] = kinds.get(type(node).__name__, 0) + 1
        for x, y, b, c, got in rows:
            env = {"x": x, "y": y, "b": None if b is None else bool(b), "c": None if c is None else bool(c)}
            try:
                want = eval3(e, env)
            except Unsupported:
                unsupported += 1
                continue
            cells += 1
            if (None if want is None else int(want)) != got:
                bad += 1
                if bad <= 10:
                    print(f"MISMATCH {s!r} env={env} eval3={show(want)} sqlite={got}")
    if verbose:
        print(f"selftest: {n} expressions, {cells} cells compared, {unsupported} unsupported cells, {bad} mismatches")
        print("node kinds exercised:", dict(sorted(kinds.items())))
    assert unsupported == 0, "the self-test generator only emits the fragment"
    return bad


if __name__ == "__main__":
    if "--selftest" in sys.argv:
        sys.exit(1 if selftest() else 0)
    print(__doc__)
