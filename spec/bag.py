"""Trusted reference: SQL bag (multiset) semantics over lists of tuples, None = NULL.  No sqlglot import.

Written from ISO 9075-2 (<joined table>, <query expression> UNION/INTERSECT/EXCEPT [ALL], <group by clause>,
<set function specification>, <sort specification list>), NOT from the sqlglot executor.

Scalar expressions are tuples evaluated by ev(e, env) in three-valued logic (env: column name -> value):
  ("col", name) ("lit", v) ("eq"|"neq"|"lt"|"le"|"gt"|"ge"|"add", x, y) ("and"|"or", x, y) ("not", x)
  ("isnull"|"notnull", x) ("in"|"notin", x, [items]) ("between", x, lo, hi) ("case", [(cond, val)...], default)
  ("coalesce", [xs])
to_sql(e) renders the same tuple as fully parenthesised SQL text (one structure, two readings).

Relations are lists of equal-width tuples.  Rules:
  * a join / WHERE / HAVING condition keeps a row only when it is TRUE (FALSE and NULL both drop it);
  * outer joins append each unmatched row of the preserved side(s) once, padded with NULLs;
  * set operations, DISTINCT and GROUP BY treat NULLs as equal to each other ("not distinct"); with m copies of a row on
    the left and n on the right: UNION ALL m+n, UNION 1 if m+n>0, INTERSECT ALL min(m,n), INTERSECT 1 if min>0,
    EXCEPT ALL max(m-n,0), EXCEPT 1 if m>0 and n=0;
  * aggregates ignore NULL inputs; SUM/MIN/MAX/AVG of no (non-NULL) input is NULL, COUNT is 0, COUNT(*) counts rows;
    grouping an empty input gives no rows, aggregating without GROUP BY gives exactly one row;
  * ORDER BY: stable sort, per key ASC/DESC and NULLS FIRST/LAST; LIMIT/OFFSET slice the ordered sequence.

`python -m spec.bag --selftest` compares every operator with the sqlite3 engine of the standard library.
"""
import itertools
from collections import Counter

# ---------------------------------------------------------------------------------------------------- scalar 3VL
_CMP = {"eq": lambda a, b: a == b, "neq": lambda a, b: a != b, "lt": lambda a, b: a < b, "le": lambda a, b: a <= b,
        "gt": lambda a, b: a > b, "ge": lambda a, b: a >= b}
_SYM = {"eq": "=", "neq": "<>", "lt": "<", "le": "<=", "gt": ">", "ge": ">=", "add": "+", "and": "AND", "or": "OR"}


def t_not(x):
    return None if x is None else not x


def t_and(x, y):
    if x is False or y is False:
        return False
    return None if x is None or y is None else True


def t_or(x, y):
    if x is True or y is True:
        return True
    return None if x is None or y is None else False


def ev(e, env, ext=None):
    """ext(e, env): evaluator for node kinds this module does not define (callers add aggregates / subqueries)."""
    op = e[0]
    if op == "col":
        return env[e[1]]
    if op == "lit":
        return e[1]
    if op in _CMP:
        a, b = ev(e[1], env, ext), ev(e[2], env, ext)
        return None if a is None or b is None else _CMP[op](a, b)
    if op == "add":
        a, b = ev(e[1], env, ext), ev(e[2], env, ext)
        return None if a is None or b is None else a + b
    if op == "and":
        return t_and(ev(e[1], env, ext), ev(e[2], env, ext))
    if op == "or":
        return t_or(ev(e[1], env, ext), ev(e[2], env, ext))
    if op == "not":
        return t_not(ev(e[1], env, ext))
    if op == "isnull":
        return ev(e[1], env, ext) is None
    if op == "notnull":
        return ev(e[1], env, ext) is not None
    if op in ("in", "notin"):  # x IN (v1..vn) == x = v1 OR ... OR x = vn
        x, r = ev(e[1], env, ext), False
        for item in e[2]:
            v = ev(item, env, ext)
            r = t_or(r, None if x is None or v is None else x == v)
        return r if op == "in" else t_not(r)
    if op == "between":  # x >= lo AND x <= hi
        return ev(("and", ("ge", e[1], e[2]), ("le", e[1], e[3])), env, ext)
    if op == "case":
        for cond, val in e[1]:
            if ev(cond, env, ext) is True:
                return ev(val, env, ext)
        return ev(e[2], env, ext)
    if op == "coalesce":
        for x in e[1]:
            v = ev(x, env, ext)
            if v is not None:
                return v
        return None
    if ext is not None:
        return ext(e, env)
    raise ValueError(f"unknown scalar node {op!r}")


def _to_sql(e, ext=None):
    op = e[0]
    to_sql = lambda x: _to_sql(x, ext)  # noqa: E731
    if op == "col":
        return e[1]
    if op == "lit":
        return "NULL" if e[1] is None else ("TRUE" if e[1] is True else "FALSE" if e[1] is False else str(e[1]))
    if op in _SYM:
        return f"({to_sql(e[1])} {_SYM[op]} {to_sql(e[2])})"
    if op == "not":
        return f"(NOT {to_sql(e[1])})"
    if op in ("isnull", "notnull"):
        return f"({to_sql(e[1])} IS {'NOT ' if op == 'notnull' else ''}NULL)"
    if op in ("in", "notin"):
        return f"({to_sql(e[1])} {'NOT ' if op == 'notin' else ''}IN ({', '.join(to_sql(x) for x in e[2])}))"
    if op == "between":
        return f"({to_sql(e[1])} BETWEEN {to_sql(e[2])} AND {to_sql(e[3])})"
    if op == "case":
        whens = " ".join(f"WHEN {to_sql(c)} THEN {to_sql(v)}" for c, v in e[1])
        return f"(CASE {whens} ELSE {to_sql(e[2])} END)"
    if op == "coalesce":
        return f"COALESCE({', '.join(to_sql(x) for x in e[1])})"
    if ext is not None:
        return ext(e)
    raise ValueError(f"unknown scalar node {op!r}")


to_sql = _to_sql


# ---------------------------------------------------------------------------------------------------- relations
def select(rows, cond):
    """WHERE / HAVING: cond(row) -> True | False | None; only TRUE keeps the row."""
    return [r for r in rows if cond(r) is True]


def cross(left, right):
    return [l + r for l in left for r in right]


def join(left, right, cond, kind, wl, wr):
    """kind in INNER|LEFT|RIGHT|FULL|CROSS; cond(l + r) 3VL; wl/wr = widths (needed for padding).
    CROSS without a condition is the product; CROSS JOIN ... ON <condition> (SQLite / MySQL accept it) is an inner join."""
    if kind == "CROSS" and cond is None:
        return cross(left, right)
    out, hit_l, hit_r = [], set(), set()
    for i, l in enumerate(left):
        for j, r in enumerate(right):
            if cond(l + r) is True:
                out.append(l + r)
                hit_l.add(i)
                hit_r.add(j)
    if kind in ("LEFT", "FULL"):
        out += [l + (None,) * wr for i, l in enumerate(left) if i not in hit_l]
    if kind in ("RIGHT", "FULL"):
        out += [(None,) * wl + r for j, r in enumerate(right) if j not in hit_r]
    return out


def distinct(rows):
    return list(dict.fromkeys(rows))  # tuple equality: None == None, i.e. NULLs are not distinct from each other


def setop(op, all_, left, right):
    """op in UNION|INTERSECT|EXCEPT; all_ = True for the ALL variant."""
    m, n = Counter(left), Counter(right)
    out = []
    for row in dict.fromkeys(left + right):
        a, b = m[row], n[row]
        k = {"UNION": a + b, "INTERSECT": min(a, b), "EXCEPT": max(a - b, 0) if all_ else (a if b == 0 else 0)}[op]
        out += [row] * (k if all_ else min(k, 1))
    return out


def aggregate(fn, values):
    """fn in SUM|COUNT|COUNT_DISTINCT|MIN|MAX|AVG|COUNT_STAR; values = the argument evaluated on every row of the group."""
    if fn == "COUNT_STAR":
        return len(values)
    vals = [v for v in values if v is not None]
    if fn == "COUNT":
        return len(vals)
    if fn == "COUNT_DISTINCT":
        return len(set(vals))
    if not vals:
        return None
    return {"SUM": sum, "MIN": min, "MAX": max, "AVG": lambda v: sum(v) / len(v)}[fn](vals)


def group_by(rows, key, grouped):
    """key(row) -> tuple, or None for 'no GROUP BY' (one group, even when rows is empty).
    Returns [(key tuple, [rows of the group])] in first-appearance order."""
    if not grouped:
        return [((), list(rows))]
    groups = {}
    for r in rows:
        groups.setdefault(key(r), []).append(r)
    return list(groups.items())


def order_by(rows, keys):
    """keys = [(f(row) -> value, desc: bool, nulls_first: bool)]; stable."""
    out = list(rows)
    for f, desc, nulls_first in reversed(keys):
        nulls = [r for r in out if f(r) is None]
        rest = sorted((r for r in out if f(r) is not None), key=f, reverse=desc)  # sorted() is stable, also reversed
        out = nulls + rest if nulls_first else rest + nulls
    return out


def limit_offset(rows, limit=None, offset=0):
    rows = rows[offset:]
    return rows if limit is None else rows[:limit]


# ---------------------------------------------------------------------------------------------------- self-test
def _selftest(n=1500, seed=7):
    import random
    import sqlite3

    rnd = random.Random(seed)
    con = sqlite3.connect(":memory:")
    V = [None, 1, 2]
    cols = ["l.a", "l.b", "r.a", "r.b"]
    checked = Counter()

    def rel():
        return [(rnd.choice(V), rnd.choice(V)) for _ in range(rnd.randint(0, 3))]

    def load(name, rows):
        con.execute(f"DROP TABLE IF EXISTS {name}")
        con.execute(f"CREATE TABLE {name} (a INT, b INT)")
        con.executemany(f"INSERT INTO {name} VALUES (?, ?)", rows)

    def scalar(d, names):
        k = rnd.random()
        if d == 0 or k < 0.25:
            return ("col", rnd.choice(names)) if rnd.random() < 0.7 else ("lit", rnd.choice(V))
        sub = lambda: scalar(d - 1, names)  # noqa: E731
        pick = rnd.choice(["eq", "neq", "lt", "le", "gt", "ge", "and", "or", "not", "isnull", "notnull", "in", "notin",
                           "between", "case", "coalesce", "add"])
        if pick in ("and", "or"):
            return (pick, pred(d - 1, names), pred(d - 1, names))
        if pick == "not":
            return ("not", pred(d - 1, names))
        if pick in ("isnull", "notnull"):
            return (pick, sub())
        if pick in ("in", "notin"):
            return (pick, sub(), [sub() for _ in range(rnd.randint(1, 3))])
        if pick == "between":
            return (pick, sub(), sub(), sub())
        if pick == "case":
            return (pick, [(pred(d - 1, names), num(d - 1, names)) for _ in range(rnd.randint(1, 2))], num(d - 1, names))
        if pick == "coalesce":
            return (pick, [num(d - 1, names) for _ in range(rnd.randint(2, 3))])
        return (pick, num(d - 1, names), num(d - 1, names))

    def num(d, names):
        while True:
            e = scalar(d, names)
            if e[0] in ("col", "lit", "add", "case", "coalesce"):
                return e

    def pred(d, names):
        while True:
            e = scalar(max(d, 1), names)
            if e[0] not in ("col", "lit", "add", "case", "coalesce"):
                return e

    def same(tag, sql, expected, ordered=False):
        got = [tuple(r) for r in con.execute(sql).fetchall()]
        exp_ = [tuple(int(v) if isinstance(v, bool) else v for v in r) for r in expected]
        ok = got == exp_ if ordered else Counter(got) == Counter(exp_)
        assert ok, f"{tag}: spec disagrees with sqlite\n  {sql}\n  sqlite {got}\n  spec   {exp_}"
        checked[tag] += 1

    for _ in range(n):
        L, R = rel(), rel()
        load("l", L)
        load("r", R)
        env4 = lambda row: dict(zip(cols, row))  # noqa: E731
        envl = lambda row: dict(zip(cols[:2], row))  # noqa: E731
        # scalar expression in projection and in WHERE
        e = scalar(3, cols[:2])
        same("scalar", f"SELECT {to_sql(e)} FROM l", [(ev(e, envl(r)),) for r in L])
        p = pred(3, cols[:2])
        same("where", f"SELECT a, b FROM l WHERE {to_sql(p)}", select(L, lambda r: ev(p, envl(r))))
        # joins
        on = pred(2, cols)
        for kind in ("INNER", "LEFT", "RIGHT", "FULL"):
            same("join-" + kind, f"SELECT l.a, l.b, r.a, r.b FROM l {kind} JOIN r ON {to_sql(on)}",
                 join(L, R, lambda r: ev(on, env4(r)), kind, 2, 2))
        same("join-CROSS", "SELECT l.a, l.b, r.a, r.b FROM l CROSS JOIN r", join(L, R, None, "CROSS", 2, 2))
        # set operations (sqlite has no INTERSECT ALL / EXCEPT ALL: emulated with a per-duplicate ordinal)
        for op in ("UNION", "INTERSECT", "EXCEPT"):
            same("setop-" + op, f"SELECT a, b FROM l {op} SELECT a, b FROM r", setop(op, False, L, R))
        same("setop-UNION-ALL", "SELECT a, b FROM l UNION ALL SELECT a, b FROM r", setop("UNION", True, L, R))
        num_ = "SELECT a, b, ROW_NUMBER() OVER (PARTITION BY a, b) AS k FROM "
        for op in ("INTERSECT", "EXCEPT"):
            same(f"setop-{op}-ALL", f"SELECT a, b FROM ({num_}l {op} {num_}r)", setop(op, True, L, R))
        same("distinct", "SELECT DISTINCT a, b FROM l", distinct(L))
        # aggregates with and without GROUP BY, HAVING
        for fn in ("SUM", "COUNT", "MIN", "MAX", "AVG", "COUNT_STAR", "COUNT_DISTINCT"):
            call = "COUNT(*)" if fn == "COUNT_STAR" else "COUNT(DISTINCT b)" if fn == "COUNT_DISTINCT" else f"{fn}(b)"
            same("agg-nogroup", f"SELECT {call} FROM l",
                 [(aggregate(fn, [r[1] for r in g]),) for _, g in group_by(L, None, False)])
            same("agg-group", f"SELECT a, {call} FROM l GROUP BY a",
                 [k + (aggregate(fn, [r[1] for r in g]),) for k, g in group_by(L, lambda r: (r[0],), True)])
            same("agg-having", f"SELECT a FROM l GROUP BY a HAVING {call} > 1",
                 [k for k, g in group_by(L, lambda r: (r[0],), True)
                  if ev(("gt", ("lit", aggregate(fn, [r[1] for r in g])), ("lit", 1)), {}) is True])
        # ORDER BY (total: both columns), LIMIT / OFFSET
        for d0, nf0, d1, nf1 in itertools.product([False, True], repeat=4):
            spec_ = lambda d, nf: f"{'DESC' if d else 'ASC'} NULLS {'FIRST' if nf else 'LAST'}"  # noqa: E731
            exp_rows = order_by(L, [(lambda r: r[0], d0, nf0), (lambda r: r[1], d1, nf1)])
            same("order", f"SELECT a, b FROM l ORDER BY a {spec_(d0, nf0)}, b {spec_(d1, nf1)}", exp_rows, ordered=True)
            lim, off = rnd.randint(0, 3), rnd.randint(0, 2)
            same("limit", f"SELECT a, b FROM l ORDER BY a {spec_(d0, nf0)}, b {spec_(d1, nf1)} LIMIT {lim} OFFSET {off}",
                 limit_offset(exp_rows, lim, off), ordered=True)
    # stability of order_by (sqlite cannot witness it: checked against the definition)
    rows = [(1, "x"), (None, "y"), (1, "z"), (2, "w"), (None, "v")]
    assert order_by(rows, [(lambda r: r[0], True, False)]) == [(2, "w"), (1, "x"), (1, "z"), (None, "y"), (None, "v")]
    assert order_by(rows, [(lambda r: r[0], False, True)]) == [(None, "y"), (None, "v"), (1, "x"), (1, "z"), (2, "w")]
    return dict(checked)


if __name__ == "__main__":
    import sys

    if "--selftest" in sys.argv:
        res = _selftest()
        print("spec.bag selftest OK against sqlite3:", res)
    else:
        print(__doc__)
