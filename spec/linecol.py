"""Trusted spec for C13: the (line, col) the tokenizer associates with a character offset.

Convention, read off /repo/sqlglot/tokenizer_core.py (and pinned by tests/test_parser.py::test_token_position_meta,
e.g. "SELECT 1" -> Literal meta {"line": 1, "col": 8, "start": 7, "end": 7}):

* `TokenizerCore._add` (tokenizer_core.py:764-785) stamps a token with `line=self._line, col=self._col,
  start=self._start, end=self._current - 1` at the moment the cursor sits on the token's LAST character
  (`self._char == sql[self._current - 1]`).  So a token's (line, col) describe offset `token.end`, not `token.start`.
* `_advance(i)` (723-739): `self._col += i` for an ordinary character, hence `_col` == number of characters consumed
  on the current line == 1-based column of `sql[_current - 1]` (initial `_col = 0`, `_line = 1`; every character,
  including a tab or an astral code point, counts 1 -- offsets are Python str indices, i.e. code points).
* line breaks (724-730): leaving a character `"\n"` or `"\r"` starts a new line (`_line += 1`, `_col = i`), except
  leaving a `"\r"` that is immediately followed by `"\n"`: that `"\r"` neither starts a line nor advances the
  column, so `"\r\n"` is ONE break (the `"\n"` gets the same column as the `"\r"`).  A lone `"\r"` is a break,
  `"\n\r"` is two breaks.  No other character (\\v, \\f, U+0085, U+2028, ...) is a line break.

Therefore, for 0 <= offset < len(sql):

    line(offset) = 1 + #{ k < offset : sql[k] is a line terminator }       where sql[k] is a terminator iff
                       sql[k] == "\n", or sql[k] == "\r" and sql[k+1] != "\n"
    col(offset)  = offset - ls + 1     with ls = 1 + the largest terminator index k < offset (0 if none),
                   minus 1 if sql[offset] is the "\n" of a "\r\n" pair (the "\r" did not advance the column;
                   no token ever ends there, included only to make the function total and faithful).

The C13 contract is `(tok.line, tok.col) == linecol(sql, tok.end)` for EVERY token, whatever path produced it
(`_advance` one char at a time, the multi-character `_advance(size - 1)` of `_scan_keywords`, or the `str.find`
fast path of `_extract_string`).
"""


def is_terminator(sql: str, k: int) -> bool:
    """sql[k] ends a line: "\\n", or a "\\r" that is not the first half of "\\r\\n"."""
    c = sql[k]
    if c == "\n":
        return True
    if c == "\r":
        return not (k + 1 < len(sql) and sql[k + 1] == "\n")
    return False


def linecol(sql: str, offset: int) -> tuple:
    """(line, col), both 1-based, of the character sql[offset]."""
    if not 0 <= offset < len(sql):
        raise ValueError(f"offset {offset} outside [0, {len(sql)})")
    line = 1
    ls = 0
    for k in range(offset):
        if is_terminator(sql, k):
            line += 1
            ls = k + 1
    col = offset - ls + 1
    if sql[offset] == "\n" and offset > 0 and sql[offset - 1] == "\r":
        col -= 1
    return line, col


def linecol_table(sql: str) -> list:
    """[linecol(sql, o) for o in range(len(sql))] in one pass (same definition, used for long inputs)."""
    out = []
    line, ls = 1, 0
    n = len(sql)
    for o in range(n):
        col = o - ls + 1
        if sql[o] == "\n" and o > 0 and sql[o - 1] == "\r":
            col -= 1
        out.append((line, col))
        if is_terminator(sql, o):
            line += 1
            ls = o + 1
    return out
