"""C07 (bounded): generator options (pretty / pad / indent / max_text_width / leading_comma / comments / identify /
normalize_functions) change the layout of the SQL text, never the tree it parses back to.
Runs under /venv/bin/python.

Property.  For every syntax tree and dialect, the SQL produced with pretty printing (any pad, indent, max_text_width,
leading_comma), with comments on or off, and with identify / normalize_functions settings parses back in that dialect
to the same tree as the default single-line output, up to comments, identifier quoting flags and function-name case
respectively.  Pretty output never contains the internal line-break sentinel and comments=False output contains no
comment text.

Contract, evaluated on the REAL Expression.sql (-> Dialect.generate -> Generator.generate) and sqlglot.parse_one:

    t    = tree parsed from a corpus text in dialect d (optionally with comments attached to a node afterwards)
    base = parse_one(t.sql(dialect=d), read=d)                       (no sqlglot error, else the tree is skipped)
    for every option combination o:   out = t.sql(dialect=d, **o)
  (i)   reparse       parse_one(out, read=d) does not raise ParseError / TokenError
  (ii)  tree-differs  normalise(parse_one(out, read=d), o) == normalise(base, o)     (Expression.__eq__), where normalise
                      - drops the comments of every node            when o["comments"] is False
                      - resets the `quoted` flag of every Identifier when o["identify"] is not False
                      - upper-cases the name of every Anonymous function (the only place where the function-name case
                        reaches the tree: Generator.normalize_func is applied by Generator.func to the name only)
                        when o has normalize_functions
  (iii) sentinel      Generator.SENTINEL_LINE_BREAK (read from the dialect's generator class) does not occur in out when
                      o["pretty"] is True
  (iv)  comment-leak  o["comments"] is False: no token of D.tokenize(out) carries comments, and none of the comment texts
                      attached to t occurs in out (a text that also occurs in the SQL of the comment-free copy of t is a
                      legitimate part of the statement and is not looked for)

A tree / combination is SKIPPED (belongs to C05) when a call raises something outside {ParseError, TokenError,
UnsupportedError} or does not return within ITEM_ALARM seconds; a sqlglot error from t.sql(...) itself is counted as
`ungenerable` and skipped.

Inputs.  No input contains the sentinel text (its effect on string literals is recorded under another property).

Keys:  c07:<reparse|tree-differs|sentinel|comment-leak>:<option that matters>:<dialect|base>:<cause>
  option that matters = the first option (order: max_text_width, leading_comma, pad, indent, comments, identify,
                        normalize_functions, pretty) whose reversion to its default alone makes the violation of that
                        clause disappear; if no single reversion does (several options are each sufficient): the first
                        option that alone, with everything else at its default, reproduces it; `combo` otherwise
  cause               = reparse: error class + description without digits / quoted text;
                        tree-differs: first structural difference (c01.first_diff: `<Class>`, `<A>-><B>`, `<Class>.<arg>`)
                                      prefixed with the class of the differing node's parent in the default tree;
                        sentinel: `in-output`;  comment-leak: `token-comment` | `text`
"""
import itertools
import logging
import os
import sys

sys.path.insert(0, os.path.dirname(os.path.dirname(os.path.abspath(__file__))))

from bounded import harness
from bounded import corpus
from bounded import c01
from bounded.c01 import _call, dname, first_diff, error_cause

import sqlglot
from sqlglot import exp
from sqlglot import errors as E
from sqlglot.dialects.dialect import Dialect

logging.getLogger("sqlglot").setLevel(logging.CRITICAL)

# ---------------------------------------------------------------------------------------------------
# options
FACTORS = [
    ("pretty", [False, True]),
    ("pad", [2, 0, 1, 3, 4]),
    ("indent", [2, 0, 1, 3, 4]),
    ("max_text_width", [80, 1, 20]),
    ("leading_comma", [False, True]),
    ("comments", [True, False]),
    ("identify", [False, True, "safe"]),
    ("normalize_functions", [None, "upper", "lower", False]),  # None = not passed (the dialect's default)
]
DEFAULTS = {name: values[0] for name, values in FACTORS}
EXTREMES = {"pretty": True, "pad": 4, "indent": 4, "max_text_width": 1, "leading_comma": True, "comments": False, "identify": True,
            "normalize_functions": "lower"}
EXTREMES_LOW = {"pretty": True, "pad": 0, "indent": 0, "max_text_width": 1, "leading_comma": True, "comments": True, "identify": "safe",
                "normalize_functions": False}
REVERT_ORDER = ["max_text_width", "leading_comma", "pad", "indent", "comments", "identify", "normalize_functions", "pretty"]


def _pairwise(factors):
    """deterministic greedy strength-2 covering array over factors = [(name, values)] -> list of dicts"""
    names = [n for n, _ in factors]
    idx_pairs = list(itertools.combinations(range(len(factors)), 2))
    uncovered = set()
    for i, j in idx_pairs:
        for a in factors[i][1]:
            for b in factors[j][1]:
                uncovered.add((i, repr(a), j, repr(b)))
    candidates = list(itertools.product(*[vs for _, vs in factors]))
    rows = []
    while uncovered:
        best, best_gain = None, -1
        for c in candidates:
            gain = 0
            for i, j in idx_pairs:
                if (i, repr(c[i]), j, repr(c[j])) in uncovered:
                    gain += 1
            if gain > best_gain:
                best, best_gain = c, gain
        for i, j in idx_pairs:
            uncovered.discard((i, repr(best[i]), j, repr(best[j])))
        rows.append(dict(zip(names, best)))
    return rows


_COMBOS = {}


def combos(kind):
    """kind = "cover": pairwise cover of the 7 layout/other factors with pretty=True, the full product of
    (comments, identify, normalize_functions) with pretty=False, all-defaults, two all-extremes rows.
    kind = "full": the full product."""
    if kind in _COMBOS:
        return _COMBOS[kind]
    if kind == "full":
        rows = [dict(zip([n for n, _ in FACTORS], vs)) for vs in itertools.product(*[v for _, v in FACTORS])]
    else:
        rows = [dict(DEFAULTS), dict(EXTREMES), dict(EXTREMES_LOW)]
        for r in _pairwise(FACTORS[1:]):
            rows.append(dict(r, pretty=True))
        for vs in itertools.product(*[v for _, v in FACTORS[5:]]):
            r = dict(DEFAULTS)
            r.update(dict(zip([n for n, _ in FACTORS[5:]], vs)))
            rows.append(r)
        seen, out = set(), []
        for r in rows:
            k = repr(sorted(r.items()))
            if k not in seen:
                seen.add(k)
                out.append(r)
        rows = out
    _COMBOS[kind] = rows
    return rows


def kwargs_of(o):
    """generator kwargs: only the non-default entries are passed (normalize_functions=None means `not passed`)"""
    return {k: v for k, v in o.items() if v != DEFAULTS[k] or type(v) is not type(DEFAULTS[k])}


# ---------------------------------------------------------------------------------------------------
# trees
def _in_list(n):
    return ", ".join(str(i) for i in range(1, n + 1))


EXTRA_STATEMENTS = [
    f"SELECT a FROM t WHERE a IN ({_in_list(40)})",
    "SELECT a FROM t WHERE s IN (" + ", ".join(f"'value_number_{i}'" for i in range(12)) + ") AND b NOT IN (1, 2)",
    "SELECT " + ", ".join(f"column_number_{i}" for i in range(30)) + " FROM t",
    "SELECT " + ", ".join(f"t.c{i} AS alias_{i}" for i in range(12)) + " FROM t",
    "SELECT * FROM (SELECT * FROM (SELECT * FROM (SELECT a FROM t WHERE a > 1) AS x WHERE a > 2) AS y WHERE a > 3) AS z WHERE a > 4",
    "SELECT a FROM t WHERE a IN (SELECT b FROM u WHERE b IN (SELECT c FROM v WHERE c IN (1, 2, 3)))",
    "SELECT CASE WHEN a = 1 THEN 'one' WHEN a = 2 THEN 'two' WHEN a = 3 THEN 'three' WHEN a = 4 THEN 'four' WHEN a = 5 THEN 'five' ELSE 'many' END AS w FROM t",
    "SELECT CASE WHEN a = 1 THEN CASE WHEN b = 1 THEN 'x' ELSE CASE c WHEN 1 THEN 'y' ELSE 'z' END END ELSE (SELECT MAX(d) FROM u) END FROM t",
    "SELECT COALESCE(" + ", ".join(f"argument_{i}" for i in range(16)) + ") FROM t",
    "SELECT CONCAT('" + "x" * 90 + "', a), f(g(h(a, 'some longer literal text'), 'another literal of some length'), 'and a third one here') FROM t",
    "SELECT " + " + ".join(f"term_{i}" for i in range(24)) + " AS total FROM t",
    "SELECT a FROM t WHERE " + " AND ".join(f"(c{i} = {i} OR d{i} < {i})" for i in range(8)),
    "WITH c1 AS (SELECT a FROM t), c2 AS (SELECT a FROM c1 WHERE a > 1), c3 AS (SELECT a FROM c2 UNION ALL SELECT a FROM c1) SELECT c3.a, SUM(c3.a) OVER (PARTITION BY c3.a ORDER BY c3.a ROWS BETWEEN UNBOUNDED PRECEDING AND CURRENT ROW) AS s FROM c3 JOIN c1 ON c3.a = c1.a LEFT JOIN c2 ON c2.a = c1.a WHERE c3.a > 0 GROUP BY c3.a HAVING COUNT(*) > 1 ORDER BY c3.a DESC LIMIT 10",
    "INSERT INTO t (a, b, c) VALUES " + ", ".join(f"({i}, 'row {i}', NULL)" for i in range(10)),
    "CREATE TABLE big (" + ", ".join(f"col_{i} INT NOT NULL" for i in range(12)) + ", PRIMARY KEY (col_0))",
    "SELECT a, (SELECT COUNT(*) FROM u WHERE u.a = t.a AND u.b IN (1, 2, 3)) AS n, EXISTS (SELECT 1 FROM v WHERE v.a = t.a) AS e FROM t",
    "SELECT a /* c1 */, b /* c2 */ FROM t /* c3 */ WHERE a IN (1 /* c4 */, 2) /* c5 */",
    "/* head */ SELECT a -- tail a\n, b -- tail b\nFROM t -- tail t\nWHERE a > 1 -- tail w\nORDER BY a -- tail o\n",
    "SELECT f(a /* in call */, b) /* after call */, CASE WHEN a /* in case */ = 1 THEN 2 END FROM (SELECT a, b FROM t /* inner */) AS s /* alias */",
    "SELECT a FROM t /* j0 */ JOIN u /* j1 */ ON t.a = u.a /* j2 */ UNION ALL /* u0 */ SELECT a FROM v /* v0 */",
]

COMMENT_TEXTS = [" plain_Cmt ", " dash--Cmt ", " close*/Cmt ", " open/*Cmt ", " multi\nline_Cmt ", "tight_Cmt", " semi;colon'quote\"Cmt "]
COMMENT_HOSTS = [
    "SELECT a, b + 1 AS c FROM t WHERE a > 1 AND b IS NOT NULL",
    "SELECT t.a, COUNT(*) AS n FROM t JOIN u ON t.id = u.id WHERE u.x IN (1, 2, 3) GROUP BY t.a HAVING COUNT(*) > 1 ORDER BY n LIMIT 5",
    "WITH c AS (SELECT a FROM t) SELECT CASE WHEN a = 1 THEN 'x' ELSE f(a, 2) END FROM c UNION ALL SELECT a FROM (SELECT a FROM u) AS s",
    "INSERT INTO t (a, b) VALUES (1, 'x'), (2, 'y')",
    "CREATE TABLE t (a INT NOT NULL, b VARCHAR(10) DEFAULT 'x')",
    "UPDATE t SET a = 1, b = b + 1 WHERE c = 2",
]
# hosts for the multi-line-content variants: string literals / identifiers below every kind of node that lays out its children itself
ML_HOSTS = [
    "SELECT SUM(x) FILTER(WHERE y = 'l1' AND z LIKE 'l2') AS s, COUNT(*) FILTER(WHERE w IN ('a', 'b')) FROM t",
    "SELECT SUM(x) OVER (PARTITION BY COALESCE(y, 'p1') ORDER BY CASE WHEN z = 'o1' THEN 1 ELSE 2 END) FROM t WINDOW w AS (PARTITION BY 'w1')",
    "SELECT CASE x WHEN 'c1' THEN 'r1' ELSE CONCAT('e1', f('e2', g('e3'))) END AS c, CAST('d1' AS TEXT), 'n1' || 'n2' FROM t WHERE a BETWEEN 'b1' AND 'b2'",
    "SELECT a FROM t JOIN u ON t.s = 'j1' AND u.s <> 'j2' WHERE EXISTS (SELECT 1 FROM v WHERE v.s = 'x1') AND t.s IN (SELECT 's1' UNION ALL SELECT 's2')",
    "WITH c AS (SELECT 'w1' AS a) SELECT a, (SELECT MAX('q1') FROM c) FROM c GROUP BY a, 'g1' HAVING MAX(a) > 'h1' ORDER BY 'o1', a LIMIT 3",
    "INSERT INTO t (a, b) VALUES ('v1', 'v2'), ('v3', NULL)",
    "CREATE TABLE t (a VARCHAR(10) DEFAULT 'd1' NOT NULL, b INT COMMENT 'c1', CHECK (a <> 'k1'))",
    "UPDATE t SET a = 'u1', b = REPLACE(b, 'u2', 'u3') WHERE c = 'u4'",
    "SELECT * FROM t PIVOT(SUM(x) FOR y IN ('p1', 'p2')) AS p",
    "SELECT a FROM t WHERE s = ANY(ARRAY['a1', 'a2']) AND NOT (s = 'n1' OR s IS NULL) AND s NOT LIKE 'k1' ESCAPE 'e'",
    "SELECT TRIM(BOTH 'x' FROM s), SUBSTRING(s FROM 1 FOR 2), EXTRACT(YEAR FROM d), INTERVAL '1' DAY, DATE '2020-01-01', f(a => 'k1') FROM t",
    "MERGE INTO t USING u ON t.a = u.a AND u.s = 'm1' WHEN MATCHED THEN UPDATE SET s = 'm2' WHEN NOT MATCHED THEN INSERT (a, s) VALUES (u.a, 'm3')",
]
N_POSITIONS = 8


def _positions(n):
    """N_POSITIONS node indices (walk order) spread over a tree of n nodes"""
    if n <= N_POSITIONS:
        return list(range(n))
    return sorted({(k * (n - 1)) // (N_POSITIONS - 1) for k in range(N_POSITIONS)})


def sources(tier):
    """-> list of (sql, variant) ; variant = None | ("comment", position_slot, comment_text_index) | ("comment-all", text_index)"""
    out = [(s, None) for s in corpus.STATEMENTS + EXTRA_STATEMENTS]
    for h in COMMENT_HOSTS:
        for slot in range(N_POSITIONS):
            for ci in range(len(COMMENT_TEXTS)):
                out.append((h, ("comment", slot, ci)))
        for ci in range(len(COMMENT_TEXTS)):
            out.append((h, ("comment-all", ci)))
    for h in ML_HOSTS + COMMENT_HOSTS:
        out.append((h, None))
        out.append((h, ("ml-strings",)))
        out.append((h, ("ml-idents",)))
        out.append((h, ("crlf-strings",)))
        out.append((h, ("crlf-idents",)))
    return out


def build_trees(sql, d, variant):
    """-> ("ok", [trees]) | (status, None)"""
    D = Dialect.get_or_raise(d or None)
    st, trees = _call(lambda: D.parse(sql))
    if st != "ok":
        return {"err": "unparsed", "foreign": "skipped-foreign", "hang": "skipped-hang"}[st], None
    trees = [t for t in trees if t is not None]
    if not trees:
        return "unparsed", None
    if variant:
        t = trees[0]
        nodes = list(t.walk())
        if variant[0] in ("ml-strings", "crlf-strings"):  # every string literal gets a line break (LF / CR LF / lone CR) in its text
            lits = [n for n in nodes if isinstance(n, exp.Literal) and n.is_string]
            if not lits:
                return "no-such-position", None
            for k, n in enumerate(lits):
                n.set("this", f"{n.this}\n  ml{k}\n" if variant[0] == "ml-strings" else f"{n.this}\r\n  c{k}\rd\r\n")
        elif variant[0] == "crlf-idents":
            ids = [n for n in nodes if isinstance(n, exp.Identifier) and isinstance(n.parent, (exp.Column, exp.Alias, exp.TableAlias))]
            if not ids:
                return "no-such-position", None
            for k, n in enumerate(ids):
                n.set("this", f"{n.this}\r\n id")
                n.set("quoted", True)
        elif variant[0] == "ml-idents":  # every column / alias identifier becomes a quoted one with a line break
            ids = [n for n in nodes if isinstance(n, exp.Identifier) and isinstance(n.parent, (exp.Column, exp.Alias, exp.TableAlias))]
            if not ids:
                return "no-such-position", None
            for k, n in enumerate(ids):
                n.set("this", f"{n.this}\n id")
                n.set("quoted", True)
        elif variant[0] == "comment":
            pos = _positions(len(nodes))
            slot = variant[1]
            if slot >= len(pos):
                return "no-such-position", None
            nodes[pos[slot]].comments = [COMMENT_TEXTS[variant[2]]]
        elif variant[0] == "comment-all":
            for k, n in enumerate(nodes):
                n.comments = [COMMENT_TEXTS[variant[1]].rstrip() + str(k) + " "]
    return "ok", trees


# ---------------------------------------------------------------------------------------------------
# the contract
def normalise(tree, o):
    """in place, on a freshly parsed (or copied) tree"""
    if o["comments"] is False:
        for n in tree.walk():
            n.comments = None
    if o["identify"] is not False:
        for n in list(tree.find_all(exp.Identifier)):
            if n.args.get("quoted"):
                n.set("quoted", False)
    if o["normalize_functions"] is not None:
        for n in list(tree.find_all(exp.Anonymous)):
            if isinstance(n.this, str):
                n.set("this", n.this.upper())
    return tree


def comment_texts(tree):
    out = []
    for n in tree.walk():
        for c in n.comments or []:
            c = c.strip()
            if c:
                out.append(c)
    return out


def _strip_comments(tree):
    t = tree.copy()
    for n in t.walk():
        n.comments = None
    return t


class _Ctx:
    def __init__(self, D, d, tree):
        self.D, self.d, self.tree = D, d, tree
        self.sentinel = D.generator_class.SENTINEL_LINE_BREAK
        self.base = None
        self.norm_base = {}
        self.base_comments = []
        self.known = None


def evaluate(ctx, o, count=None):
    """-> (status, {clause: (cause, what, out)})  for one option combination; status in ok|ungenerable|skipped-foreign|skipped-hang"""
    D, d, tree = ctx.D, ctx.d, ctx.tree
    kw = kwargs_of(o)
    st, out = _call(lambda: tree.sql(dialect=d or None, **kw))
    if count is not None:
        count["sql"] += 1
    if st != "ok":
        return {"err": "ungenerable", "foreign": "skipped-foreign", "hang": "skipped-hang"}[st], {}
    v = {}
    st, parsed = _call(lambda: sqlglot.parse_one(out, read=d or None))
    if count is not None:
        count["parse_one"] += 1
    if st in ("foreign", "hang"):
        return "skipped-" + st, {}
    if st == "err":
        v["reparse"] = (error_cause(parsed), f"output does not parse: {str(parsed)[:100]}", out)
    else:
        if o["comments"] and count is not None and sorted(comment_texts(parsed)) != ctx.base_comments:
            count["cmt_differs"] += 1  # observation only: `==` does not look at comments
        a = normalise(parsed, o)
        sig = (o["comments"] is False, o["identify"] is not False, o["normalize_functions"] is not None)
        b = ctx.norm_base.get(sig)
        if b is None:
            b = ctx.norm_base[sig] = normalise(ctx.base.copy(), o)
        if not (a == b):
            diff = first_diff(b, a)
            cause = "same-structure"
            if diff:
                par = diff[1].parent
                cause = (type(par).__name__ + ">" if par is not None else "") + diff[0]
            v["tree-differs"] = (cause, "output parses to a different tree than the default single-line output", out)
    if o["pretty"] and ctx.sentinel in out:
        v["sentinel"] = ("in-output", "line-break sentinel in pretty output", out)
    if o["comments"] is False:
        st, toks = _call(lambda: D.tokenize(out))
        if st == "ok":
            if any(t.comments for t in toks):
                v["comment-leak"] = ("token-comment", "a token of the comments=False output carries a comment", out)
            else:
                hit = next((c for c in ctx.known if c in out), None)
                if hit is not None:
                    v["comment-leak"] = ("text", f"comment text {hit!r} occurs in the comments=False output", out)
    return "ok", v


def matters(ctx, o, clause):
    for name in REVERT_ORDER:
        if o[name] == DEFAULTS[name] and type(o[name]) is type(DEFAULTS[name]):
            continue
        o2 = dict(o)
        o2[name] = DEFAULTS[name]
        st, v = evaluate(ctx, o2)
        if st == "ok" and clause not in v:
            return name
    # no single reversion helps: several options are each sufficient -> the first one that alone reproduces the violation
    for name in REVERT_ORDER:
        if o[name] == DEFAULTS[name] and type(o[name]) is type(DEFAULTS[name]):
            continue
        o2 = dict(DEFAULTS)
        o2[name] = o[name]
        st, v = evaluate(ctx, o2)
        if st == "ok" and clause in v:
            return name
    return "combo"


def check_tree(item):
    """item = (sql, d, variant, combo kind) -> dict"""
    sql, d, variant, kind = item
    D = Dialect.get_or_raise(d or None)
    res = {"status": None, "evals": 0, "count": {"sql": 0, "parse_one": 0, "cmt_differs": 0}, "skipped_combos": 0, "trees": 0, "nontrivial": 0, "viol": [],
           "cmt_differs": 0}
    st, trees = build_trees(sql, d, variant)
    if st != "ok":
        res["status"] = st
        return res
    for ti, tree in enumerate(trees):
        ctx = _Ctx(D, d, tree)
        stb, base_sql = _call(lambda: tree.sql(dialect=d or None))
        res["count"]["sql"] += 1
        if stb != "ok":
            res["status"] = {"err": "ungenerable", "foreign": "skipped-foreign", "hang": "skipped-hang"}[stb]
            continue
        stb, base = _call(lambda: sqlglot.parse_one(base_sql, read=d or None))
        res["count"]["parse_one"] += 1
        if stb != "ok":
            res["status"] = {"err": "base-unparsable(C01)", "foreign": "skipped-foreign", "hang": "skipped-hang"}[stb]
            continue
        ctx.base = base
        ctx.base_comments = sorted(comment_texts(base))
        known = comment_texts(tree)
        if known:
            stc, clean = _call(lambda: _strip_comments(tree).sql(dialect=d or None))
            known = [c for c in dict.fromkeys(known) if stc == "ok" and c not in clean]
        ctx.known = known
        res["trees"] += 1
        layouts = set()
        for o in combos(kind):
            st, v = evaluate(ctx, o, res["count"])
            if st != "ok":
                res["skipped_combos"] += 1
                continue
            res["evals"] += 1
            for clause, (cause, what, out) in v.items():
                opt = matters(ctx, o, clause)
                key = f"c07:{clause}:{opt}:{dname(d)}:{cause}"
                res["viol"].append((key, what, {"sql": sql, "dialect": d, "variant": list(variant) if variant else None, "tree": ti,
                                                "options": kwargs_of(o), "out": out, "base_sql": base_sql}))
        res["nontrivial"] += 1
    res["status"] = res["status"] or "evaluated"
    return res


# ---------------------------------------------------------------------------------------------------
FULL_TREES = [1, 4, 8, 12, 14, 35, 44]  # indices into STATEMENTS for the full product (thorough)
FULL_DIALECTS = ["", "bigquery", "clickhouse", "mysql", "postgres", "snowflake", "tsql"]


def items_for(tier):
    ds = corpus.dialects()
    src = sources(tier)
    items = []
    stats = {}
    n_plain = len(corpus.STATEMENTS) + len(EXTRA_STATEMENTS)
    if tier == "quick":
        # plain statements x all dialects; comment variants: base dialect gets all, every other dialect a rotating sixth
        others = [d for d in ds if d]
        for g, (s, var) in enumerate(src):
            if var is None:
                for d in ds:
                    items.append((s, d, var, "cover"))
            else:
                items.append((s, "", var, "cover"))
                for d in others[g % 6::6]:
                    items.append((s, d, var, "cover"))
    else:
        for s, var in src:
            for d in ds:
                items.append((s, d, var, "cover"))
        for i in FULL_TREES:
            for d in FULL_DIALECTS:
                items.append((corpus.STATEMENTS[i], d, None, "full"))
        for s in EXTRA_STATEMENTS[:4] + EXTRA_STATEMENTS[16:18]:
            for d in FULL_DIALECTS[:3]:
                items.append((s, d, None, "full"))
        for ci in (1, 4):
            items.append((COMMENT_HOSTS[1], "", ("comment-all", ci), "full"))
    stats["plain_statements"] = n_plain
    stats["comment_variants"] = len(src) - n_plain
    stats["dialects"] = len(ds)
    stats["combinations_cover"] = len(combos("cover"))
    stats["combinations_full"] = len(combos("full"))
    stats["tree_dialect_items"] = len(items)
    return items, stats


def run(tier, seed):
    items, stats = items_for(tier)
    combos("cover")
    combos("full") if tier != "quick" else None
    order = list(range(len(items)))
    if seed:
        import random

        random.Random(seed).shuffle(order)
    else:
        order.sort(key=lambda i: (0 if items[i][3] == "full" else 1, (i * 2654435761) & 0xFFFFFFFF))
    work = [items[i] for i in order]
    res = harness.pool_map(check_tree, work, chunksize=1 if tier != "quick" else max(1, len(work) // (harness.WORKERS * 24)))
    status, by_key, counts = {}, {}, {}
    calls = {"Expression.sql": 0, "sqlglot.parse_one": 0}
    evals = trees = skipped_combos = cmt_differs = 0
    for it, r in zip(work, res):
        status[r["status"]] = status.get(r["status"], 0) + 1
        evals += r["evals"]
        trees += r["nontrivial"]
        skipped_combos += r["skipped_combos"]
        cmt_differs += r["count"]["cmt_differs"]
        calls["Expression.sql"] += r["count"]["sql"]
        calls["sqlglot.parse_one"] += r["count"]["parse_one"]
        for key, what, inp in r["viol"]:
            counts[key] = counts.get(key, 0) + 1
            lst = by_key.setdefault(key, [])
            lst.append((len(inp["sql"]) + (1000 if inp["variant"] else 0), len(inp["options"]), inp["sql"], repr(inp["variant"]), what, inp))
            lst.sort(key=lambda x: x[:4])
            del lst[3:]
    violations = []
    for key in sorted(by_key):
        for *_, what, inp in by_key[key]:
            violations.append({"key": key, "what": what, "input": inp, "count": counts[key]})
    return {
        "evaluations": evals,
        "distinct_nontrivial": trees,
        "rule": "distinct (text, dialect, comment variant, statement index) whose tree generated and re-parsed with default options (base "
        "exists), so every option combination of its set was evaluated against it; `evaluations` counts (tree, option combination) pairs",
        "bound": f"tier={tier}: {stats}; trees: STATEMENTS + {len(EXTRA_STATEMENTS)} long/nested/commented statements + {len(COMMENT_HOSTS)} host statements x "
        f"({N_POSITIONS} node positions x {len(COMMENT_TEXTS)} comment texts + all-nodes-commented x {len(COMMENT_TEXTS)}) + {len(ML_HOSTS) + len(COMMENT_HOSTS)} statements x (as is, a line break in every string literal, "
        f"a line break in every column / alias identifier); option combinations: pairwise cover "
        "with pretty=True + full (comments, identify, normalize_functions) product with pretty=False + defaults + 2 extremes; thorough adds the full "
        f"product ({len(combos('full')) if tier != 'quick' else 5760}) on {len(FULL_TREES)} statements x {len(FULL_DIALECTS)} dialects and a few long ones",
        "exhaustive": True,
        "inputs": len(items),
        "input_families": stats,
        "status": status,
        "skipped_combinations": skipped_combos,
        "observations": {"comments_on_combinations_whose_reparsed_comment_multiset_differs_from_the_default_output": cmt_differs},
        "samples": [[it[0][:80], it[1], it[2], it[3]] for it in (items[0], items[len(items) // 3], items[len(items) // 2], items[-1])],
        "violations": violations,
        "violation_counts": dict(sorted(counts.items())),
        "contract_evaluations": calls,
    }


def replay(entry):
    inp = entry["input"]
    d = inp.get("dialect", "")
    variant = tuple(inp["variant"]) if inp.get("variant") else None
    D = Dialect.get_or_raise(d or None)
    st, trees = build_trees(inp["sql"], d, variant)
    if st != "ok":
        return {"violated": False, "observed": f"status {st}", "keys": []}
    tree = trees[inp.get("tree", 0)]
    ctx = _Ctx(D, d, tree)
    stb, base_sql = _call(lambda: tree.sql(dialect=d or None))
    if stb != "ok":
        return {"violated": False, "observed": "default generation failed", "keys": []}
    stb, base = _call(lambda: sqlglot.parse_one(base_sql, read=d or None))
    if stb != "ok":
        return {"violated": False, "observed": "default output does not parse (C01)", "keys": []}
    ctx.base = base
    known = comment_texts(tree)
    if known:
        stc, clean = _call(lambda: _strip_comments(tree).sql(dialect=d or None))
        known = [c for c in dict.fromkeys(known) if stc == "ok" and c not in clean]
    ctx.known = known
    o = dict(DEFAULTS)
    o.update(inp.get("options") or {})
    st, v = evaluate(ctx, o)
    keys = []
    for clause, (cause, what, out) in v.items():
        keys.append(f"c07:{clause}:{matters(ctx, o, clause)}:{dname(d)}:{cause}")
    return {"violated": entry["key"] in keys, "observed": "; ".join(keys) or f"contract holds (status {st})", "keys": keys}


if __name__ == "__main__":
    harness.main(run, replay)
