"""Shared tree-integrity helpers for the bounded checks c08 / c09 / c12.  Runs under /venv/bin/python.

    wf(tree)          -> list of (clause, detail) problems; clause in {parent-link, arg-key, index, shared-node}
    hash_ok(tree)     -> list of (clause, detail) problems; clause == "stale-hash"
    fingerprint(tree) -> hashable deep structural snapshot used to assert "argument untouched"
    canon(tree)       -> independent structural dump implementing the *definition* of equality (see below)

None of these functions mutates the tree it is given and none of them populates a hash cache of the tree it is
given (hash_ok works on a copy), so they can be interleaved with the operations under test without changing the
cache state the property talks about.

Definition of structural equality (read off Expression.__hash__ / __eq__ in sqlglot/expressions/core.py):
  * two nodes are equal iff they have the same class and the same *effective* args;
  * for ordinary nodes an arg whose value is None, False or [] is absent; every other value counts (0 and "" count);
    string values (also strings inside list args) are compared lower-cased, i.e. equality is case-insensitive on the
    string args of ordinary nodes *by design*;
  * for `_hash_raw_args` nodes (Literal, Identifier) every falsy arg is absent and values are compared raw
    (case-sensitive);
  * a None/False element inside a list arg is a position-holding "empty" element;
  * scalar values compare with Python equality (True == 1 == 1.0);
  * comments, types, meta and parent links are not part of equality.
  * a list arg contributes its elements one after the other under the arg key, so a one-element list arg and the
    same value stored as a scalar arg are the same by definition (only an ill-typed tree can tell them apart).
"""
import os
import sys

sys.path.insert(0, os.environ.get("VERIF_REPO", "/repo"))

from sqlglot import expressions as exp
from sqlglot.expressions.core import Expr


# ---------------------------------------------------------------------------------------------------
def children(node):
    """[(key, index_or_None, child)] for every Expr stored directly in node.args (dict order, list order)."""
    out = []
    for k, v in node.args.items():
        if isinstance(v, Expr):
            out.append((k, None, v))
        elif isinstance(v, list):
            for i, x in enumerate(v):
                if isinstance(x, Expr):
                    out.append((k, i, x))
    return out


def nodes(tree):
    """pre-order list of (node, holder, key, index) following args only; a node met twice is listed twice but
    expanded once."""
    out = []
    seen = set()
    stack = [(tree, None, None, None)]
    while stack:
        item = stack.pop()
        out.append(item)
        n = item[0]
        if id(n) in seen:
            continue
        seen.add(id(n))
        for k, i, c in reversed(children(n)):
            stack.append((c, n, k, i))
    return out


def _cls(n):
    return type(n).__name__


def wf(tree, root_detached=False):
    """problems with the parent / arg_key / index bookkeeping of every node reachable from `tree`.

    root_detached=True additionally requires the root itself to have parent/arg_key/index all None."""
    problems = []
    first = {}
    for n, holder, k, i in nodes(tree):
        if holder is None:
            if root_detached and (n.parent is not None or n.arg_key is not None or n.index is not None):
                problems.append(
                    (
                        "parent-link",
                        f"detached root {_cls(n)} keeps parent={_cls(n.parent) if n.parent is not None else None} "
                        f"arg_key={n.arg_key!r} index={n.index!r}",
                        _cls(n),
                    )
                )
            first[id(n)] = ("<root>", None, None)
            continue
        where = (f"{_cls(holder)}.{k}", i, id(holder))
        if id(n) in first:
            problems.append(
                (
                    "shared-node",
                    f"{_cls(n)} object stored at {first[id(n)][0]}[{first[id(n)][1]}] and at {where[0]}[{i}]",
                    f"{_cls(holder)}.{k}",
                )
            )
            continue
        first[id(n)] = where
        if n.parent is not holder:
            p = n.parent
            problems.append(
                (
                    "parent-link",
                    f"{_cls(n)} stored in {_cls(holder)}.{k}[{i}] has parent "
                    f"{(_cls(p) + ('' if p is None else '@other')) if p is not None else None}",
                    f"{_cls(holder)}.{k}",
                )
            )
        if n.arg_key != k:
            problems.append(
                ("arg-key", f"{_cls(n)} stored in {_cls(holder)}.{k}[{i}] has arg_key {n.arg_key!r}", f"{_cls(holder)}.{k}")
            )
        if n.index != i:
            problems.append(
                ("index", f"{_cls(n)} stored in {_cls(holder)}.{k}[{i}] has index {n.index!r}", f"{_cls(holder)}.{k}")
            )
    return problems


# ---------------------------------------------------------------------------------------------------
def hash_ok(tree):
    """problems: nodes whose cached _hash differs from the hash recomputed from scratch.

    Recomputation: deep copy of the tree (Expression.copy()), every _hash of the copy cleared, hash(copy) (which
    fills every node of the copy); original and copy are walked in lock-step."""
    return hash_check(tree)[0]


def hash_check(tree, want_fresh=False):
    """(problems as in hash_ok, hash of the root recomputed from scratch or None).  want_fresh=True forces the
    recomputation even when no node caches a hash."""
    orig = nodes(tree)
    if not want_fresh and all(n._hash is None for n, *_ in orig):
        return [], None
    cp = tree.copy()
    cpn = nodes(cp)
    if len(cpn) < len(orig):
        # a shared node is expanded once in `orig`; the copy duplicates it -> lengths may differ only upwards
        raise AssertionError("treecheck.hash_ok: copy has fewer nodes than the original")
    for n, *_ in cpn:
        n._hash = None
    try:
        hash(cp)
    except TypeError as e:  # unhashable arg value: nothing can be cached either
        return [("unhashable", f"{type(e).__name__}: {e}", _cls(tree))], None
    # lock-step walk by args (robust to shared nodes)
    problems = []
    stack = [(tree, cp)]
    seen = set()
    while stack:
        a, b = stack.pop()
        if id(a) in seen:
            continue
        seen.add(id(a))
        if type(a) is not type(b):
            raise AssertionError("treecheck.hash_ok: copy diverges from the original")
        if a._hash is not None and a._hash != b._hash:
            problems.append(
                (
                    "stale-hash",
                    f"{_cls(a)} (arg {a.arg_key!r} of {_cls(a.parent) if a.parent is not None else None}) "
                    f"caches a hash that differs from the recomputed one",
                    _cls(a),
                )
            )
        ca, cb = children(a), children(b)
        if [(k, i) for k, i, _ in ca] != [(k, i) for k, i, _ in cb]:
            raise AssertionError("treecheck.hash_ok: copy diverges from the original (children)")
        for (_, _, x), (_, _, y) in zip(ca, cb):
            stack.append((x, y))
    return problems, cp._hash


def clear_hashes(tree):
    for n, *_ in nodes(tree):
        n._hash = None
    return tree


# ---------------------------------------------------------------------------------------------------
def _scalar(v):
    if isinstance(v, Expr):
        raise AssertionError("not a scalar")
    if isinstance(v, (list, tuple)):
        return (type(v).__name__, tuple(_scalar(x) if not isinstance(x, Expr) else ("<expr>",) for x in v))
    if isinstance(v, dict):
        return ("dict", tuple((repr(k), _scalar(x) if not isinstance(x, Expr) else ("<expr>",)) for k, x in v.items()))
    return (type(v).__name__, repr(v))


def _type_fp(dt):
    if dt is None:
        return None
    if not isinstance(dt, Expr):
        return ("non-expr-type", repr(dt))
    # root_parent=False: annotate_types may alias a Cast's type with its own `to` child, a copy un-aliases it
    return _struct(dt, ids=False, root_parent=False)


def _struct(tree, ids, root_parent=True):
    listing = nodes(tree)
    pos = {}
    for p, (n, *_rest) in enumerate(listing):
        pos.setdefault(id(n), p)
    recs = []
    for n, holder, k, i in listing:
        args = []
        for ak, av in n.args.items():
            if isinstance(av, Expr):
                args.append((ak, "E"))
            elif isinstance(av, list):
                args.append((ak, "L", tuple("E" if isinstance(x, Expr) else _scalar(x) for x in av)))
            else:
                args.append((ak, "S", _scalar(av)))
        par = n.parent
        if holder is None and not root_parent:
            ppos = "<root>"
        elif par is None:
            ppos = None
        elif id(par) in pos:
            ppos = pos[id(par)]
        else:
            ppos = ("external", _cls(par), id(par) if ids else None)
        rec = (
            _cls(n),
            tuple(args),
            (ppos, n.arg_key, n.index) if (holder is not None or root_parent) else ("<root>", None, None),
            (holder is not None and pos[id(holder)], k, i),
            tuple(n.comments) if n.comments is not None else None,
            _type_fp(n._type),
            repr(n._meta) if n._meta is not None else None,
        )
        if ids:
            rec = rec + (id(n),)
        recs.append(rec)
    return tuple(recs)


def sql_text(tree, dialect=None):
    try:
        return ("sql", tree.sql(dialect=dialect))
    except Exception as e:  # sqlglot failing to generate is data; the *same* failure must be observed later
        return ("raises", type(e).__name__)


def fingerprint(tree, ids=True, sql=True, hashes=False, root_parent=True):
    """deep snapshot: per node in pre-order (class, args with scalar values, (parent position, arg_key, index),
    actual storage position, comments, type structure, meta repr [, id]) plus the generated default-dialect SQL.
    hashes=True additionally records the cached _hash of every node; root_parent=False leaves the root's own
    parent/arg_key/index out (a whole tree handed to a builder is legitimately adopted by the new parent)."""
    fp = (_struct(tree, ids, root_parent),)
    if hashes:
        fp = fp + (tuple(n._hash for n, *_ in nodes(tree)),)
    if sql:
        fp = fp + (sql_text(tree),)
    return fp


def fp_diff(a, b):
    """short description of the first difference between two fingerprints (a: before, b: after)."""
    if a == b:
        return None
    sa, sb = a[0], b[0]
    if len(sa) != len(sb):
        return ("structure", f"node count {len(sa)} -> {len(sb)}", "")
    names = ["class", "args", "parent", "storage", "comments", "type", "meta", "id"]
    for p, (ra, rb) in enumerate(zip(sa, sb)):
        if ra != rb:
            for j, (x, y) in enumerate(zip(ra, rb)):
                if x != y:
                    what = names[j]
                    kind = {"class": "structure", "args": "structure", "storage": "structure", "id": "structure"}.get(what, what)
                    return (kind, f"node #{p} {ra[0]}: {what} {str(x)[:120]} -> {str(y)[:120]}", ra[0])
    for x, y in zip(a[1:], b[1:]):
        if x != y:
            if isinstance(x, tuple) and x and x[0] in ("sql", "raises"):
                return ("sql-text", f"{x} -> {y}", "")
            return ("hash", "cached hash values changed", "")
    return ("structure", "fingerprints differ", "")


# ---------------------------------------------------------------------------------------------------
_ABSENT = ("<absent-elem>",)


def canon(node):
    """independent recursive structural dump implementing the equality definition in the module docstring."""
    if not isinstance(node, Expr):
        raise AssertionError("canon expects an Expr")
    raw = bool(getattr(node, "_hash_raw_args", False))
    items = []
    for k in sorted(node.args):
        v = node.args[k]
        if raw:
            if not v:
                continue
            items.append((k, _canon_val(v, raw=True)))
            continue
        if v is None or v is False:
            continue
        if type(v) is list:
            if not v:
                continue
            # the hash folds list elements one by one under the arg key: [x] and x are the same by definition
            for x in v:
                items.append((k, _ABSENT) if (x is None or x is False) else (k, _canon_val(x, raw=False)))
        else:
            items.append((k, _canon_val(v, raw=False)))
    return (type(node).__name__, tuple(items))


def _canon_val(v, raw):
    if isinstance(v, Expr):
        return canon(v)
    if type(v) is str and not raw:
        return v.lower()
    if type(v) is list:  # only reachable for raw nodes / nested lists: unhashable in sqlglot anyway
        return ("<list>", tuple(_canon_val(x, raw) for x in v))
    return v
