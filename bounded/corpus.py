"""Deterministic input corpus shared by the bounded (tier B) checks.  Runs under /venv/bin/python.

Everything here is a pure function of its arguments (no randomness that is not derived from a constant):
the explored space of a tier is reproducible, which the known-findings discipline requires.
"""
import itertools
import random
import sys

sys.path.insert(0, __import__("os").environ.get("VERIF_REPO", "/repo"))

import sqlglot
from sqlglot.dialects.dialect import Dialect

# ---------------------------------------------------------------------------------------------------
# core-grammar statements (base-dialect syntax; most parse in every dialect)
STATEMENTS = [
    "SELECT 1",
    "SELECT a, b + 1 AS c FROM t WHERE a > 1 AND b IS NOT NULL",
    "SELECT DISTINCT a FROM t ORDER BY a DESC NULLS FIRST LIMIT 10 OFFSET 2",
    "SELECT a, COUNT(*) AS n FROM t GROUP BY a HAVING COUNT(*) > 1 ORDER BY n",
    "SELECT t.a, u.b FROM t JOIN u ON t.id = u.id LEFT JOIN v ON u.id = v.id WHERE v.x IS NULL",
    "SELECT * FROM t CROSS JOIN u",
    "SELECT a FROM t FULL OUTER JOIN u USING (id)",
    "SELECT a FROM (SELECT a FROM t WHERE a < 5) AS s WHERE a > 1",
    "WITH c AS (SELECT a FROM t), d AS (SELECT a FROM c) SELECT * FROM d JOIN c ON d.a = c.a",
    "SELECT a FROM t UNION ALL SELECT a FROM u",
    "SELECT a FROM t UNION SELECT a FROM u INTERSECT SELECT a FROM v",
    "SELECT a FROM t EXCEPT SELECT a FROM u ORDER BY a",
    "SELECT a, SUM(b) OVER (PARTITION BY c ORDER BY d ROWS BETWEEN 1 PRECEDING AND CURRENT ROW) FROM t",
    "SELECT ROW_NUMBER() OVER (ORDER BY a) AS rn FROM t",
    "SELECT CASE WHEN a = 1 THEN 'x' WHEN a = 2 THEN 'y' ELSE 'z' END FROM t",
    "SELECT CASE a WHEN 1 THEN 2 END, COALESCE(a, b, 0), NULLIF(a, 0) FROM t",
    "SELECT CAST(a AS INT), CAST(b AS VARCHAR(10)), CAST(c AS DECIMAL(10, 2)) FROM t",
    "SELECT a FROM t WHERE a IN (1, 2, 3) OR b NOT IN (SELECT b FROM u)",
    "SELECT a FROM t WHERE EXISTS (SELECT 1 FROM u WHERE u.a = t.a)",
    "SELECT a FROM t WHERE a BETWEEN 1 AND 10 AND b LIKE 'x%' AND NOT c",
    "SELECT a FROM t WHERE (a = 1 OR b = 2) AND (c = 3 OR NOT d = 4)",
    "SELECT (SELECT MAX(b) FROM u WHERE u.a = t.a) AS m FROM t",
    "SELECT -a, +b, NOT c, a - -b, a - (b - c), a / (b * c), (a + b) * c, a % 2 FROM t",
    "SELECT a || b, a | b, a & b, a ^ b, ~a, a << 2, a >> 1 FROM t",
    "SELECT a < b, a <= b, a <> b, a != b, a >= b, a IS NULL, a IS NOT NULL, a IS TRUE FROM t",
    "SELECT 'it''s', 'a\\b', '', 'multi word', N'nat', 1.5, 1e10, .5, 0x1F, TRUE, FALSE, NULL",
    "SELECT \"Quoted Col\", t.\"x y\" FROM \"My Table\" AS t",
    "SELECT a AS \"select\", b AS \"from\" FROM t",
    "SELECT DATE '2020-01-01', TIMESTAMP '2020-01-01 00:00:00', INTERVAL '1' DAY",
    "SELECT EXTRACT(YEAR FROM d), DATE_TRUNC('month', d), CURRENT_DATE, CURRENT_TIMESTAMP FROM t",
    "SELECT TIME_TO_STR(d, '%Y-%m-%d %H:%M:%S'), STR_TO_TIME(s, '%d/%m/%Y') FROM t",
    "SELECT SUBSTRING(s, 1, 3), UPPER(s), LOWER(s), TRIM(s), LENGTH(s), CONCAT(a, b), REPLACE(s, 'a', 'b') FROM t",
    "SELECT ABS(a), ROUND(a, 2), FLOOR(a), CEIL(a), POWER(a, 2), SQRT(a), MOD(a, 3) FROM t",
    "SELECT COUNT(DISTINCT a), SUM(a), AVG(a), MIN(a), MAX(a) FROM t",
    "SELECT a FROM t ORDER BY a ASC, b DESC NULLS LAST",
    "SELECT a /* c1 */, b -- c2\nFROM t /* c3 */ WHERE a = 1",
    "SELECT * FROM t AS x (a, b)",
    "SELECT x.* FROM t AS x",
    "SELECT a FROM t WHERE a = ? AND b = :name",
    "SELECT a[1], m['k'], s.f FROM t",
    "SELECT ARRAY[1, 2, 3]",
    "SELECT a FROM t TABLESAMPLE (10 PERCENT)",
    "SELECT a FROM t LIMIT 5",
    "SELECT IF(a > 1, 'x', 'y'), a IS DISTINCT FROM b FROM t",
    "SELECT a FROM t1, t2 WHERE t1.x = t2.x",
    "SELECT a FROM db.sch.t",
    "SELECT f(a, b), g() FROM t",
    "SELECT a FROM t WHERE a > ALL (SELECT b FROM u) OR a = ANY (SELECT c FROM v)",
    "SELECT a FROM t QUALIFY ROW_NUMBER() OVER (PARTITION BY a ORDER BY b) = 1",
    "SELECT a FROM t GROUP BY ROLLUP (a), CUBE (b)",
    "SELECT a FROM t WINDOW w AS (PARTITION BY b)",
    "SELECT LAG(a, 1, 0) OVER (ORDER BY b), FIRST_VALUE(a) IGNORE NULLS OVER (ORDER BY b) FROM t",
    "INSERT INTO t (a, b) VALUES (1, 'x'), (2, 'y')",
    "INSERT INTO t SELECT a, b FROM u",
    "UPDATE t SET a = 1, b = b + 1 WHERE c = 2",
    "DELETE FROM t WHERE a = 1",
    "CREATE TABLE t (a INT NOT NULL, b VARCHAR(10) DEFAULT 'x', c DECIMAL(10, 2), PRIMARY KEY (a))",
    "CREATE TABLE IF NOT EXISTS t AS SELECT a FROM u",
    "CREATE VIEW v AS SELECT a FROM t",
    "CREATE INDEX i ON t (a, b)",
    "DROP TABLE IF EXISTS t",
    "ALTER TABLE t ADD COLUMN c INT",
    "ALTER TABLE t DROP COLUMN c",
    "ALTER TABLE t RENAME TO u",
    "MERGE INTO t USING s ON t.id = s.id WHEN MATCHED THEN UPDATE SET a = s.a WHEN NOT MATCHED THEN INSERT (id, a) VALUES (s.id, s.a)",
    "SELECT 1; SELECT 2",
    "BEGIN; COMMIT",
    "TRUNCATE TABLE t",
    "SELECT a FROM t FOR UPDATE",
    "SELECT a FROM t WHERE b LIKE '%x%' ESCAPE '!'",
    "SELECT a FROM UNNEST(x) AS t(a)",
    "SELECT a FROM t LEFT JOIN LATERAL (SELECT b FROM u WHERE u.a = t.a) AS l ON TRUE",
    "SELECT a FROM t PIVOT (SUM(b) FOR c IN ('x', 'y'))",
    "VALUES (1, 2), (3, 4)",
    "SELECT a FROM t WHERE a = 1 ORDER BY 1 LIMIT 1",
    "EXPLAIN SELECT 1",
    "SET x = 1",
    "USE db",
    "GRANT SELECT ON t TO u",
    "COMMENT ON TABLE t IS 'x'",
]

SHORT = STATEMENTS[:16]


def dialects():
    """all registered dialect names, base dialect as ''."""
    import sqlglot.dialects as D

    names = sorted(n for n in getattr(D, "DIALECTS", []) if n != "Dialect")
    out = [""]
    for n in names:
        out.append(n.lower())
    return out


def dialect_names():
    return [d for d in dialects()]


# ---------------------------------------------------------------------------------------------------
# expression enumerator (precedence ladder x binary / unary operators)
BINOPS = ["+", "-", "*", "/", "%", "||", "AND", "OR", "=", "<>", "<", ">=", "IS", "LIKE", "&", "|", "^", "<<"]
UNOPS = ["-", "NOT ", "~"]
ATOMS = ["a", "1", "'s'", "NULL", "TRUE", "f(b)"]


def expr_strings(depth, binops=BINOPS, unops=UNOPS, atoms=ATOMS, limit=None):
    """all fully-parenthesised-or-not expression strings up to depth (deterministic order)."""
    level = list(atoms)
    all_ = list(level)
    for _ in range(depth):
        nxt = []
        for op in unops:
            for x in level:
                nxt.append(f"{op}{x}")
                nxt.append(f"{op}({x})")
        for op in binops:
            for x, y in itertools.product(level[:8], all_[:8]):
                nxt.append(f"{x} {op} {y}")
                nxt.append(f"({x} {op} {y})")
                nxt.append(f"{x} {op} ({y})")
        level = nxt
        all_ += nxt
        if limit and len(all_) > limit:
            break
    return all_[:limit] if limit else all_


def expr_statements(depth=2, limit=4000):
    rnd = random.Random(12345)
    exprs = expr_strings(depth)
    if len(exprs) > limit:
        exprs = exprs[:200] + rnd.sample(exprs[200:], limit - 200)
    return [f"SELECT {e} FROM t" for e in exprs]


# ---------------------------------------------------------------------------------------------------
# token-level mutations
def tokens_of(sql, dialect=""):
    d = Dialect.get_or_raise(dialect or None)
    return d.tokenize(sql)


def mutations(sql, dialect="", kinds=("delete", "dup", "swap", "trunc", "insert")):
    """deterministic one-token mutations of sql, produced on the token texts with their original gaps."""
    try:
        toks = tokens_of(sql, dialect)
    except Exception:
        return []
    spans = [(t.start, t.end + 1) for t in toks]
    pieces = [sql[a:b] for a, b in spans]
    out = []
    n = len(pieces)

    def join(ps):
        return " ".join(ps)

    if "delete" in kinds:
        for i in range(n):
            out.append(join(pieces[:i] + pieces[i + 1 :]))
    if "dup" in kinds:
        for i in range(n):
            out.append(join(pieces[: i + 1] + pieces[i:]))
    if "swap" in kinds:
        for i in range(n - 1):
            p = list(pieces)
            p[i], p[i + 1] = p[i + 1], p[i]
            out.append(join(p))
    if "trunc" in kinds:
        for i in range(1, n):
            out.append(join(pieces[:i]))
    if "insert" in kinds:
        for i in range(n + 1):
            for ins in ("(", ")", ",", "NOT", "SELECT", "'", "AS", "."):
                out.append(join(pieces[:i] + [ins] + pieces[i:]))
    seen, res = set(), []
    for m in out:
        if m not in seen and m != sql:
            seen.add(m)
            res.append(m)
    return res


def shard(items, k, n):
    return items[k::n]
