"""C12 (bounded): serde.dump/load, JSON, pickle and copy() round-trips preserve trees, types, comments and meta.

Property: for every syntax tree, including type-annotated trees and trees carrying comments and metadata,
load(dump(tree)) is equal to the tree, generates the same SQL in every dialect and carries the same types, comments
and metadata; the same holds when the dump travels through JSON text, when the tree is pickled and unpickled, and
for copy().  The dump of a tree is always JSON-serialisable.

Contract, for each channel ch in {serde, json, pickle, copy} and r = ch(t):
    r == t                                                   else  not-equal
    snapshot(r) == snapshot(t)                               else  type-lost / comments-lost / meta-lost / args-differ
        snapshot: per node (class, args without None / [] values, exact scalar values, public .type structure,
        comments ([] ~ None), meta ({} ~ None)); None-valued and empty-list args are "absent" (dump drops them)
    r.sql(d) == t.sql(d) for d in DIALECTS8 (all dialects in thorough); generation errors must be the same error
        -- evaluated whenever the *strict* snapshots differ (None / [] args present vs absent, comments [] vs None,
        meta {} vs None; attached type trees compared laxly) and on a fixed subset unconditionally (every corpus
        statement read in the base dialect, all five variants); the generator is a deterministic function of the
        strict snapshot
    wf(r) == []                                              else  malformed
    json.dumps(dump(t)) succeeds                             else  not-json
    every payload entry's parent index "i" points to an earlier entry that is a node    else  bad-parent-index
Value kinds that no parser path produces (tuple, nested list, int, float: see `survey`) are exercised too, but
their outcomes are reported under "non_parser_value_kinds", not as violations.
"""
import json
import re
import logging
import os
import pickle
import sys

if __package__ in (None, ""):
    sys.path.insert(0, os.path.dirname(os.path.dirname(os.path.abspath(__file__))))
from bounded import harness  # noqa: E402
from bounded import corpus  # noqa: E402
from bounded.treecheck import wf, nodes, _scalar, _struct  # noqa: E402

import sqlglot  # noqa: E402
from sqlglot import exp, parse_one  # noqa: E402
from sqlglot import serde  # noqa: E402
from sqlglot.errors import SqlglotError  # noqa: E402
from sqlglot.expressions.core import Expr, Expression  # noqa: E402
from sqlglot.optimizer.annotate_types import annotate_types  # noqa: E402
from sqlglot.optimizer.qualify import qualify  # noqa: E402

logging.getLogger("sqlglot").setLevel(logging.CRITICAL)

DIALECTS8 = ["", "bigquery", "duckdb", "mysql", "postgres", "snowflake", "spark", "tsql"]
SCHEMA = {
    name: {c: "INT" for c in ("a", "b", "c", "d", "x", "id", "n")} | {"s": "VARCHAR", "d": "DATE"}
    for name in ("t", "u", "v", "s", "t1", "t2")
}
CHANNELS = ["serde", "json", "pickle", "copy"]


class HarnessError(Exception):
    pass


# ---------------------------------------------------------------------------------------------------
def snapshot(tree):
    """strict per-node records (one pass); lax(records) applies the normalisation of the contract."""
    recs = []
    listing = nodes(tree)
    pos = {}
    for p, (n, *_r) in enumerate(listing):
        pos.setdefault(id(n), p)
    for n, holder, k, i in listing:
        args = []
        for ak, av in n.args.items():
            if isinstance(av, Expr):
                args.append((ak, "E"))
            elif type(av) is list:
                args.append((ak, "L", tuple("E" if isinstance(x, Expr) else _scalar(x) for x in av)))
            else:
                args.append((ak, "S", _scalar(av)))
        try:
            ty = n.type  # the public property (for a cast: its target type when not annotated)
        except Exception as e:  # e.g. a Cast without its required `to`
            ty = ("type-raises", type(e).__name__)
        if ty is n:
            ty = None
        if ty is not None and not isinstance(ty, tuple):
            # the type is itself a tree that travels through dump/load: same (strict) records, recursively
            ty = ("T", snapshot(ty)) if isinstance(ty, Expr) else ("non-expr", repr(ty))
        comments = tuple(n.comments) if n.comments is not None else None
        recs.append((type(n).__name__, tuple(args), ty, comments, repr(n._meta) if n._meta is not None else None, (holder is not None and pos[id(holder)], k, i)))
    return tuple(recs)


def lax(recs):
    out = []
    for cls, args, ty, comments, meta, where in recs:
        args = tuple(a for a in args if not (a[1] == "S" and a[2] == ("NoneType", "None")) and not (a[1] == "L" and not a[2]))
        if isinstance(ty, tuple) and ty and ty[0] == "T":
            ty = ("T", lax(ty[1]))
        out.append((cls, args, ty, comments or None, None if meta in (None, "{}") else meta, where))
    return tuple(out)


def semi(recs):
    """strict records, except that the attached *type* trees are compared laxly (None-valued args inside a
    DataType are dropped by dump; generators consult types only through the DataType API)."""
    return tuple((c, a, ("T", lax(ty[1])) if isinstance(ty, tuple) and ty and ty[0] == "T" else ty, co, m, w) for c, a, ty, co, m, w in recs)


def snap_diff(a, b):
    """first difference between two snapshots -> (what, site)"""
    if len(a) != len(b):
        return ("args-differ", "node-count")
    for ra, rb in zip(a, b):
        if ra == rb:
            continue
        if ra[0] != rb[0] or ra[1] != rb[1] or ra[5] != rb[5]:
            return ("args-differ", ra[0])
        if ra[2] != rb[2]:
            return ("type-lost", ra[0])
        if ra[3] != rb[3]:
            return ("comments-lost", ra[0])
        return ("meta-lost", ra[0])
    return None


def _sql_site(t, r, dialect):
    """class of the innermost node (last in breadth-first order) whose generated text differs between the two trees, which
    have the same shape up to dropped None / [] args; None when the shapes differ"""
    a, b = list(t.bfs()), list(r.bfs())
    if len(a) != len(b):
        return None
    for x, y in zip(reversed(a), reversed(b)):
        if type(x) is not type(y):
            return None
        try:
            if x.sql(dialect=dialect or None) != y.sql(dialect=dialect or None):
                return type(x).__name__
        except Exception:
            return type(x).__name__
    return None


def sql_all(tree, dialects):
    out = []
    for d in dialects:
        try:
            out.append(tree.sql(dialect=d or None))
        except Exception as e:
            out.append(("raises", type(e).__name__))
    return out


def check_payload(payloads):
    """parent index of every entry precedes it and designates a node entry"""
    bad = []
    for j, p in enumerate(payloads):
        if j == 0:
            if serde.INDEX in p:
                bad.append("root entry has a parent index")
            continue
        i = p.get(serde.INDEX)
        if not isinstance(i, int) or not (0 <= i < j):
            bad.append(f"entry {j} has parent index {i!r}")
        elif serde.CLASS not in payloads[i] or payloads[i].get(serde.CLASS) == serde.DATA_TYPE:
            bad.append(f"entry {j} has a non-node parent entry {i}")
        if serde.ARG_KEY not in p:
            bad.append(f"entry {j} has no arg key")
        if serde.TYPE in p:
            bad.extend(check_payload(p[serde.TYPE]))
    return bad


def roundtrips(t):
    """channel -> ('ok', tree) | ('exc', exception) | ('not-json', exception)"""
    out = {}
    payload = None
    try:
        payload = serde.dump(t)
        out["dump"] = ("ok", payload)
    except Exception as e:
        out["dump"] = ("exc", e)
    if payload is not None:
        try:
            out["serde"] = ("ok", serde.load(payload))
        except Exception as e:
            out["serde"] = ("exc", e)
        try:
            text = json.dumps(payload)
        except (TypeError, ValueError) as e:
            out["json"] = ("not-json", e)
        else:
            try:
                out["json"] = ("ok", serde.load(json.loads(text)))
            except Exception as e:
                out["json"] = ("exc", e)
    try:
        out["pickle"] = ("ok", pickle.loads(pickle.dumps(t)))
    except Exception as e:
        out["pickle"] = ("exc", e)
    try:
        out["copy"] = ("ok", t.copy())
    except Exception as e:
        out["copy"] = ("exc", e)
    return out


def evaluate(t, site_of, dialects, always_sql, inp, st, informational=False, info_prefix=""):
    """evaluate the contract for tree t on all channels; violations appended to st['viol'] (or st['info'])."""
    sink = st["info"] if informational else st["viol"]

    def add(channel, what, site, detail):
        key = f"{info_prefix}c12:{channel}:{what}:{site}"
        if informational:
            sink[key] = sink.get(key, 0) + 1
        else:
            sink.append({"key": key, "what": detail, "input": inp})

    rts = roundtrips(t)
    st["evals"] += 1
    kind, payload = rts["dump"]
    if kind == "exc":
        add("serde", f"exception:{type(payload).__name__}", site_of(None), f"dump raised {payload!r}")
    else:
        for b in check_payload(payload)[:1]:
            add("serde", "bad-parent-index", site_of(None), b)
    strict_t = snapshot(t)
    lax_t = lax(strict_t)
    semi_t = semi(strict_t)
    sql_t = None
    for ch in CHANNELS:
        if ch not in rts:
            continue
        st["calls"][ch] = st["calls"].get(ch, 0) + 1
        kind, r = rts[ch]
        if kind == "not-json":
            m = re.search(r"Object of type (\w+) is not JSON", str(r))
            add(ch, "not-json" + (f"-{m.group(1)}" if m else ""), site_of(None), f"json.dumps(dump(t)) raised {r!r}")
            continue
        if kind == "exc":
            add(ch, f"exception:{type(r).__name__}", site_of(None), f"{ch} round-trip raised {r!r}")
            continue
        if not isinstance(r, Expr):
            add(ch, "not-equal", site_of(None), f"round-trip returned {type(r).__name__}")
            continue
        try:
            eq = r == t
        except TypeError:
            eq = None  # unhashable arg value: equality undefined for t itself
        if eq is False:
            add(ch, "not-equal", site_of(None), "round-tripped tree != original")
        strict_r = snapshot(r)
        d = snap_diff(lax_t, lax(strict_r))
        if d and not (d[0] == "args-differ" and eq is False):
            add(ch, d[0], site_of(d[1]), f"{d[0]} at node class {d[1]}")
        problems = wf(r, root_detached=True)
        if problems:
            add(ch, f"malformed-{problems[0][0]}", site_of(problems[0][2]), problems[0][1])
        if always_sql or semi(strict_r) != semi_t:
            if sql_t is None:
                sql_t = sql_all(t, dialects)
            sql_r = sql_all(r, dialects)
            if sql_r != sql_t:
                j = [x != y for x, y in zip(sql_t, sql_r)].index(True)
                sd = _sql_site(t, r, dialects[j])  # the innermost node whose own text differs
                add(ch, "sql-differs", site_of(sd), f"dialect {dialects[j] or 'base'}: {str(sql_t[j])[:80]!r} -> {str(sql_r[j])[:80]!r}")


# ---------------------------------------------------------------------------------------------------
# (1) every Expr subclass x every declared arg x value kinds
def _lit():
    return exp.Literal.number(1)


VALUE_KINDS = {
    "none": lambda: None,
    "literal": lambda: exp.Literal.string("s"),
    "identifier": lambda: exp.to_identifier("Id", quoted=True),
    "column": lambda: exp.column("c", table="t"),
    "datatype-node": lambda: exp.DataType.build("DECIMAL(10, 2)"),
    "list-of-2-literals": lambda: [_lit(), exp.Literal.string("x")],
    "list-with-none": lambda: [_lit(), None],
    "list-of-str": lambda: ["ON DELETE NO ACTION", "x"],
    "empty-list": lambda: [],
    "false": lambda: False,
    "true": lambda: True,
    "empty-string": lambda: "",
    "string": lambda: "Str",
    "dtype-enum": lambda: exp.DataType.Type.INT,
}
# kinds that no parser path produces (survey below): exercised, reported separately
NON_PARSER_KINDS = {
    "int-0": lambda: 0,
    "int": lambda: 5,
    "float": lambda: 1.5,
    "tuple-of-literals": lambda: (_lit(), _lit()),
    "tuple-of-str": lambda: ("a", "b"),
    "nested-list": lambda: [[_lit()]],
}


def expr_classes():
    out = []
    for name in sorted(dir(exp)):
        c = getattr(exp, name)
        # concrete node classes only: the Expr traits (Func, Condition, Query, ...) raise NotImplementedError
        if isinstance(c, type) and issubclass(c, Expression) and isinstance(getattr(c, "arg_types", None), dict):
            out.append(name)
    return out


def _decorate_instance(t):
    t.comments = ["cm"]
    t.meta["mk"] = {"a": [1, "x"], "b": True}
    if not getattr(t, "is_data_type", False):
        t.type = exp.DataType(this=exp.DataType.Type.ARRAY, expressions=[exp.DataType(this=exp.DataType.Type.INT)], nested=True)
    for n, holder, *_r in nodes(t):
        if holder is not None:
            n.comments = ["child"]
            n.meta["pos"] = 3


def work_class(name):
    st = {"evals": 0, "viol": [], "info": {}, "skips": {}, "calls": {}, "nontrivial": 0}
    cls = getattr(exp, name)

    def skip(what):
        st["skips"][what] = st["skips"].get(what, 0) + 1

    try:
        cls()
    except Exception as e:
        skip(f"not-instantiable:{type(e).__name__}")
        return finish(st)
    required = [k for k, v in cls.arg_types.items() if v]

    def filler(skip_key=None):
        return {k: exp.Literal.string("r") for k in required if k != skip_key}

    # (value kind, kwargs, decorate?, non-parser kind?)
    variants = [
        ("all-required", filler(), False, False),
        ("all-required", filler(), True, False),
        ("all-args-identifiers", {k: exp.to_identifier(f"i{j}") for j, k in enumerate(cls.arg_types)}, False, False),
        ("all-args-identifiers", {k: exp.to_identifier(f"i{j}") for j, k in enumerate(cls.arg_types)}, True, False),
        ("empty", {}, False, False),
    ]
    for k in cls.arg_types:
        for kind, mk in VALUE_KINDS.items():
            variants.append((kind, dict(filler(k), **{k: mk()}), True, False))
        for kind, mk in NON_PARSER_KINDS.items():
            variants.append((kind, dict(filler(k), **{k: mk()}), True, True))
    for kind, kwargs, decorate, non_parser in variants:
        try:
            t = cls(**kwargs)
        except Exception as e:
            skip(f"ctor:{type(e).__name__}")
            continue
        if decorate:
            try:
                _decorate_instance(t)
            except Exception as e:
                skip(f"decorate:{type(e).__name__}")
                continue
        # a root that fails its own required-argument validation is not a syntax tree: informational only
        try:
            invalid = bool(t.error_messages())
        except Exception:
            invalid = True
        if invalid:
            st["invalid"] = st.get("invalid", 0) + 1
        inp = {"kind": "class", "class": name, "value": kind, "args": sorted(kwargs), "decorate": decorate}
        absent_like = kind in ("none", "empty-list")
        prefix = "invalid-tree:" if invalid and not non_parser else ("none-vs-absent:" if absent_like and not non_parser else "")
        evaluate(t, (lambda cls_name, kind=kind: kind), DIALECTS8[:3], False, inp, st, informational=non_parser or invalid or absent_like, info_prefix=prefix)
        st["nontrivial"] += 1
    return finish(st)


def finish(st):
    seen, counts = {}, {}
    for x in st["viol"]:
        counts[x["key"]] = counts.get(x["key"], 0) + 1
        old = seen.get(x["key"])
        if old is None or len(repr(x["input"])) < len(repr(old["input"])):
            seen[x["key"]] = x
    st["viol"] = list(seen.values())
    st["viol_counts"] = counts
    return st


# ---------------------------------------------------------------------------------------------------
# (2) corpus trees, plain / annotated / qualified, decorated with comments and meta
def _decorate_tree(tree):
    for p, (n, *_r) in enumerate(nodes(tree)):
        if p % 3 == 0:
            n.add_comments([f"c{p}", "second"])
        if p % 4 == 1:
            n.meta["k"] = {"inner": [p, "x"], "flag": True}
        if p % 5 == 2:
            n.meta["replace"] = False
    return tree


def _decorate_markers(tree):
    """comments that LOOK like `sqlglot.meta` directives on nodes whose meta says something else: a marker comment that
    was assigned without being interpreted (what the parser does when it moves comments), and one whose flag was edited
    afterwards.  A round trip must carry comments and meta as they are, not re-derive one from the other."""
    for p, (n, *_r) in enumerate(nodes(tree)):
        if p % 3 == 0:
            n.comments = [" sqlglot.meta case_sensitive "]
        elif p % 3 == 1:
            n.add_comments([" sqlglot.meta replace=false, k=v "])
            n.meta["replace"] = True
            n.meta.pop("k", None)
    return tree


def survey(tree, acc):
    for n, *_r in nodes(tree):
        for k, v in n.args.items():
            if isinstance(v, Expr) or v is None:
                continue
            if type(v) is list:
                for x in v:
                    if not isinstance(x, Expr):
                        acc[f"list-elem:{type(x).__name__}"] = acc.get(f"list-elem:{type(x).__name__}", 0) + 1
            else:
                acc[f"scalar:{type(v).__name__}"] = acc.get(f"scalar:{type(v).__name__}", 0) + 1


def work_corpus(item):
    sql, read, dialects, always_sql = item
    st = {"evals": 0, "viol": [], "info": {}, "skips": {}, "calls": {}, "nontrivial": 0, "survey": {}}

    def skip(what):
        st["skips"][what] = st["skips"].get(what, 0) + 1

    try:
        trees = [t for t in sqlglot.parse(sql, read=read or None) if t is not None]
    except SqlglotError:
        skip("parse")
        return finish(st)
    for tree in trees:
        variants = [("parsed", lambda: tree.copy())]
        variants.append(("decorated", lambda: _decorate_tree(tree.copy())))
        variants.append(("marker-comments", lambda: _decorate_markers(tree.copy())))
        variants.append(("annotated", lambda: annotate_types(_decorate_tree(tree.copy()), dialect=read or None)))
        variants.append(("qualified", lambda: qualify(tree.copy(), schema=SCHEMA, dialect=read or None)))
        variants.append(
            ("qualified+annotated", lambda: annotate_types(_decorate_tree(qualify(tree.copy(), schema=SCHEMA, dialect=read or None)), schema=SCHEMA, dialect=read or None))
        )
        for vname, mk in variants:
            try:
                t = mk()
            except SqlglotError as e:
                skip(f"{vname}:{type(e).__name__}")
                continue
            except Exception as e:
                skip(f"{vname}:{type(e).__name__}")
                continue
            survey(t, st["survey"])
            inp = {"kind": "corpus", "sql": sql, "read": read, "variant": vname}
            evaluate(t, (lambda cls_name: cls_name or "tree"), dialects, always_sql, inp, st)
            st["nontrivial"] += 1
    return finish(st)


# ---------------------------------------------------------------------------------------------------
def _work(item):
    if item[0] == "class":
        return work_class(item[1])
    return work_corpus(item[1:])


# `sqlglot.meta` marker comments in the positions from which the parser moves comments to another node
MARKER_STATEMENTS = [
    "/* sqlglot.meta case_sensitive */ SELECT Foo FROM Bar",
    "SELECT Foo /* sqlglot.meta case_sensitive */ AS B, Baz /* sqlglot.meta replace=false */ FROM Bar /* sqlglot.meta case_sensitive */",
    "SELECT a FROM t /* sqlglot.meta x=1 */ JOIN u /* sqlglot.meta y */ ON t.a = u.a WHERE /* sqlglot.meta z */ a > 1",
]


# dialect-specific constructs whose trees hold something other than nodes, strings, numbers and flags
DIALECT_STATEMENTS = [
    ("SELECT json.a.b[].c", "clickhouse"),
    ("SELECT json.a.b[][]", "clickhouse"),
    ("CREATE TABLE test_table (c1 INT, c2 DATE) PARTITION BY RANGE (`c2`) (PARTITION `p201701` VALUES [('2017-01-01'), ('2017-02-01')), PARTITION `other` VALUES LESS THAN (MAXVALUE))", "doris"),
    ("SELECT IDENTIFIER('speed_of_light')()", "snowflake"),
    ("SELECT IDENTIFIER($my_function_name)()", "snowflake"),
    ("ANALYZE tbl", "sqlite"),
    ("SELECT CAST(x AS my_schema.mood), CAST(y AS mood) FROM t", "postgres"),
    ("CREATE TABLE person (name TEXT, current_mood mood)", "postgres"),
    ("SELECT CAST(somelist AS data_list) FROM t", "oracle"),
    ("SELECT CAST(x AS Nullable(String)), CAST(y AS LowCardinality(Nullable(String))) FROM t", "clickhouse"),
    ("SELECT CAST(1 AS mz_timestamp)", "materialize"),
    # parser-built nodes that carry an explicit key=None, which dump drops although a generator asks `key in args` / args[key]
    ("SELECT STRPOS(a, 'b')", "presto", ("tableau",)),
    ("SELECT REGEXP_REPLACE(a, 'b') FROM t", "exasol", ("bigquery", "spark", "duckdb")),
    ("SELECT REGEXP_REPLACE(a, 'b') FROM t", "duckdb", ("hive",)),
    # a list arg holding None: a body-less procedure
    ("CREATE PROCEDURE test(@v1 INTEGER = 1, @v2 CHAR(1) = 'c')", "tsql"),
    ("CREATE PROCEDURE p AS", "tsql"),
    ("SELECT * FROM UNNEST((SELECT [1, 2] AS a))", "bigquery"),
]


def _plan(tier):
    ds = corpus.dialects()
    items = [("class", n) for n in expr_classes()]
    for sql, read, *more in DIALECT_STATEMENTS:
        items.append(("corpus", sql, read, sorted({"", read, "duckdb", *(more[0] if more else ())}), True))
    for sql in MARKER_STATEMENTS:
        items.append(("corpus", sql, "", DIALECTS8, True))
        items.append(("corpus", sql, "snowflake", DIALECTS8, False))
    if tier == "quick":
        for sql in corpus.STATEMENTS:
            items.append(("corpus", sql, "", DIALECTS8, True))
        for d in DIALECTS8[1:]:
            for sql in corpus.STATEMENTS:
                items.append(("corpus", sql, d, DIALECTS8, False))
    else:
        for d in ds:
            for sql in corpus.STATEMENTS:
                items.append(("corpus", sql, d, ds, True))
        for sql in corpus.expr_statements(depth=2, limit=2000):
            items.append(("corpus", sql, "", DIALECTS8, False))
    return items


def run(tier, seed):
    from sqlglot.dialects.dialect import Dialect

    for _d in corpus.dialects():  # import every dialect module once, before the pool forks
        Dialect.get_or_raise(_d or None)
    plan = _plan(tier)
    order = list(range(len(plan)))
    if seed:
        import random

        random.Random(seed).shuffle(order)
    res = harness.pool_map(_work, [plan[i] for i in order], chunksize=4)
    evals = sum(r["evals"] for r in res)
    nontrivial = sum(r["nontrivial"] for r in res)
    calls, skips, info, viol, counts, surv = {}, {}, {}, {}, {}, {}
    for r in res:
        for src, dst in ((r["calls"], calls), (r["skips"], skips), (r["info"], info), (r["viol_counts"], counts), (r.get("survey", {}), surv)):
            for k, v in src.items():
                dst[k] = dst.get(k, 0) + v
        for x in r["viol"]:
            old = viol.get(x["key"])
            if old is None or len(repr(x["input"])) < len(repr(old["input"])):
                viol[x["key"]] = x
    violations = []
    for k in sorted(viol):
        x = dict(viol[k])
        x["count"] = counts[k]
        violations.append(x)
    ncls = sum(1 for it in plan if it[0] == "class")
    traits = sorted(n for n in dir(exp) if isinstance(getattr(exp, n), type) and issubclass(getattr(exp, n), Expr) and not issubclass(getattr(exp, n), Expression))
    skips["abstract-trait-classes"] = len(traits)
    return {
        "evaluations": evals,
        "distinct_nontrivial": nontrivial,
        "rule": "trees actually built (class could be instantiated with the value / statement parsed and variant produced) and sent through all four channels",
        "bound": f"{ncls} Expr classes x every declared arg x {len(VALUE_KINDS)} parser-producible value kinds (+{len(NON_PARSER_KINDS)} informational kinds) x (bare, decorated with comments/meta/type); "
        f"{len(plan) - ncls} (statement, read dialect) items x 5 variants (parsed, decorated, annotated, qualified, qualified+annotated)",
        "exhaustive": True,
        "skips": skips,
        "arg_value_types_seen_in_corpus_trees": surv,
        "non_parser_value_kinds": info,
        "samples": [plan[0], plan[ncls], plan[-1][:3]],
        "violations": violations,
        "contract_evaluations": calls,
    }


def replay(entry):
    inp = entry["input"]
    if inp["kind"] == "class":
        r = work_class(inp["class"])
    else:
        r = work_corpus((inp["sql"], inp["read"], DIALECTS8, True))
    hit = [x for x in r["viol"] if x["key"] == entry["key"]]
    return {"violated": bool(hit), "observed": hit[0]["what"] if hit else f"keys now: {sorted(r['viol_counts'])}"}


if __name__ == "__main__":
    harness.main(run, replay)
