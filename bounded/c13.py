"""C13 (tier B, bounded): source positions reported by the tokenizer / parser select the lexeme they describe.

Run-time contract evaluated on the REAL `Dialect.get_or_raise(d).tokenize(sql)` and `sqlglot.parse(sql, read=d,
error_level=ErrorLevel.RAISE)` (nothing is re-implemented except the trusted spec `spec/linecol.py` and a small
comment scanner driven by the real tokenizer's COMMENTS table):

 (1) order / overlap / bounds : tokens sorted by start; 0 <= start <= end < len(sql); end_i < start_{i+1}
 (2) gap      : text between consecutive tokens (and before the first / after the last) is whitespace + comments
 (3) lexeme   : sql[start:end+1] is the token's lexeme: == text for raw tokens (up to case / collapsed whitespace
                for keywords, '_' for numbers in dialects that allow it); delimited by one of the dialect's
                delimiters of that token kind for strings / quoted identifiers (and == text when the body contains
                no escape character)
 (4) linecol  : (tok.line, tok.col) == spec.linecol(sql, tok.end)          (convention: see spec/linecol.py)
 (5) errors   : ParseError.errors[i]: start_context+highlight+end_context is a contiguous slice of sql placed on a
                token t with sql[t.start:t.end+1] == highlight, and (line, col) == linecol(sql, t.end);
                TokenError: 0 <= start <= end <= len(sql) and the quoted snippet == sql[start:end]
 (6) nodes    : every parsed node carrying meta start/end (Identifier, Star, Literal, Anonymous/func ...): the span
                is token-aligned, in bounds, its (line, col) == linecol(sql, end); an Identifier's name occurs in
                the text of the tokens inside its span; the parts of a Column / Table are in source order
                (what lies between two parts is dialect business: tsql `t.#tmp` has DOT HASH).

Stated exclusions (both by token kind, never by input):
* zero-width marker tokens (TokenType.HIVE_TOKEN_STREAM, injected by the Athena tokenizer, text "") are not lexemes
  and are dropped before the checks;
* a run of tokens sharing ONE span is admitted (counted in `same_span_runs_admitted`, not reported) iff the texts of
  the run, minus the synthesised '::', concatenate to the lexeme -- the numeric-literal suffix rewrite
  `123L` -> NUMBER 123, DCOLON ::, BIGINT L of TokenizerCore._scan_number.  By the letter of clause (1) these
  overlap; they are the pieces of one lexeme, each pointing at the lexeme it came from.  Any other equal-span run
  is reported under c13:overlap / c13:lexeme with kind SAME_SPAN_RUN.

Violation keys: c13:<clause>:<kind>:<trigger>; <kind> is a coarse token kind (MULTIWORD_KEYWORD, KEYWORD, QUOTED,
COMMAND_REST, SAME_SPAN_RUN, NUMBER, VAR, PUNCT, HINT, OTHER; node class for node-span), <trigger> is derived from
the token at which the discrepancy ORIGINATES (the first token whose (line, col) error differs from its
predecessor's), so that the tokens that merely inherit a wrong line/col from an earlier one do not create new keys.
"""
import itertools
import logging
import signal

from bounded import harness
from bounded.harness import pool_map
from bounded import corpus

from spec.linecol import linecol, linecol_table

import sqlglot
from sqlglot import exp
from sqlglot.dialects.dialect import Dialect
from sqlglot.errors import ErrorLevel, ParseError, TokenError
from sqlglot.tokens import TokenType

logging.getLogger("sqlglot").setLevel(logging.CRITICAL)  # "falling back to Command" warnings are not C13's matter

PROP = "C13"
STRING_TYPES = {
    TokenType.STRING,
    TokenType.NATIONAL_STRING,
    TokenType.BIT_STRING,
    TokenType.HEX_STRING,
    TokenType.BYTE_STRING,
    TokenType.RAW_STRING,
    TokenType.HEREDOC_STRING,
    TokenType.UNICODE_STRING,
}
MARKER_TYPES = {TokenType.HIVE_TOKEN_STREAM}
PARSE_TIMEOUT_S = 10
ERROR_CONTEXT = 100  # Parser.error_message_context default


class _Timeout(BaseException):
    pass


def _alarm(signum, frame):
    raise _Timeout()


# ---------------------------------------------------------------------------------------------------
# per-dialect tables, read from the live TokenizerCore the dialect actually uses
class Tables:
    def __init__(self, tokenizer):
        c = tokenizer._core
        self.quotes = dict(c.quotes)
        self.identifiers = dict(c.identifiers)
        self.formats = {}
        for k, (e, tt) in c.format_strings.items():
            self.formats.setdefault(tt, []).append((k, e))
        # _scan_number -> _scan_hex/_scan_bits accept 0x / 0X / 0b / 0B whenever the dialect has such strings
        if c.has_hex_strings:
            self.formats.setdefault(TokenType.HEX_STRING, []).extend([("0x", ""), ("0X", "")])
        if c.has_bit_strings:
            self.formats.setdefault(TokenType.BIT_STRING, []).extend([("0b", ""), ("0B", "")])
        self.comments = dict(c.comments)
        self.comment_starts = sorted(self.comments, key=lambda s: (-len(s), s))
        self.nested = bool(c.nested_comments)
        esc = set(c.string_escapes) | set(c.byte_string_escapes) | set(c.identifier_escapes)
        self.escape_chars = set("".join(esc)) | {"\\"}
        self.underscore = bool(c.numbers_can_be_underscore_separated)
        self.commands = set(c.commands)
        self.command_prefix = set(c.command_prefix_tokens)
        self.single = dict(c.single_tokens)
        self.keywords = c.keywords
        self.heredoc_tag_is_identifier = bool(c.heredoc_tag_is_identifier)
        self.heredoc_alt = c.heredoc_string_alternative
        self.heredoc_openers = sorted(o for o, _e in self.formats.get(TokenType.HEREDOC_STRING, []))


_DIALECTS = {}
_TABLES = {}


def dialect_obj(d):
    if d not in _DIALECTS:
        _DIALECTS[d] = Dialect.get_or_raise(d or None)
    return _DIALECTS[d]


def tables_for(d, raw_tokens):
    """tables of the tokenizer that produced raw_tokens (Athena delegates to a Hive or a Trino tokenizer)."""
    variant = ""
    tk = None
    probe = _TABLES.get((d, "__tokenizer__"))
    if probe is None:
        probe = dialect_obj(d).tokenizer()
        _TABLES[(d, "__tokenizer__")] = probe
    if hasattr(probe, "_hive_tokenizer") and hasattr(probe, "_trino_tokenizer"):
        if raw_tokens and raw_tokens[0].token_type == TokenType.HIVE_TOKEN_STREAM:
            variant, tk = "hive", probe._hive_tokenizer
        else:
            variant, tk = "trino", probe._trino_tokenizer
    else:
        tk = probe
    key = (d, variant)
    if key not in _TABLES:
        _TABLES[key] = Tables(tk)
    return _TABLES[key]


# ---------------------------------------------------------------------------------------------------
# helpers
def collapse_ws(s):
    out = []
    prev = False
    for ch in s:
        if ch.isspace():
            if not prev:
                out.append(" ")
            prev = True
        else:
            out.append(ch)
            prev = False
    return "".join(out)


def break_kinds(s):
    """which line terminators occur in s: subset of {'cr','crlf','lf'}"""
    out = set()
    n = len(s)
    for k, ch in enumerate(s):
        if ch == "\r":
            out.add("crlf" if k + 1 < n and s[k + 1] == "\n" else "cr")
        elif ch == "\n" and not (k > 0 and s[k - 1] == "\r"):
            out.add("lf")
    return out


def break_class(s):
    b = break_kinds(s)
    for name, label in (("cr", "lone-cr"), ("crlf", "crlf"), ("lf", "lf")):
        if name in b:
            return label
    return None


def skip_comment(sql, p, tb):
    """if a comment (per the tokenizer's COMMENTS table) starts at sql[p], return the index just past it,
    mirroring TokenizerCore._scan_comment; None if no comment starts here or it is not terminated."""
    n = len(sql)
    for s in tb.comment_starts:
        if sql.startswith(s, p):
            e = tb.comments[s]
            if e is None:
                q = p + len(s)
                while q < n and sql[q] != "\n" and sql[q] != "\r":
                    q += 1
                return q
            i = p + len(s)  # index of the tokenizer's _char
            if i >= n:
                return None
            count = 1
            closed = False
            le = len(e)
            while i + 1 < n:
                if sql.startswith(e, i):
                    count -= 1
                    if not count:
                        closed = True
                        break
                i += 1
                if sql[i].isalnum():
                    while i + 1 < n and sql[i + 1].isalnum():
                        i += 1
                if tb.nested and i + 1 < n and i + le <= n and sql[i : i + le] == s:
                    i += len(s)
                    if i >= n:
                        return None
                    count += 1
            if not closed:
                return None
            return i + le
    return None


def gap_residue(sql, a, b, tb):
    """(index, reason) of the first character of sql[a:b] that is neither whitespace nor inside a comment lying
    wholly in the gap; None if the gap is clean.  Also returns comment descriptors for trigger classes."""
    p = a
    comments = []
    while p < b:
        ch = sql[p]
        if ch.isspace():
            p += 1
            continue
        q = skip_comment(sql, p, tb)
        if q is None:
            return (p, "text"), comments
        if q > b:
            return (p, "comment-runs-into-token"), comments
        comments.append(sql[p:q])
        p = q
    return None, comments


class Tok:
    __slots__ = ("t", "type", "text", "start", "end", "line", "col", "kind", "lex", "ok", "run_ok")

    def __init__(self, t):
        self.t = t
        self.type = t.token_type
        self.text = t.text
        self.start = t.start
        self.end = t.end
        self.line = t.line
        self.col = t.col
        self.kind = "OTHER"
        self.lex = None
        self.ok = False
        self.run_ok = False


def classify(toks, sql, tb):
    n = len(sql)
    for i, k in enumerate(toks):
        k.ok = 0 <= k.start <= k.end < n
        k.lex = sql[k.start : k.end + 1] if k.ok else None
    for i, k in enumerate(toks):
        same_prev = i > 0 and (toks[i - 1].start, toks[i - 1].end) == (k.start, k.end)
        same_next = i + 1 < len(toks) and (toks[i + 1].start, toks[i + 1].end) == (k.start, k.end)
        up = k.text.upper()
        if same_prev or same_next:
            k.kind = "SAME_SPAN_RUN"
        elif (
            k.type == TokenType.STRING
            and i >= 1
            and toks[i - 1].type in tb.commands
            and (i == 1 or toks[i - 2].type in tb.command_prefix)
        ):
            k.kind = "COMMAND_REST"
        elif k.type in STRING_TYPES or k.type == TokenType.IDENTIFIER:
            k.kind = "QUOTED"
        elif (
            tb.heredoc_tag_is_identifier
            and k.type == tb.heredoc_alt
            and k.ok
            and any(k.lex.startswith(o) for o in tb.heredoc_openers)
        ):
            # _scan_string saw a heredoc opener, found no well-formed tag and fell back (retreating the cursor)
            k.kind = "HEREDOC_FALLBACK"
        elif k.type == TokenType.HINT:
            k.kind = "HINT"
        elif k.type == TokenType.NUMBER:
            k.kind = "NUMBER"
        elif " " in k.text and up in tb.keywords:
            k.kind = "MULTIWORD_KEYWORD"
        elif k.text in tb.single:
            k.kind = "PUNCT"
        elif k.type == TokenType.VAR:
            k.kind = "VAR"
        elif up in tb.keywords:
            k.kind = "KEYWORD"
        else:
            k.kind = "OTHER"


def admit_same_span_runs(toks, tb):
    """Tokens may share one span only when they are the pieces the tokenizer synthesised out of that single lexeme
    (numeric-literal suffixes: `123L` -> NUMBER 123, DCOLON ::, BIGINT L): the texts of the run, without the
    synthesised '::', must concatenate to the lexeme (up to case and, where the dialect allows it, '_').  Such runs
    are admitted (counted, not reported); any other run of equal spans is an overlap."""
    admitted = 0
    i = 0
    while i < len(toks):
        j = i
        while j + 1 < len(toks) and (toks[j + 1].start, toks[j + 1].end) == (toks[i].start, toks[i].end):
            j += 1
        if j > i and toks[i].ok:
            texts = [k.text for k in toks[i : j + 1] if not (k.type == TokenType.DCOLON and k.text == "::")]
            joined = "".join(texts)
            lex = toks[i].lex
            if len(texts) == j - i and (
                joined.upper() == lex.upper() or (tb.underscore and joined.upper() == lex.replace("_", "").upper())
            ):
                admitted += 1
                for k in toks[i : j + 1]:
                    k.run_ok = True
        i = j + 1
    return admitted


def bounds_trigger(toks, i, sql):
    k = toks[i]
    kindt = "start-after-end" if 0 <= k.end < k.start <= len(sql) else "outside-input"
    if k.kind == "COMMAND_REST":
        kindt = command_rest_trigger(toks, i, sql) + "+" + kindt
    return kindt


def command_rest_trigger(toks, i, sql):
    """for the STRING that swallows the rest of a command: does its start sit on the first character of the rest?"""
    k = toks[i]
    p = toks[i - 1].end + 1
    while p < len(sql) and sql[p].isspace():
        p += 1
    return "start-at-first-rest-char" if k.start == p else "start-not-at-first-rest-char"


def lexeme_problem(k, tb):
    """None if sql[start:end+1] is an admissible lexeme for the token, else a short discrepancy class."""
    lex, text = k.lex, k.text
    if lex == text:
        return None
    quoted = k.type in STRING_TYPES or k.type == TokenType.IDENTIFIER
    if not quoted or k.kind == "COMMAND_REST":
        if collapse_ws(lex).upper() == text:
            return None
        if k.type == TokenType.NUMBER and tb.underscore and lex.replace("_", "") == text:
            return None
        if text and lex.endswith(text):
            return "span-wider-than-text" if len(lex) > len(text) else "mismatch"
        if text.endswith(lex):
            return "span-is-suffix-of-text"
        if text in lex:
            return "span-wider-than-text"
        return "text-differs-from-span"
    if k.type == TokenType.STRING:
        delims = list(tb.quotes.items())
    elif k.type == TokenType.IDENTIFIER:
        delims = list(tb.identifiers.items())
    else:
        delims = list(tb.formats.get(k.type, []))
    if k.type == TokenType.HEREDOC_STRING:
        # open = start + tag + end, close identical
        cands = []
        for s, e in delims:
            if lex.startswith(s):
                j = lex.find(e, len(s))
                if j >= 0:
                    d = lex[: j + len(e)]
                    cands.append((d, d))
        delims = cands
    delimited = False
    for o, c in sorted(delims, key=lambda oc: -(len(oc[0]) + len(oc[1]))):
        if len(lex) >= len(o) + len(c) and lex.startswith(o) and lex.endswith(c):
            delimited = True
            body = lex[len(o) : len(lex) - len(c)]
            special = tb.escape_chars | set(c)
            if any(ch in special for ch in body):
                return None  # escape processing may legitimately change the text; delimiters are right
            if body == text:
                return None
    if delimited:
        if text.endswith(lex):
            return "span-is-suffix-of-text"
        return "decoded-text-differs-from-span-body"
    return "span-not-delimited"


def token_trigger(toks, i, sql, tb, comments_before):
    """coarse, stable description of what is special about token i / what precedes it."""
    k = toks[i]
    if k.kind == "COMMAND_REST":
        return command_rest_trigger(toks, i, sql)
    if k.kind == "SAME_SPAN_RUN":
        return "tokens-sharing-one-span-do-not-partition-it"
    if k.kind == "HEREDOC_FALLBACK":
        return "heredoc-opener-without-well-formed-tag"
    lex = k.lex or ""
    bc = break_class(lex)
    if bc:
        if k.kind == "MULTIWORD_KEYWORD":
            return "linebreak-inside-multiword-keyword"
        for j, ch in enumerate(lex[:-1]):
            if ch == "\\" and lex[j + 1] in "\r\n":
                return "escaped-linebreak-inside-token"
        return f"{bc}-inside-token"
    prev_end = toks[i - 1].end if i > 0 else -1
    gap = sql[prev_end + 1 : k.start] if prev_end + 1 <= k.start else ""
    if comments_before:
        if any(break_class(c) for c in comments_before):
            return "after-multiline-comment"
        return "after-comment"
    if i > 0 and toks[i - 1].lex and break_class(toks[i - 1].lex):
        return f"after-multiline-{toks[i - 1].kind.lower().replace('_', '-')}"
    bc = break_class(gap)
    if bc:
        return f"after-{bc}"
    if "\t" in gap:
        return "after-tab"
    if any(ch != " " for ch in gap):
        return "after-exotic-whitespace"
    if any(ord(ch) > 127 for ch in sql[: k.end + 1]):
        return "after-multibyte"
    return "plain"


# ---------------------------------------------------------------------------------------------------
# the contract for one (dialect, sql)
def check_one(d, sql, do_parse=True):
    """returns dict(viol=[(key, what)], ...counters)"""
    out = {"viol": [], "tok_ok": 0, "ntok": 0, "tokerr": 0, "perr": 0, "nerrdicts": 0, "pok": 0, "nnodes": 0,
           "other": None, "timeout": 0, "runs_admitted": 0}
    viol = out["viol"]
    dia = dialect_obj(d)
    try:
        raw = dia.tokenize(sql)
    except TokenError as e:
        out["tokerr"] = 1
        msg = str(e)
        pre = "Error tokenizing '"
        if e.start is None or e.end is None:
            if e.start is not None or e.end is not None:
                viol.append(("c13:tokenerror-span:TokenError:half-set", f"start={e.start} end={e.end}"))
        else:
            if not (0 <= e.start <= e.end <= len(sql)):
                viol.append(("c13:tokenerror-span:TokenError:out-of-bounds", f"start={e.start} end={e.end} len={len(sql)}"))
            elif not (msg.startswith(pre) and msg.endswith("'") and msg[len(pre) : -1] == sql[e.start : e.end]):
                viol.append(("c13:tokenerror-span:TokenError:snippet-differs", f"msg={msg!r} slice={sql[e.start:e.end]!r}"))
        return out

    tb = tables_for(d, raw)
    toks = [Tok(t) for t in raw if t.token_type not in MARKER_TYPES]
    out["tok_ok"] = 1
    out["ntok"] = len(toks)
    n = len(sql)
    classify(toks, sql, tb)
    out["runs_admitted"] = admit_same_span_runs(toks, tb)
    lc = linecol_table(sql)

    # gaps (computed first: comment descriptors feed the trigger classes)
    gap_comments = {}
    gap_bad = {}
    prev_end = -1
    for i, k in enumerate(toks):
        # the gap before token i is defined only when its predecessor has a well-formed span
        if k.ok and prev_end + 1 <= k.start and (i == 0 or toks[i - 1].ok):
            bad, cm = gap_residue(sql, prev_end + 1, k.start, tb)
            gap_comments[i] = cm
            if bad:
                gap_bad[i] = bad
        if k.ok:
            prev_end = max(prev_end, k.end)
    tail_bad, _ = gap_residue(sql, prev_end + 1, n, tb)

    def trig(i):
        return token_trigger(toks, i, sql, tb, gap_comments.get(i))

    # (1) bounds / order / overlap
    for i, k in enumerate(toks):
        if not k.ok:
            viol.append((f"c13:bounds:{k.kind}:{bounds_trigger(toks, i, sql)}", f"token#{i} {k.type.name} start={k.start} end={k.end} len={n}"))
            continue
        if i > 0 and toks[i - 1].ok:
            p = toks[i - 1]
            if k.start < p.start:
                viol.append((f"c13:order:{k.kind}:{trig(i)}", f"token#{i} start={k.start} < previous start={p.start}"))
            elif p.end >= k.start and not (k.run_ok and p.run_ok and p.start == k.start):
                # one report per run of tokens sharing a span (origin = first of the run)
                if not (k.kind == "SAME_SPAN_RUN" and i > 1 and (toks[i - 2].start, toks[i - 2].end) == (k.start, k.end)):
                    viol.append((f"c13:overlap:{k.kind}:{trig(i)}",
                                 f"token#{i - 1} {p.type.name}[{p.start},{p.end}] overlaps token#{i} {k.type.name}[{k.start},{k.end}]"))

    # (2) gaps
    for i, (p, why) in sorted(gap_bad.items()):
        k = toks[i]
        t = command_rest_trigger(toks, i, sql) if k.kind == "COMMAND_REST" else why
        viol.append((f"c13:gap:{k.kind}:{t}-before-token", f"non-comment text at offset {p} in the gap before token#{i} {k.type.name}"))
    if tail_bad:
        viol.append((f"c13:gap:EOF:{tail_bad[1]}-after-last-token", f"non-comment text at offset {tail_bad[0]} after the last token"))

    # (3) lexeme
    for i, k in enumerate(toks):
        if not k.ok or k.run_ok:
            continue
        prob = lexeme_problem(k, tb)
        if prob:
            if k.kind == "SAME_SPAN_RUN":
                if i > 0 and toks[i - 1].kind == "SAME_SPAN_RUN" and toks[i - 1].start == k.start:
                    continue  # one report per run
                t = trig(i)
            elif k.kind == "COMMAND_REST":
                t = command_rest_trigger(toks, i, sql)
            else:
                t = prob
            viol.append((f"c13:lexeme:{k.kind}:{t}", f"token#{i} {k.type.name} text={k.text[:40]!r} but sql[{k.start}:{k.end + 1}]={k.lex[:40]!r} ({prob})"))

    # (4) line / col, with origin analysis
    origin_of = {}
    prev_delta = (0, 0)
    origin = None
    for i, k in enumerate(toks):
        if not k.ok:
            continue
        e = lc[k.end]
        delta = (k.line - e[0], k.col - e[1])
        if delta != (0, 0):
            if origin is None or delta[0] != prev_delta[0] or (delta[1] != prev_delta[1] and delta[1] != 0):
                origin = i
            origin_of[i] = origin
        else:
            origin = None
        prev_delta = delta
    origin_key = {}
    inherited = {}
    for i, o in origin_of.items():
        if i == o:
            origin_key[o] = f"{toks[o].kind}:{trig(o)}"
            inherited[o] = 0
        else:
            inherited[o] += 1
    for o, kk in origin_key.items():
        k = toks[o]
        viol.append((f"c13:linecol:{kk}",
                     f"token#{o} {k.type.name} {k.lex[:30]!r} reports (line,col)=({k.line},{k.col}), spec linecol(sql,{k.end})={lc[k.end]}; {inherited[o]} following token(s) inherit the error"))

    def origin_for_span(start, end):
        for i, k in enumerate(toks):
            if k.ok and k.end == end and (start is None or k.start == start) and i in origin_of:
                return origin_key[origin_of[i]]
        for i, k in enumerate(toks):
            if k.ok and k.end == end and i in origin_of:
                return origin_key[origin_of[i]]
        return None

    if not do_parse:
        return out

    # (5)/(6) parse
    old = signal.signal(signal.SIGALRM, _alarm)
    signal.setitimer(signal.ITIMER_REAL, PARSE_TIMEOUT_S)
    trees = None
    perr = None
    try:
        try:
            trees = sqlglot.parse(sql, read=(d or None), error_level=ErrorLevel.RAISE)
        finally:
            signal.setitimer(signal.ITIMER_REAL, 0)
            signal.signal(signal.SIGALRM, old)
    except ParseError as e:
        perr = e
    except _Timeout:
        out["timeout"] = 1
        return out
    except Exception as e:  # an exception from sqlglot is data (not a C13 matter: C05 owns leaks)
        out["other"] = type(e).__name__
        return out

    by_span = {}
    starts = set()
    ends = set()
    for k in toks:
        if k.ok:
            by_span.setdefault((k.start, k.end), []).append(k)
            starts.add(k.start)
            ends.add(k.end)

    if perr is not None:
        out["perr"] = 1
        for ed in perr.errors:
            out["nerrdicts"] += 1
            sc, h, ec = ed.get("start_context"), ed.get("highlight"), ed.get("end_context")
            line, col = ed.get("line"), ed.get("col")
            if sc is None or h is None or ec is None or line is None or col is None:
                viol.append(("c13:error-highlight:ParseError:missing-position-fields", f"{ {k: ed.get(k) for k in ('line', 'col', 'highlight')} }"))
                continue
            # all placements p of the highlight such that the three pieces are the contiguous slice around p
            cands = []
            p = sql.find(h) if h else -1
            while p >= 0:
                if sql[max(0, p - ERROR_CONTEXT) : p] == sc and sql[p + len(h) : p + len(h) + ERROR_CONTEXT] == ec:
                    cands.append(p)
                p = sql.find(h, p + 1)
            if not cands:
                bad = [i for i, k in enumerate(toks) if not k.ok and (k.line, k.col) == (line, col)
                       and sql[max(0, k.start - ERROR_CONTEXT) : k.start] == sc and sql[k.start : k.end + 1] == h]
                if bad:  # the error was raised on a token whose span is malformed: same defect, keyed by that token
                    i = bad[0]
                    viol.append((f"c13:error-highlight:{toks[i].kind}:{bounds_trigger(toks, i, sql)}",
                                 f"ParseError highlight {h!r} is the malformed span [{toks[i].start},{toks[i].end}] of token#{i}"))
                    continue
                viol.append(("c13:error-highlight:ParseError:not-a-contiguous-slice",
                             f"start_context={sc[-20:]!r} highlight={h[:30]!r} end_context={ec[:20]!r}"))
                continue
            on_token = [p for p in cands if (p, p + len(h) - 1) in by_span]
            if not on_token:
                viol.append(("c13:error-highlight:ParseError:highlight-not-a-token-span",
                             f"highlight={h[:30]!r} at {cands} matches no token span"))
                continue
            matching = [p for p in on_token if any((k.line, k.col) == (line, col) for k in by_span[(p, p + len(h) - 1)])]
            if not matching:
                viol.append(("c13:error-highlight:ParseError:line-col-of-another-token",
                             f"highlight={h[:30]!r} at {on_token}: reported ({line},{col}) is not that token's line/col"))
                continue
            if not any(lc[p + len(h) - 1] == (line, col) for p in matching):
                p = matching[0]
                ok_ = origin_for_span(p, p + len(h) - 1) or "OTHER:untraced"
                viol.append((f"c13:error-linecol:{ok_}",
                             f"ParseError reports Line {line}, Col {col} for highlight {h[:30]!r} at offset {p}; spec linecol(sql,{p + len(h) - 1})={lc[p + len(h) - 1]}"))
        return out

    out["pok"] = 1
    tok_at_start = {}
    for k in toks:
        if k.ok:
            tok_at_start.setdefault(k.start, k)
    for tree in trees or []:
        if tree is None:
            continue
        failed = set()  # ids of Identifier nodes whose own span check failed
        for node in tree.walk():
            meta = node._meta
            if not meta or "start" not in meta or "end" not in meta:
                continue
            out["nnodes"] += 1
            cls = type(node).__name__
            s, e_ = meta.get("start"), meta.get("end")
            # nodes parsed out of an optimizer-hint comment (Parser._parse_hint re-parses the comment text)
            in_hint = node.find_ancestor(exp.Hint) is not None
            if not (isinstance(s, int) and isinstance(e_, int) and 0 <= s <= e_ < n):
                failed.add(id(node))
                src = [i for i, k in enumerate(toks) if not k.ok and (k.start, k.end) == (s, e_)]
                if src:  # the node copied the malformed span of a token: same defect, keyed by that token
                    i = src[0]
                    viol.append((f"c13:node-span:{toks[i].kind}:{bounds_trigger(toks, i, sql)}",
                                 f"{cls} {node.name[:30]!r} start={s} end={e_} len={n} (span of token#{i})"))
                elif in_hint:
                    viol.append(("c13:node-span:HINT:node-parsed-from-hint-text", f"{cls} {node.name[:30]!r} start={s} end={e_} len={n}"))
                else:
                    viol.append((f"c13:node-span:{cls}:out-of-bounds", f"{cls} {node.name[:30]!r} start={s} end={e_} len={n}"))
                continue
            span_problem = None
            if s not in starts or e_ not in ends:
                span_problem = "not-token-aligned"
            elif isinstance(node, (exp.Identifier, exp.Anonymous)):
                inside = "".join(k.text for k in toks if k.ok and k.start >= s and k.end <= e_)
                name = node.name.casefold()
                if name not in inside.casefold() and name not in sql[s : e_ + 1].casefold():
                    span_problem = f"name-not-in-span-of-{tok_at_start[s].kind}-token"
            if span_problem:
                failed.add(id(node))
                if in_hint:
                    viol.append(("c13:node-span:HINT:node-parsed-from-hint-text",
                                 f"{cls} {node.name[:30]!r} span [{s},{e_}]={sql[s:e_ + 1][:30]!r} ({span_problem})"))
                else:
                    viol.append((f"c13:node-span:{cls}:{span_problem}", f"{cls} {node.name[:30]!r} span [{s},{e_}]={sql[s:e_ + 1][:30]!r}"))
                continue
            ln, co = meta.get("line"), meta.get("col")
            if (ln, co) != lc[e_]:
                if in_hint:
                    ok_ = "HINT:node-parsed-from-hint-text"
                else:
                    ok_ = origin_for_span(s, e_) or origin_for_span(None, e_)
                if ok_ is None:
                    # span merged from several tokens: line taken from one part, col from another
                    ok_ = f"{cls}:line-col-not-of-span-end"
                viol.append((f"c13:node-linecol:{ok_}",
                             f"{cls} {node.name[:30]!r} meta (line,col)=({ln},{co}) end={e_}; spec linecol(sql,{e_})={lc[e_]}"))
        for node in tree.find_all(exp.Column, exp.Table):
            parts = [p for p in node.parts if isinstance(p, exp.Identifier) and p._meta and "start" in p._meta and "end" in p._meta]
            if any(id(p) in failed for p in parts) or node.find_ancestor(exp.Hint) is not None:
                continue  # already reported at the part itself
            for a, b in zip(parts, parts[1:]):
                sa, ea, sb, eb = a._meta["start"], a._meta["end"], b._meta["start"], b._meta["end"]
                if (sa, ea) == (sb, eb):
                    continue  # parts split out of one quoted lexeme share its span
                cls = type(node).__name__
                if ea >= sb:
                    viol.append((f"c13:node-span:{cls}:parts-out-of-source-order", f"{cls} parts {a.name[:20]!r}[{sa},{ea}] {b.name[:20]!r}[{sb},{eb}]"))
                    continue
    return out


# ---------------------------------------------------------------------------------------------------
# input space
BASE_ALPHABET = ["a", "1", " ", "\n", "\r", "\t", "-", "/", "*", ";", ".", "é", "\U0001F600"]
STRUCTURAL = {"a", "1", " ", "\n", "\r", ";", "-", "/", "*"}


def dialect_alphabet(d):
    """BASE_ALPHABET + every character occurring in the dialect tokenizer's quote / identifier / format-string
    delimiters, escapes and comment starters/enders (sorted -> deterministic)."""
    T = dialect_obj(d).tokenizer_class
    special = set()
    for table in (T._QUOTES, T._IDENTIFIERS, T._COMMENTS):
        for k, v in table.items():
            special |= set(k) | set(v or "")
    for k, (e, _tt) in T._FORMAT_STRINGS.items():
        special |= set(k) | set(e or "")
    for s in (T._STRING_ESCAPES, T._IDENTIFIER_ESCAPES, T._BYTE_STRING_ESCAPES):
        special |= set("".join(s))
    delim = set()  # the delimiter-ish subset (no prefix letters / digits)
    for ch in special:
        if not ch.isalnum():
            delim.add(ch)
    full = BASE_ALPHABET + sorted(special - set(BASE_ALPHABET))
    core = [c for c in BASE_ALPHABET if c in STRUCTURAL] + sorted(delim - set(BASE_ALPHABET))
    return full, core


def short_space(d, tier):
    """list of (alphabet, length) blocks; the space is the union of alphabet^k for the listed k."""
    full, core = dialect_alphabet(d)
    if tier == "quick":
        return [(full, 0), (full, 1), (full, 2), (full, 3), (core, 4)]
    return [(full, 0), (full, 1), (full, 2), (full, 3), (full, 4), (core, 5)]


GAP_KINDS = [" ", "\n", "\r\n", "\t", "  \n  ", " /*c*/ ", " --c\n"]


def pieces_of(d, sql):
    """(pieces, glue): the statement cut at its existing whitespace / comment gaps.  Tokens are taken from the
    real tokenizer; a non-quoted token whose lexeme contains whitespace (multi-word keyword) is cut at it too;
    adjacent tokens (empty gap) stay glued."""
    try:
        raw = dialect_obj(d).tokenize(sql)
    except TokenError:
        return None
    toks = [t for t in raw if t.token_type not in MARKER_TYPES]
    pieces = []
    prev_end = -1
    for t in toks:
        if not (0 <= t.start <= t.end < len(sql)) or t.start <= prev_end:
            return None
        lex = sql[t.start : t.end + 1]
        quoted = t.token_type in STRING_TYPES or t.token_type in (TokenType.IDENTIFIER, TokenType.HINT)
        sub = [lex] if quoted else (lex.split() or [lex])
        if pieces and t.start == prev_end + 1:
            pieces[-1] = pieces[-1] + sub[0]
            pieces.extend(sub[1:])
        else:
            pieces.extend(sub)
        prev_end = t.end
    return pieces


def layout_variants(d, sql, single_gap):
    ps = pieces_of(d, sql)
    if not ps:
        return [sql]
    out = [sql]
    for g in GAP_KINDS:
        v = g.join(ps)
        out.append(v)
        out.append(v + g + ")")  # error after the last token
    if single_gap:
        for i in range(1, len(ps)):
            for nl in ("\n", "\r\n"):
                v = " ".join(ps[:i]) + nl + " ".join(ps[i:])
                out.append(v)
                if nl == "\n":
                    out.append(" ".join(ps[:i]) + nl + ps[i])  # truncated just after the break
                    out.append(" ".join(ps[:i]) + nl + ps[i] + " )")
    return list(dict.fromkeys(out))


NLS = ["\n", "\r\n", "\r", "\n\n", "\n\r"]

EXTRA_STATEMENTS = [
    # exercise the update_positions call sites of parser.py / parsers/bigquery.py
    "SELECT a FROM `p.d.t`",
    "SELECT a FROM p-1.d.t",
    "SELECT a FROM region.INFORMATION_SCHEMA.COLUMNS",
    "SELECT a FROM `region.INFORMATION_SCHEMA.COLUMNS`",
    "SELECT a FROM INFORMATION_SCHEMA.COLUMNS",
    "SELECT t.1a FROM t",
    "SELECT a FROM d.1t",
    "SELECT \"f\"(a), FOO(b), * FROM t",
    "SELECT t.* EXCEPT (a) FROM t",
    "SELECT a FROM 'str' AS x",
    "SELECT 100_000, 0x1F, 0b11, 12L, 1.5BD FROM t",
    "SHOW TABLES",
    "SHOW x ;SELECT 1",
    "EXPLAIN SELECT a FROM t",
    "SELECT /*+ HINT(x) */ a FROM t",
    "SELECT a FROM t GROUP BY a ORDER BY a",
    "SELECT a FROM t WHERE a IS NOT NULL AND b NOT IN (1) UNION ALL SELECT 1",
    "CREATE TABLE IF NOT EXISTS t (a INT NOT NULL, PRIMARY KEY (a), FOREIGN KEY (a) REFERENCES u (a))",
    "SELECT a FROM t LATERAL VIEW EXPLODE(x) y AS z",
    "SELECT a FROM t CLUSTER BY a DISTRIBUTE BY b SORT BY c",
    "SELECT CAST(a AS DOUBLE PRECISION), CAST(b AS TIMESTAMP WITH TIME ZONE) FROM t",
    "SELECT a FROM t WHERE a SIMILAR TO 'x' OR a NOT LIKE 'y'",
    "INSERT OVERWRITE TABLE t SELECT 1",
    # dotted names with explicit gaps (so that the re-spacing puts line breaks inside them), positional parameters
    "SELECT t . a FROM db . sch . t",
    "SELECT a FROM region . INFORMATION_SCHEMA . COLUMNS",
    "SELECT $1, a FROM t WHERE b = $2 AND c = @p AND d = :q",
]


def multiline_space(d):
    """(c): literals / quoted identifiers / comments containing line breaks, followed by more tokens."""
    T = dialect_obj(d).tokenizer_class
    out = []
    lits = []
    for o, c in T._QUOTES.items():
        lits.append((o, c, o if o in T._STRING_ESCAPES and len(o) == 1 else None, "\\" in T._STRING_ESCAPES))
    for o, (c, tt) in sorted(T._FORMAT_STRINGS.items()):
        if tt in (TokenType.HEX_STRING, TokenType.BIT_STRING) or not c:
            continue
        if tt == TokenType.HEREDOC_STRING:
            lits.append((o + c, o + c, None, False))
            lits.append((o + "t" + c, o + "t" + c, None, False))
            continue
        lits.append((o, c, None, "\\" in T._STRING_ESCAPES and tt != TokenType.RAW_STRING))
    idents = [(o, c) for o, c in T._IDENTIFIERS.items()]
    for nl in NLS:
        bodies = [f"a{nl}b", f"{nl}", f"a{nl}", f"a{nl}  b{nl}c"]
        for o, c, dbl, bs in lits:
            bb = list(bodies)
            if dbl:
                bb.append(f"a{dbl}{dbl}{nl}b")  # doubled quote forces the slow path of _extract_string
            if bs:
                bb.append(f"a\\{nl}b")
                bb.append(f"a\\\\{nl}b")
            for b in bb:
                lit = f"{o}{b}{c}"
                out.append(f"SELECT {lit} AS x, b FROM t")
                out.append(f"SELECT {lit}, c{nl}FROM t WHERE a = )")
                out.append(f"SELECT a FROM t WHERE s = {lit} AND b.c = 1 GROUP BY a")
                out.append(f"{lit} x")
        for o, c in idents:
            for b in bodies[:3]:
                q = f"{o}{b}{c}"
                out.append(f"SELECT {q}, a FROM {q} AS t WHERE t.b = 1")
                out.append(f"SELECT {q} x )")
        for cs, ce in sorted(T._COMMENTS.items(), key=lambda kv: kv[0]):
            if ce is None:
                out.append(f"SELECT a {cs} c{nl}, b FROM t")
                out.append(f"SELECT a {cs} c{nl}FROM t WHERE )")
                out.append(f"{cs}c{nl}SELECT a, b")
            else:
                out.append(f"SELECT a {cs} c{nl}d {ce} , b FROM t")
                out.append(f"SELECT a {cs}{nl}{ce} FROM t WHERE )")
                out.append(f"SELECT {cs} c{nl}d {ce} a, db.t.b FROM db.t")
                out.append(f"{cs}{nl}{nl}{ce}a b")
                out.append(f"SELECT a {cs} c {cs} n{nl} {ce} d{nl} {ce} , b FROM t")
    seen = set()
    res = []
    for s in out:
        if s not in seen:
            seen.add(s)
            res.append(s)
    return res


# ---------------------------------------------------------------------------------------------------
# work items, aggregation
def _merge_examples(dst, key, item, cap=3):
    lst = dst.setdefault(key, [])
    lst.append(item)
    lst.sort(key=lambda it: (len(it[1]), it[1], it[0]))
    del lst[cap:]


class Agg:
    FIELDS = ("evaluations", "tok_ok", "ntok", "tokerr", "perr", "nerrdicts", "pok", "nnodes", "timeout", "nontrivial", "runs_admitted")

    def __init__(self):
        self.c = {f: 0 for f in self.FIELDS}
        self.counts = {}
        self.examples = {}  # key -> [(dialect, sql, what)]
        self.other = {}
        self.timeouts = []

    def add(self, d, sql, r):
        c = self.c
        c["evaluations"] += 1
        for f in ("tok_ok", "ntok", "tokerr", "perr", "nerrdicts", "pok", "nnodes", "timeout", "runs_admitted"):
            c[f] += r[f]
        if r["ntok"] or r["tokerr"]:
            c["nontrivial"] += 1
        if r["other"]:
            self.other[r["other"]] = self.other.get(r["other"], 0) + 1
        if r["timeout"] and len(self.timeouts) < 5:
            self.timeouts.append((d, sql))
        seen = set()
        for key, what in r["viol"]:
            if key in seen:
                continue
            seen.add(key)
            self.counts[key] = self.counts.get(key, 0) + 1
            _merge_examples(self.examples, key, (d, sql, what))

    def merge(self, o):
        for f in self.FIELDS:
            self.c[f] += o.c[f]
        for k, v in o.counts.items():
            self.counts[k] = self.counts.get(k, 0) + v
        for k, lst in o.examples.items():
            for it in lst:
                _merge_examples(self.examples, k, it)
        for k, v in o.other.items():
            self.other[k] = self.other.get(k, 0) + v
        self.timeouts = (self.timeouts + o.timeouts)[:5]


def _work(item):
    kind = item[0]
    agg = Agg()
    if kind == "short":
        _k, d, alphabet, length, first = item
        if length == 0:
            sqls = [""]
        else:
            sqls = (first + "".join(t) for t in itertools.product(alphabet, repeat=length - 1))
        for s in sqls:
            agg.add(d, s, check_one(d, s))
    else:
        _k, d, sqls = item
        for s in sqls:
            agg.add(d, s, check_one(d, s))
    return agg


def build_items(tier):
    ds = corpus.dialects()
    items = []
    bound = {}
    # (a) short strings
    nshort = 0
    for d in ds:
        for alphabet, length in short_space(d, tier):
            if length == 0:
                items.append(("short", d, alphabet, 0, ""))
                nshort += 1
            else:
                for first in alphabet:
                    items.append(("short", d, alphabet, length, first))
                nshort += len(alphabet) ** length
    bound["short"] = nshort
    # (b) layouts
    stmts = list(corpus.STATEMENTS) + EXTRA_STATEMENTS
    nlay = 0
    for di, d in enumerate(ds):
        for si, s in enumerate(stmts):
            if tier == "quick":
                # uniform re-spacings for every (statement, dialect); the one-gap-at-a-time family for a fixed
                # rotating third of the dialects per statement (base dialect always)
                single = d == "" or (si + di) % 3 == 0
            else:
                single = True
            vs = layout_variants(d, s, single)
            nlay += len(vs)
            for j in range(0, len(vs), 60):
                items.append(("list", d, vs[j : j + 60]))
    bound["layouts"] = nlay
    # (c) multi-line literals / comments
    nml = 0
    for d in ds:
        vs = multiline_space(d)
        nml += len(vs)
        for j in range(0, len(vs), 80):
            items.append(("list", d, vs[j : j + 80]))
    bound["multiline"] = nml
    return items, bound


def run(tier, seed):
    items, bound = build_items(tier)
    # seed only rotates the order of the work items (never membership)
    if items:
        r = seed % len(items)
        items = items[r:] + items[:r]
    # interleave so that expensive blocks are spread over the pool
    parts = pool_map(_work, items, chunksize=1)
    agg = Agg()
    for p in parts:
        agg.merge(p)
    violations = []
    for key in sorted(agg.counts):
        for d, sql, what in agg.examples[key]:
            violations.append({"key": key, "what": what, "input": {"dialect": d, "sql": sql}, "count": agg.counts[key]})
    c = agg.c
    return {
        "property": PROP,
        "evaluations": c["evaluations"],
        "distinct_nontrivial": c["nontrivial"],
        "rule": "distinct (dialect, sql) inputs for which the tokenizer returned >= 1 token (token contract (1)-(4) "
        "evaluated on each) or raised TokenError (span contract evaluated)",
        "bound": f"(a) per dialect: alphabet^k, k<=3 over the full mechanical alphabet and k={'4' if tier == 'quick' else '4 full, 5'} over the "
        f"structural sub-alphabet (a,1,space,LF,CR,;,-,/,* + the dialect's non-alphanumeric delimiter/escape/comment characters): {bound['short']} strings; "
        f"(b) {len(corpus.STATEMENTS)}+{len(EXTRA_STATEMENTS)} statements x 7 uniform gap kinds (+ trailing ')') x all dialects, one-gap-at-a-time LF/CRLF family "
        f"{'for a rotating third of dialects per statement' if tier == 'quick' else 'for all dialects'}: {bound['layouts']} texts; "
        f"(c) multi-line literal/identifier/comment templates x 5 line-break kinds x all dialects: {bound['multiline']} texts",
        "exhaustive": True,
        "samples": ["'\r'a", "GROUP\nBY", "SELECT a\r\nFROM t", "SELECT 'a\nb' AS x, b FROM t"],
        "violations": violations,
        "violation_counts": dict(sorted(agg.counts.items())),
        "contract_evaluations": {
            "Dialect.tokenize (token list contract)": c["tok_ok"],
            "tokens checked": c["ntok"],
            "TokenizerCore.tokenize (TokenError span)": c["tokerr"],
            "Parser.raise_error (ParseError.errors entries)": c["nerrdicts"],
            "inputs raising ParseError": c["perr"],
            "inputs parsed": c["pok"],
            "Expr.update_positions (nodes with position meta)": c["nnodes"],
        },
        "same_span_runs_admitted": c["runs_admitted"],
        "other_exceptions_from_parse": dict(sorted(agg.other.items())),
        "parse_timeouts": {"count": c["timeout"], "examples": agg.timeouts},
    }


def replay(entry):
    inp = entry["input"]
    r = check_one(inp["dialect"], inp["sql"])
    hits = [(k, w) for k, w in r["viol"] if k == entry["key"]]
    if hits:
        return {"violated": True, "observed": hits[0][1]}
    return {"violated": False, "observed": f"key not reproduced; keys now: {sorted({k for k, _ in r['viol']})}"}


if __name__ == "__main__":
    harness.main(run, replay)
