"""C06 (bounded stand-in): simplify / normalize and every individual rewrite step preserve the three-valued value.

Contract, evaluated at run time on the REAL functions
    sqlglot.optimizer.simplify.simplify            (constant_propagation False / True; coalesce_simplification on/off)
    sqlglot.optimizer.normalize.normalize          (dnf False / True)
and, by wrapping (from here, no repo edit) every rule the two drivers call
    Simplifier.{rewrite_between, uniq_sort, absorb_and_eliminate, simplify_concat, simplify_conditionals, simplify_not,
                simplify_connectors, _simplify_comparison, remove_complements, simplify_coalesce, simplify_literals,
                simplify_equality, simplify_datetrunc, sort_comparison, simplify_startswith},
    simplify.{flatten, simplify_parens, propagate_constants}, normalize.{distributive_law, _distribute, flatten}:

  for every generated expression e, for every function f:  r = f(e.copy());
    for every assignment sigma of e's columns over D:   eval3(r, sigma) == eval3(e, sigma)     (NULL, TRUE, FALSE distinct)
    for normalize:  normalized(r, dnf) or r == e
    for every observed rule application  before -> after  (snapshot of `before` taken BEFORE the real rule runs, since
    rules mutate in place):   for every assignment of the columns of before/after:  eval3(after) == eval3(before).
  A discrepancy is attributed to the innermost rule application that introduced it ('whole' if no step is to blame).

eval3 is spec/sql3.py (SQL-standard Kleene semantics, cross-checked against SQLite), not sqlglot code.

D (integer columns x, y): NULL and every integer in [min literal - 1, max literal + 1]; when the expression contains
arithmetic (+ - * unary minus) the symmetric interval [-(2m+1), 2m+1], m = max |literal|, which contains every threshold
reachable with one arithmetic step.  Boolean column b: {TRUE, FALSE, NULL}; k (declared BOOLEAN NOT NULL): {TRUE, FALSE}.
Each expression is run un-annotated and annotated (annotate_types with schema t(x INT, y INT, b BOOLEAN, k BOOLEAN NOT
NULL); columns are then qualified t.x, which eval3 ignores).  Dialects: None, mysql (SAFE_TO_ELIMINATE_DOUBLE_NEGATION =
False), redshift (COALESCE_COMPARISON_NON_STANDARD = True).

coalesce_simplification=True (the only way Simplifier.simplify_coalesce runs) is an extra configuration of simplify /
simplify_cp for inputs that contain COALESCE.  Observation must not change behaviour: on every 16th input each function
is re-run with the wrappers passing through and the two results must be identical (CheckerError otherwise).
Rules that cannot fire inside the fragment (simplify_concat, simplify_datetrunc, simplify_startswith: strings / dates)
are observed but not claimed.

Violation key:  c06:<function>:<rule|whole>:<kind>:<AND|OR|NOT|other>   (connector = class of the node the rule was
applied to; for 'whole' / exceptions the class of the input's root)
  kind in NULL->FALSE NULL->TRUE TRUE->FALSE FALSE->TRUE TRUE->NULL FALSE->NULL int-value not-normal-form exception:<Class>
"""
import collections
import importlib
import inspect
import itertools
import re
import signal

from bounded import harness
from bounded.harness import pool_map

from sqlglot import exp, parse_one  # noqa: E402
from sqlglot.optimizer.annotate_types import annotate_types  # noqa: E402
from sqlglot.schema import MappingSchema  # noqa: E402

from spec.sql3 import Unsupported, eval3, show  # noqa: E402

S = importlib.import_module("sqlglot.optimizer.simplify")
N = importlib.import_module("sqlglot.optimizer.normalize")


class CheckerError(BaseException):
    """a failure of the harness itself: must never be mistaken for sqlglot data (BaseException: not caught below)"""


class Timeout(Exception):
    pass


# ---------------------------------------------------------------------------------------------------------------
# expression space (deterministic function of the tier)
OPS = ["=", "<>", "<", "<=", ">", ">="]


def atoms_all():
    A = []
    for c in (0, 1, 2):
        A += [f"x {op} {c}" for op in OPS]
    for c in (0, 1, 2):
        A += [f"{c} {op} x" for op in OPS]
    A += [f"x {op} y" for op in OPS] + [f"y {op} x" for op in OPS]
    A += ["x IS NULL", "x IS NOT NULL", "b IS NULL", "b IS NOT NULL", "b IS TRUE", "b IS NOT TRUE", "b IS FALSE",
          "b IS NOT FALSE", "NULL IS NULL", "NULL IS NOT NULL", "1 IS NULL", "1 IS NOT NULL", "k IS NULL"]
    for lo, hi in [(0, 2), (1, 2), (1, 1), (2, 1), ("y", 2), ("NULL", 2), (1, "NULL")]:
        A.append(f"x BETWEEN {lo} AND {hi}")
    A += ["x NOT BETWEEN 1 AND 2", "1 BETWEEN x AND y", "1 BETWEEN 0 AND 2", "x + 1 BETWEEN 1 AND 2"]
    A += ["x IN (1, 2)", "x IN (1, NULL)", "x NOT IN (1, 2)", "x NOT IN (1, NULL)", "x IN (1)", "x IN (y, 1)",
          "1 IN (1, 2)", "1 IN (x, NULL)", "x IN (NULL)", "0 IN (1, 2)"]
    for c in (1, 2):
        A += [f"COALESCE(x, 1) {op} {c}" for op in OPS]
    A += ["COALESCE(x, y, 1) = 1", "1 = COALESCE(x, 1)", "COALESCE(x, 1) IS NULL", "COALESCE(b, TRUE)",
          "COALESCE(b, FALSE)", "COALESCE(1, x) = 1", "COALESCE(NULL, x) = 1", "COALESCE(x, y) = 1",
          "COALESCE(x, NULL) = 1", "COALESCE(x, 1) = y", "COALESCE(x, 1) <> COALESCE(y, 1)", "COALESCE(x, 1, 2) = 2",
          "COALESCE(x, 2) BETWEEN 1 AND 2", "COALESCE(x, 1) IN (1, 2)", "COALESCE(x) = 1"]
    P = ["x = 1", "b", "TRUE", "FALSE", "NULL", "x IS NULL"]
    Q = ["TRUE", "FALSE", "NULL", "b", "y = 2"]
    A += [f"CASE WHEN {p} THEN {q} ELSE {r} END" for p in P for q in Q for r in Q]
    A += [f"CASE WHEN {p} THEN {q} END" for p in P for q in ("TRUE", "b")]
    A += [f"IF({p}, {q}, {r})" for p in P for q, r in (("TRUE", "FALSE"), ("b", "NULL"), ("y = 2", "TRUE"))]
    A += ["CASE x WHEN 1 THEN TRUE WHEN 2 THEN FALSE END", "CASE x WHEN NULL THEN TRUE ELSE FALSE END",
          "CASE x WHEN 1 THEN b ELSE NOT b END", "CASE WHEN x = 1 THEN 1 ELSE 2 END = 1",
          "CASE WHEN x > 1 THEN y WHEN x < 1 THEN 2 END > 1", "CASE 1 WHEN 1 THEN b END",
          "CASE WHEN FALSE THEN TRUE WHEN x = 1 THEN FALSE ELSE b END", "CASE WHEN NULL THEN TRUE END",
          "CASE WHEN x = 1 THEN TRUE WHEN x = 1 THEN FALSE END", "CASE 2 WHEN 1 THEN TRUE WHEN x THEN FALSE END",
          "IF(x = 1, 1, 2) = 1", "IF(b, x, y) = 1", "IF(NULL, TRUE, FALSE)", "IF(b, TRUE)", "IF(x > 1, b)"]
    # a constant-true WHEN that is not the first branch; COALESCE as the right operand / with a NULL literal / under IS NOT NULL;
    # BETWEEN SYMMETRIC; IF calls that differ only in their ELSE
    A += ["CASE WHEN x > 1 THEN TRUE WHEN TRUE THEN FALSE END", "CASE WHEN x = 1 THEN 1 WHEN 1 = 1 THEN 2 ELSE 3 END = 1",
          "CASE WHEN b THEN FALSE WHEN TRUE THEN TRUE ELSE b END", "CASE WHEN x IS NULL THEN b WHEN TRUE THEN NOT b END",
          "CASE x WHEN 1 THEN TRUE WHEN x THEN FALSE ELSE b END",
          "2 > COALESCE(x, 1)", "1 < COALESCE(x, 0)", "2 <= COALESCE(x, 1)", "COALESCE(x, NULL, 1) = 1", "COALESCE(x, 1) IS NOT NULL",
          "NOT (COALESCE(x, NULL) IS NOT NULL)", "x BETWEEN SYMMETRIC 2 AND 1", "x BETWEEN 2 AND 1 OR x BETWEEN SYMMETRIC 2 AND 1",
          "IF(x > 1, y, 0) = 1 OR IF(x > 1, y, 1) = 1", "y < IF(x IS NULL, 2, 0) AND y < IF(x IS NULL, 2, 3)",
          "CASE WHEN x > 1 THEN TRUE ELSE FALSE END", "(CASE WHEN x > 1 THEN TRUE ELSE FALSE END) IS NULL", "NOT IF(x > 1, TRUE, FALSE)"]
    # chained comparisons (a comparison of a comparison's truth value): not associative
    A += ["x < 2 < 1", "x = 2 = 2", "(x < 2) < 1", "x > y > 0", "x = y = TRUE", "b = (x = 1)", "(x = 1) = (y = 1)", "x <> 1 <> 0"]
    for c2 in (1, 2):
        A += [f"x + 1 {op} {c2}" for op in OPS]
    for op in OPS:
        A += [f"x - 1 {op} 1", f"1 - x {op} 1", f"1 + x {op} 2", f"-x {op} 1", f"x + 2 {op} 1"]
    A += ["x * 2 = 2", "x + 1 + 1 = 2", "1 + 1 = 2", "1 + 2 < x", "x + y = 2", "-(-x) = 1", "x + NULL = 1", "NULL = 1",
          "1 = 1", "1 < 2", "2 < 1", "NULL <> NULL", "NULL = NULL", "x = x", "x <> x", "x < x", "x - y < 1",
          "2 * x < 2", "-1 < x", "x + 1 = y + 1", "x + 1 < y", "(x + 1) * 2 = 2", "x - 1 - 1 = 0", "2 - (1 - x) = 1",
          "x * 0 = 0", "x = NULL", "x - x = 0", "1 - 2 = -1", "x - -1 = 2", "-x = -1", "1 = x + 1", "2 > 1 + x"]
    A += ["b", "TRUE", "FALSE", "NULL", "NOT b", "NOT NOT b", "NOT NOT NOT b", "b = TRUE", "b = FALSE", "b <> TRUE", "k",
          "NOT k", "NOT NOT k", "b = k", "NOT TRUE", "NOT NULL", "NOT FALSE", "(b)", "((b))", "NOT (NOT (b))",
          "NOT NOT x = 1", "NOT NOT x IS NULL"]
    return A


ARITH = ["x + 1 + 2", "1 + 2 * 2", "x * 1", "-(-x)", "x - 1 - 1", "2 - (1 - x)", "COALESCE(x, 1) + 0", "COALESCE(NULL, 1)",
         "COALESCE(1, x)", "COALESCE(x)", "COALESCE(x, y, 1)", "CASE WHEN x = 1 THEN 1 ELSE 2 END",
         "CASE WHEN TRUE THEN x ELSE y END", "CASE WHEN NULL THEN 1 ELSE 2 END", "IF(x IS NULL, 0, x)", "IF(TRUE, x, y)",
         "IF(FALSE, x, y)", "IF(NULL, x, y)", "CASE x WHEN 1 THEN 1 WHEN 1 THEN 2 END", "x + NULL", "NULL + 1",
         "1 - 2 - x", "x + 1 - 1", "(x + 1) + (y + 2)", "x + y + 1 + 2", "1 + x + 2", "2 * (x + 1)", "-(x + 1)", "-(1)",
         "1 + (2)", "x", "1", "x - (1 - 2)", "1 - (x - 2)", "2 * x * 2", "1 + 2", "2 - 1", "x - 1 + 1", "-x + x",
         "CASE WHEN x > 1 THEN x WHEN x > 0 THEN 1 END", "CASE WHEN b THEN 1 WHEN NOT b THEN 2 ELSE 0 END"]

A_PAIR = (
    [f"x {op} {c}" for c in (1, 2) for op in OPS]
    + ["1 < x", "2 > x", "1 = x", "x = y", "x < y", "y = 1", "y > 1",
       "x IS NULL", "x IS NOT NULL", "b IS NULL",
       "x BETWEEN 1 AND 2", "x IN (1, 2)", "x IN (1, NULL)", "x NOT IN (1, NULL)",
       "COALESCE(x, 1) = 1", "COALESCE(x, 1) > 1", "COALESCE(b, FALSE)",
       "CASE WHEN x = 1 THEN b ELSE FALSE END", "CASE WHEN b THEN TRUE END", "IF(x = 1, TRUE, NULL)",
       "x + 1 = 2", "x + 1 < 2", "-x < 1", "1 - x > 1",
       "b", "NOT b", "TRUE", "FALSE", "NULL", "k", "NOT k", "b = TRUE"]
)
A_SMALL = ["x = 1", "x <> 1", "x < 2", "x >= 1", "x > 1", "x <= 2", "1 < x", "x = y", "x IS NULL", "x IN (1, NULL)",
           "x BETWEEN 1 AND 2", "COALESCE(x, 1) = 1", "b", "k", "NULL", "TRUE", "b IS TRUE", "x + 1 = 2",
           "CASE WHEN x = 1 THEN b ELSE FALSE END", "y = 1"]
A_TRI = ["x >= 1", "x <= 2", "1 < x", "x < 2", "x = 1", "x <> 1", "x = y", "b", "x IS NULL"]
A_QUAD = ["x >= 1", "x < 2", "x = 1", "x = y", "b", "x IS NULL"]
A_QUAD_QUICK = ["x >= 1", "x < 2", "x = 1", "b"]  # balanced (p . q) . (r . s): both operands of the root are connectors
CONN = ["AND", "OR"]


def _with_not(items):
    out = []
    for s in items:
        out.append(s)
        out.append(f"NOT ({s})")
    return out


def _pairs(P, Q):
    return [f"{p} {c} {q}" for p in P for q in Q for c in CONN]


def _pairs_not(P):
    out = []
    for p in P:
        for q in P:
            for c in CONN:
                out += [f"NOT ({p}) {c} {q}", f"{p} {c} NOT ({q})", f"NOT ({p}) {c} NOT ({q})"]
    return out


def _triples(P, forms=(0, 1, 2, 3)):
    out = []
    for p, q, r in itertools.product(P, repeat=3):
        for c1 in CONN:
            for c2 in CONN:
                g = [f"({p} {c1} {q}) {c2} {r}", f"{p} {c1} ({q} {c2} {r})", f"{p} {c1} {q} {c2} {r}",
                     f"(({p}) {c1} ({q})) {c2} ({r})"]
                out += [g[i] for i in forms]
    return out


def _quads(P, forms=(0, 1, 2)):
    out = []
    for p, q, r, s in itertools.product(P, repeat=4):
        for c1, c2, c3 in itertools.product(CONN, repeat=3):
            g = [f"({p} {c1} {q}) {c2} ({r} {c3} {s})", f"{p} {c1} ({q} {c2} ({r} {c3} {s}))",
                 f"(({p} {c1} {q}) {c2} {r}) {c3} {s}"]
            out += [g[i] for i in forms]
    return out


# nested, not yet normal connectors with duplicated / absorbable operands: with a small max_distance the distributive rewrite of
# normalize() starts (the estimate is within the limit) and gives up half way (an intermediate expression exceeds it)
_GIVE_UP = [
    "(k OR ((x = 1 OR y = 1) OR b)) OR (((x < 2 OR b) AND x >= 1) OR x >= 1)",
    "(k AND ((x = 1 AND y = 1) AND b)) AND (((x < 2 AND b) OR x >= 1) AND x >= 1)",
    "((x = 1 OR b) AND (k OR b)) OR ((x < 2 AND b) OR (x >= 1 AND (k OR x = 1)))",
    "((x = 1 AND b) OR (k AND b)) AND ((x < 2 OR b) AND (x >= 1 OR (k AND x = 1)))",
]


def _elim_patterns():
    """the shapes absorb_and_eliminate / remove_complements look for, in every operand order and with the negated operand on
    either side:  (A . B) o (NOT A . B)  and  A o (A . B),  A o (NOT A . B)   for (., o) = (AND, OR) and (OR, AND)"""
    out = []
    # ... including operands that look never-NULL but are not: a CASE / IF without ELSE over never-NULL branch values
    As = ["x IS NULL", "x = 1", "k", "b", "x >= 1", "x IN (1, 2)", "CASE WHEN b THEN x IS NULL END", "IF(b, x IS NULL)", "CASE WHEN x = 1 THEN TRUE END",
          "CASE WHEN b THEN x IS NULL ELSE TRUE END"]
    Bs = ["b", "y = 1", "x < 2", "y IS NULL"]
    for a, bb in itertools.product(As, Bs):
        if a == bb:
            continue
        na = f"NOT {a}" if " " not in a else f"NOT ({a})"
        na2 = f"NOT {a}"  # NOT x IS NULL: NOT binds looser than IS / comparison, same tree as NOT (x IS NULL)
        for inner, outer in (("AND", "OR"), ("OR", "AND")):
            for n in {na, na2}:
                for l, r in ((a, n), (n, a)):
                    for swap_l in (False, True):
                        for swap_r in (False, True):
                            L = f"{bb} {inner} {l}" if swap_l else f"{l} {inner} {bb}"
                            R = f"{bb} {inner} {r}" if swap_r else f"{r} {inner} {bb}"
                            out.append(f"({L}) {outer} ({R})")
                for x in (a, n):
                    for y in (a, n):
                        out.append(f"{x} {outer} ({y} {inner} {bb})")
                        out.append(f"({bb} {inner} {y}) {outer} {x}")
    return _GIVE_UP + list(dict.fromkeys(out))


A_MED = A_TRI + ["x IN (1, NULL)", "k", "NULL", "y = 1"]
THOROUGH_CAP = 260_000  # safety net only: the thorough space below is smaller


def space(tier):
    """list of SQL texts; a pure function of the tier"""
    A = atoms_all()
    out = _with_not(A) + ARITH
    out += _with_not(_pairs(A_PAIR, A_PAIR))
    out += _pairs_not(A_SMALL)
    out += _triples(A_TRI, (0, 1, 3)) + [f"NOT ({s})" for s in _triples(A_TRI, (0, 1))]
    out += _quads(A_QUAD_QUICK, (0,))
    out += _with_not(_elim_patterns())
    if tier == "thorough":  # a superset of quick
        out += _triples(A_TRI, (2,)) + [f"NOT ({s})" for s in _triples(A_TRI, (2, 3)) + _pairs_not(A_SMALL)]
        out += _pairs(A_PAIR, A)
        out += _with_not(_triples(A_MED))
        out += _quads(A_QUAD)
    out = list(dict.fromkeys(out))
    if len(out) > THOROUGH_CAP:
        raise CheckerError(f"space of tier {tier} has {len(out)} members, above the cap")
    return out


# ---------------------------------------------------------------------------------------------------------------
# typed / untyped inputs
COLUMN_KIND = {"x": "int", "y": "int", "b": "bool", "k": "boolnn"}
_SCHEMA = None


def _schema():
    global _SCHEMA
    if _SCHEMA is None:
        _SCHEMA = MappingSchema({"t": {"x": "INT", "y": "INT", "b": "BOOLEAN",
                                       "k": exp.DataType.build("BOOLEAN", nullable=False)}})
    return _SCHEMA


def build(text, typed):
    if not typed:
        return parse_one(text)
    q = parse_one(f"SELECT {text} AS r FROM t")
    for col in list(q.find_all(exp.Column)):
        col.set("table", exp.to_identifier("t"))
    q = annotate_types(q, schema=_schema())
    return q.expressions[0].unalias().copy()  # copy(): detached from the SELECT, types and meta kept


# ---------------------------------------------------------------------------------------------------------------
# reference evaluation over the assignment domain
STATS = collections.Counter()
_TABLES = {}
_EQUIV = {}


def _columns(e):
    return tuple(sorted({c.name for c in e.find_all(exp.Column)}))


def _int_domain(exprs):
    lits, arith = [], False
    for e in exprs:
        for n in e.walk():
            if type(n) is exp.Literal and not n.is_string:
                try:
                    lits.append(int(n.this))
                except ValueError:
                    pass
            elif isinstance(n, (exp.Add, exp.Sub, exp.Mul, exp.Neg)):
                arith = True
    if arith:
        m = 2 * max([abs(v) for v in lits] or [0]) + 1
        lo, hi = -m, m
    else:
        lo, hi = min(lits or [0]) - 1, max(lits or [0]) + 1
    return (lo, hi)


def _assignments(cols, dom):
    lo, hi = dom
    doms = []
    for c in cols:
        kind = COLUMN_KIND.get(c)
        if kind == "int":
            doms.append(tuple(range(lo, hi + 1)) + (None,))
        elif kind == "bool":
            doms.append((True, False, None))
        elif kind == "boolnn":
            doms.append((True, False))
        else:
            raise CheckerError(f"column {c!r} is not part of the C06 schema")
    rows = list(itertools.product(*doms))
    rows.sort(key=lambda r: sum(v is None for v in r))  # stable: all-non-NULL assignments first
    return rows


_ASSIGN = {}


def assignments(cols, dom):
    k = (cols, dom)
    if k not in _ASSIGN:
        _ASSIGN[k] = _assignments(cols, dom)
    return _ASSIGN[k]


def table(e, dom):
    """{tuple of values of e's own columns -> eval3 value}, or None if e is outside the fragment"""
    cols = _columns(e)
    k = (hash(e), cols, dom)
    if k in _TABLES:
        return _TABLES[k]
    tab = {}
    try:
        for row in assignments(cols, dom):
            tab[row] = eval3(e, dict(zip(cols, row)))
        STATS["assignments_evaluated"] += len(tab)
    except Unsupported:
        tab = None
    if len(_TABLES) > 200_000:
        _TABLES.clear()
    _TABLES[k] = (cols, tab)
    return _TABLES[k]


def _same(a, b):
    return a is b or (type(a) is type(b) and a == b)


def kind_of(want, got):
    if type(want) is int or type(got) is int:
        return "int-value"
    return f"{show(want)}->{show(got)}"


def equivalent(before, after):
    """None if equal under every assignment; 'unsupported-before' / 'unsupported-after'; else (env, want, got)"""
    k = (hash(before), hash(after), type(before), type(after))
    if k in _EQUIV:
        return _EQUIV[k]
    dom = _int_domain((before, after))
    cb, tb = table(before, dom)
    if tb is None:
        res = "unsupported-before"
    else:
        ca, ta = table(after, dom)
        if ta is None:
            res = "unsupported-after"
        else:
            res = None
            cols = tuple(sorted(set(cb) | set(ca)))
            ib = [cols.index(c) for c in cb]
            ia = [cols.index(c) for c in ca]
            for row in assignments(cols, dom):
                want = tb[tuple(row[i] for i in ib)]
                got = ta[tuple(row[i] for i in ia)]
                if not _same(want, got):
                    res = (dict(zip(cols, row)), want, got)
                    break
    if len(_EQUIV) > 400_000:
        _EQUIV.clear()
    _EQUIV[k] = res
    return res


def conn_of(node):
    return "AND" if isinstance(node, exp.And) else "OR" if isinstance(node, exp.Or) else "NOT" if isinstance(node, exp.Not) else "other"


# ---------------------------------------------------------------------------------------------------------------
# rule observation: wrappers around the real rules
SIMPLIFIER_RULES = ["rewrite_between", "uniq_sort", "absorb_and_eliminate", "simplify_concat", "simplify_conditionals",
                    "simplify_not", "simplify_connectors", "_simplify_comparison", "remove_complements",
                    "simplify_coalesce", "simplify_literals", "simplify_equality", "simplify_datetrunc",
                    "sort_comparison", "simplify_startswith"]
SIMPLIFY_FUNCS = ["flatten", "simplify_parens", "propagate_constants"]
NORMALIZE_FUNCS = ["distributive_law", "_distribute", "flatten"]


_SNAP = {}


def snapshot(node):
    """a detached, never-mutated structural copy of `node` taken now.  Copies are shared between structurally equal
    nodes (keyed by sqlglot's own structural hash, the same notion Expr.__eq__ uses): the same sub-expressions recur
    in thousands of inputs and in every configuration, and deepcopy is what dominates the run time otherwise."""
    k = (type(node), hash(node))
    cp = _SNAP.get(k)
    if cp is None:
        if len(_SNAP) > 60_000:
            _SNAP.clear()
        cp = _SNAP[k] = node.copy()
    return cp


class Recorder:
    def __init__(self):
        self.stack = []  # frames [rule, inner_failed]
        self.calls = collections.Counter()
        self.changed = collections.Counter()
        self.findings = []  # (rule, kind, connector, before_sql, after_sql, env, want, got)
        self.unsupported = collections.Counter()
        self.suppressed = 0
        self.exc_rule = None

    def after(self, rule, before, result, frame, unchanged_identity=None):
        self.calls[rule] += 1
        if result is None or result is unchanged_identity:
            return
        if not isinstance(result, exp.Expr):
            raise CheckerError(f"rule {rule} returned {type(result)}")
        if type(before) is tuple:
            before = before[0](this=before[1].copy(), expression=before[2].copy())
        if type(result) is type(before) and hash(result) == hash(before):
            return
        self.changed[rule] += 1
        verdict = equivalent(before, result)
        if verdict is None:
            return
        if isinstance(verdict, str):
            self.unsupported[f"{rule}:{verdict}"] += 1
            return
        for f in self.stack:
            f[1] = True  # enclosing applications are not to blame
        if frame[1]:
            self.suppressed += 1  # an inner application already carries the blame
            return
        env, want, got = verdict
        self.findings.append((rule, kind_of(want, got), conn_of(before), before.sql(), result.sql(), env, want, got))


REC = None  # active recorder, or None (wrappers pass through)


def _make_wrapper(rule, orig, mode):
    idx = 1 if mode == "method" else 0

    def wrapper(*args, **kwargs):
        rec = REC
        if rec is None:
            return orig(*args, **kwargs)
        ident = node = None
        try:
            if mode == "method" or mode == "function":
                node = args[idx]
                h = hash(node)
                before = _SNAP.get((node.__class__, h)) or snapshot(node)
            elif mode == "comparison":  # _simplify_comparison(self, expression, left, right, or_=False)
                _, expression, left, right = args[:4]
                before = (type(expression), snapshot(left), snapshot(right))  # node built only on change
                ident = expression  # 'return expression' means: no change
            elif mode == "distribute":  # _distribute(a, b, from_func, to_func, simplifier)
                a, b, from_func = args[:3]
                before = from_func(a.copy(), b.copy())
            else:
                raise ValueError(mode)
        except Exception as ex:  # noqa: BLE001
            raise CheckerError(f"snapshot for {rule}: {ex!r}") from ex
        frame = [rule, False]
        rec.stack.append(frame)
        try:
            result = orig(*args, **kwargs)
        except BaseException:
            if rec.exc_rule is None:
                rec.exc_rule = rule
            raise
        finally:
            rec.stack.pop()
        try:
            if node is not None and result is node and node._hash == h:
                # same object and its cached structural hash survived: set/replace/append clear the cached hash of the
                # mutated node and of its ancestors, so a surviving equal hash means no structural change
                rec.calls[rule] += 1
                return result
            rec.after(rule, before, result, frame, ident)
        except Exception as ex:  # noqa: BLE001
            raise CheckerError(f"step check for {rule}: {ex!r}") from ex
        return result

    wrapper.__wrapped__ = orig
    wrapper.__name__ = getattr(orig, "__name__", rule)
    return wrapper


_INSTALLED = []


def _assert_rule_list_complete():
    """every rule the drivers call must be wrapped: fail loudly if the tree grows a rule this module does not know"""
    src = inspect.getsource(S.Simplifier._simplify)
    called = set(re.findall(r"node = (?:self\.)?(\w+)\(", src))
    known = set(SIMPLIFIER_RULES) | set(SIMPLIFY_FUNCS)
    if called - known:
        raise CheckerError(f"Simplifier._simplify calls unobserved rules: {sorted(called - known)}")
    for name in SIMPLIFIER_RULES:
        if name not in S.Simplifier.__dict__:
            raise CheckerError(f"Simplifier.{name} does not exist")


def install():
    if _INSTALLED:
        return
    _assert_rule_list_complete()
    for name in SIMPLIFIER_RULES:
        orig = S.Simplifier.__dict__[name]
        mode = "comparison" if name == "_simplify_comparison" else "method"
        setattr(S.Simplifier, name, _make_wrapper(name, orig, mode))
        _INSTALLED.append((S.Simplifier, name, orig))
    for name in SIMPLIFY_FUNCS:
        orig = getattr(S, name)
        setattr(S, name, _make_wrapper(name, orig, "function"))
        _INSTALLED.append((S, name, orig))
    for name in NORMALIZE_FUNCS:
        orig = getattr(N, name)
        orig = getattr(orig, "__wrapped__", orig) if name == "flatten" else orig
        setattr(N, name, _make_wrapper(name, orig, "distribute" if name == "_distribute" else "function"))
        _INSTALLED.append((N, name, orig))


def uninstall():
    while _INSTALLED:
        owner, name, orig = _INSTALLED.pop()
        setattr(owner, name, orig)


# ---------------------------------------------------------------------------------------------------------------
# the four contract subjects
def _call(fname, e, dialect, coalesce):
    if fname == "simplify":
        return S.simplify(e, dialect=dialect, coalesce_simplification=coalesce)
    if fname == "simplify_cp":
        return S.simplify(e, constant_propagation=True, dialect=dialect, coalesce_simplification=coalesce)
    if fname == "normalize_cnf":
        return N.normalize(e, dnf=False)
    if fname == "normalize_dnf":
        return N.normalize(e, dnf=True)
    # a small max_distance: the rewrite may start and give up half way (the fallback must hand back the input)
    if fname == "normalize_cnf_d6":
        return N.normalize(e, dnf=False, max_distance=6)
    if fname == "normalize_dnf_d6":
        return N.normalize(e, dnf=True, max_distance=6)
    raise ValueError(fname)


FUNCTIONS = ["simplify", "simplify_cp", "normalize_cnf", "normalize_dnf", "normalize_cnf_d6", "normalize_dnf_d6"]
REAL_NAME = {
    "simplify": "sqlglot.optimizer.simplify.simplify",
    "simplify_cp": "sqlglot.optimizer.simplify.simplify(constant_propagation=True)",
    "normalize_cnf": "sqlglot.optimizer.normalize.normalize(dnf=False)",
    "normalize_dnf": "sqlglot.optimizer.normalize.normalize(dnf=True)",
    "normalize_cnf_d6": "sqlglot.optimizer.normalize.normalize(dnf=False, max_distance=6)",
    "normalize_dnf_d6": "sqlglot.optimizer.normalize.normalize(dnf=True, max_distance=6)",
}
MYSQL, REDSHIFT = "mysql", "redshift"


def configs(e, tier):
    """[(function, dialect, coalesce_simplification)] for one input.  quick: a non-default dialect is run only where its
    flag can be read: mysql (SAFE_TO_ELIMINATE_DOUBLE_NEGATION, read by simplify_not on NOT NOT) when the input has two
    NOT nodes or a COALESCE (simplify_coalesce introduces NOT); redshift (COALESCE_COMPARISON_NON_STANDARD, read by
    simplify_coalesce, which only runs with coalesce_simplification=True) when the input has a COALESCE.
    thorough: every dialect for every input.  normalize takes no dialect."""
    has_co = e.find(exp.Coalesce) is not None
    nots = sum(1 for _ in e.find_all(exp.Not))
    out = []
    for fn in ("simplify", "simplify_cp"):
        out.append((fn, None, False))
        if has_co:
            out.append((fn, None, True))
        if tier == "thorough" or nots >= 2 or has_co:
            out.append((fn, MYSQL, has_co))
        if tier == "thorough" or has_co:
            out.append((fn, REDSHIFT, has_co))
    out += [("normalize_cnf", None, False), ("normalize_dnf", None, False)]
    # (BETWEEN is rewritten before the distance check and never undone: a known deviation of its own, kept out of this clause)
    if sum(1 for _ in e.find_all(exp.Connector)) >= 3 and e.find(exp.Between) is None:
        out += [("normalize_cnf_d6", None, False), ("normalize_dnf_d6", None, False)]
    return out


def _alarm(signum, frame):
    raise Timeout("no result within the per-call time limit")


CALL_TIMEOUT_S = 60


def run_config(e, text, typed, fname, dialect, coalesce, transparency=False):
    """one contract evaluation of one real function; returns list of finding dicts"""
    global REC
    findings = []
    inp = {"sql": text, "typed": typed, "dialect": dialect, "coalesce_simplification": coalesce, "function": fname}
    root_conn = conn_of(e)

    def add(rule, kind, conn, what, **extra):
        findings.append(dict(key=f"c06:{fname}:{rule}:{kind}:{conn}", what=what, input=inp, **extra))

    rec = REC = Recorder()
    old = signal.signal(signal.SIGALRM, _alarm)
    signal.setitimer(signal.ITIMER_REAL, CALL_TIMEOUT_S)
    r = None
    try:
        r = _call(fname, e.copy(), dialect, coalesce)
    except Exception as ex:  # noqa: BLE001  -- an exception from sqlglot is data (CheckerError is a BaseException)
        add(rec.exc_rule or "whole", f"exception:{type(ex).__name__}", root_conn,
            f"{fname} raised {type(ex).__name__}: {str(ex)[:120]}")
    finally:
        signal.setitimer(signal.ITIMER_REAL, 0)
        signal.signal(signal.SIGALRM, old)
        REC = None
    STATS[f"runs:{fname}"] += 1
    STATS[f"config:{'typed' if typed else 'untyped'}:{dialect}:{'coalesce_simplification' if coalesce else '-'}"] += 1
    for k, v in rec.calls.items():
        STATS[f"calls:{fname}:{k}"] += v
    for k, v in rec.changed.items():
        STATS[f"changed:{fname}:{k}"] += v
    for k, v in rec.unsupported.items():
        STATS[f"step-skipped:{k}"] += v
    STATS["steps_suppressed_outer"] += rec.suppressed
    for rule, kind, conn, b_sql, a_sql, env, want, got in rec.findings:
        add(rule, kind, conn,
            f"{fname}: {rule} rewrote `{b_sql}` to `{a_sql}`; under {_fmt_env(env)} value {show(want)} became {show(got)}",
            step={"rule": rule, "before": b_sql, "after": a_sql}, assignment=_json_env(env), expected=show(want),
            got=show(got))
    if r is None:
        return findings, False
    if not isinstance(r, exp.Expr):
        raise CheckerError(f"{fname} returned {type(r)}")
    changed = r != e
    if changed:
        verdict = equivalent(e, r)
        STATS["whole_checks"] += 1
        if isinstance(verdict, str):
            STATS[f"whole-skipped:{fname}:{verdict}"] += 1
        elif verdict is not None and not rec.findings:
            env, want, got = verdict
            add("whole", kind_of(want, got), root_conn,
                f"{fname}: `{e.sql()}` became `{r.sql()}`; under {_fmt_env(env)} value {show(want)} became {show(got)}; "
                "no observed step is to blame", assignment=_json_env(env), expected=show(want), got=show(got))
    else:
        STATS["whole_checks_identity"] += 1
    if fname.startswith("normalize"):
        dnf = "dnf" in fname
        if not (N.normalized(r, dnf=dnf) or r == e):
            form = "DNF" if dnf else "CNF"
            if N.normalized(r.copy(), dnf=dnf):
                # the contract is evaluated on the object normalize really returned; a detached copy passes, so the
                # failure comes from the ancestors of the returned node: a different defect, hence a different key
                add("returned-root-attached", "not-normal-form", root_conn,
                    f"{fname}: `{e.sql()}` became `{r.sql()}`; normalized() is False on the returned node although its "
                    f"subtree is {form}: the returned root is still attached (parent = "
                    f"{type(r.parent).__name__ if r.parent is not None else None}) to the discarded input, so ancestor "
                    "walks (find_ancestor, root, normalized) see stale connectors")
            else:
                add("whole", "not-normal-form", root_conn,
                    f"{fname}: `{e.sql()}` became `{r.sql()}` which is neither {form} nor the input")
    if transparency:
        plain = _call(fname, e.copy(), dialect, coalesce)  # REC is None: wrappers pass through
        if plain != r or plain.sql() != r.sql():
            raise CheckerError(f"observation changed the result of {fname} on {text!r}: {plain.sql()!r} vs {r.sql()!r}")
        STATS["transparency_checks"] += 1
    return findings, bool(rec.changed) or changed


def _fmt_env(env):
    return ",".join(f"{k}={show(v)}" for k, v in env.items()) or "()"


def _json_env(env):
    return {k: show(v) for k, v in env.items()}


def check_text(text, tier, transparency=False):
    findings = []
    nontrivial = False
    for typed in (False, True):
        e = build(text, typed)
        dom = _int_domain((e,))
        if table(e, dom)[1] is None:
            STATS["inputs_skipped_unsupported"] += 1
            continue
        for fname, dialect, coalesce in configs(e, tier):
            fs, nt = run_config(e, text, typed, fname, dialect, coalesce, transparency)
            findings += fs
            nontrivial |= nt
    STATS["expressions"] += 1
    STATS["distinct_nontrivial"] += nontrivial
    return findings


def _work(batch):
    tier, texts, offset = batch
    STATS.clear()
    install()
    best = {}
    counts = collections.Counter()
    for i, text in enumerate(texts):
        seen = set()
        for f in check_text(text, tier, transparency=((offset + i) % 16 == 0)):
            k = f["key"]
            if k not in seen:
                seen.add(k)
                counts[k] += 1  # distinct input expressions per key
            rank = (len(text), text, f["input"]["typed"], str(f["input"]["dialect"]))
            lst = best.setdefault(k, [])
            if not any(x[1]["input"]["sql"] == text for x in lst):
                lst.append((rank, f))
                lst.sort(key=lambda x: x[0])
                del lst[3:]
    return dict(STATS), best, counts


def run(tier, seed):
    import random

    texts = space(tier)
    n_batches = max(1, min(len(texts) // 8, harness.WORKERS * 40))
    order = list(range(len(texts)))
    random.Random(seed).shuffle(order)  # seed permutes order / sharding only
    batches = [(tier, [texts[i] for i in order[j::n_batches]], j) for j in range(n_batches)]
    install()
    try:
        results = pool_map(_work, batches, chunksize=1)
    finally:
        uninstall()
    stats, best, counts = collections.Counter(), {}, collections.Counter()
    for st, b, c in results:
        stats.update(st)
        counts.update(c)
        for k, lst in b.items():
            cur = best.setdefault(k, [])
            for item in lst:
                if not any(x[1]["input"]["sql"] == item[1]["input"]["sql"] for x in cur):
                    cur.append(item)
            cur.sort(key=lambda x: x[0])
            del cur[3:]
    violations = []
    for k in sorted(best):
        for _, f in best[k]:
            violations.append(dict(f, count=counts[k]))
    steps = {}
    for k, v in stats.items():
        if k.startswith(("calls:", "changed:")):
            what, fn, rule = k.split(":")
            steps.setdefault(rule, {"calls": 0, "changed": 0})[what] += v
    contract = {REAL_NAME[f]: stats[f"runs:{f}"] for f in FUNCTIONS}
    for rule, d in sorted(steps.items()):
        if d["changed"]:  # rules that never fire inside the fragment (strings / dates) are observed but not claimed
            contract[f"rule:{rule}"] = d["changed"]
    return {
        "evaluations": sum(stats[f"runs:{f}"] for f in FUNCTIONS) + sum(d["changed"] for d in steps.values()),
        "distinct_nontrivial": stats["distinct_nontrivial"],
        "rule": "distinct input texts inside the eval3 fragment for which at least one function returned a changed "
                "expression or at least one observed rule application changed its node",
        "bound": f"tier {tier}: {len(texts)} expressions (atoms, NOT atoms, all pairs over {len(A_PAIR)} atoms, pairs with NOT-ed operands "
                 f"over {len(A_SMALL)}, all triples over {len(A_TRI)} atoms in 4 groupings, each also under NOT (quick: NOT-operand pairs not under NOT, "
                 "triples without the unparenthesised grouping, under NOT in the 2 connector-parenthesised groupings only), "
                 f"balanced depth-2 quadruples (p.q).(r.s) over {len(A_QUAD_QUICK)} atoms"
                 + (f", thorough: pairs of the {len(A_PAIR)} with every atom, triples over {len(A_MED)} atoms, depth-3 "
                    f"over {len(A_QUAD)} atoms" if tier == "thorough" else "")
                 + "); x typed/untyped x {simplify, simplify(cp), normalize cnf/dnf} x dialects {None, mysql, redshift}"
                 + (" (quick: non-default dialect only where its flag is readable)" if tier == "quick" else ""),
        "exhaustive": True,
        "expressions": stats["expressions"],
        "assignments_evaluated": stats["assignments_evaluated"],
        "inputs_skipped_unsupported": stats["inputs_skipped_unsupported"],
        "steps_per_rule": {r: steps[r] for r in sorted(steps)},
        "rules_never_fired": sorted(r for r in steps if not steps[r]["changed"]),
        "runs_per_config": {k[7:]: v for k, v in sorted(stats.items()) if k.startswith("config:")},
        "skipped": {k: v for k, v in sorted(stats.items()) if k.startswith(("step-skipped:", "whole-skipped:"))},
        "steps_suppressed_outer": stats["steps_suppressed_outer"],
        "transparency_checks": stats["transparency_checks"],
        "samples": [texts[i] for i in range(0, len(texts), max(1, len(texts) // 12))][:12],
        "violation_keys": {k: counts[k] for k in sorted(counts)},
        "violations": violations,
        "contract_evaluations": contract,
    }


def replay(entry):
    inp = entry["input"]
    install()
    try:
        e = build(inp["sql"], inp["typed"])
        fs, _ = run_config(e, inp["sql"], inp["typed"], inp["function"], inp["dialect"], inp["coalesce_simplification"])
    finally:
        uninstall()
    hit = [f for f in fs if f["key"] == entry["key"]]
    if hit:
        return {"violated": True, "observed": hit[0]["what"]}
    return {"violated": False, "observed": "keys now: " + (",".join(sorted({f['key'] for f in fs})) or "none")}


if __name__ == "__main__":
    harness.main(run, replay)
