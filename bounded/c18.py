"""C18 (bounded): MappingSchema lookups always reflect the current registrations.  Runs under /venv/bin/python.

Property: after any sequence of add_table calls and lookups on a MappingSchema, column_names, get_column_type,
has_column and find answer exactly as a schema freshly constructed from the final mapping would (a table becomes
visible as soon as it is added, an updated table shows its new columns, a name that became ambiguous is reported as
ambiguous, lookups made earlier never change later answers; name matching follows the dialect's normalisation).

Derived from /repo/sqlglot/schema.py: MappingSchema keeps, next to (mapping, mapping_trie), five pieces of derived
state: _find_cache[(Table, ensure_data_types)], _normalized_table_cache[(Table, dialect, normalize)],
_normalized_name_cache[(name text, dialect, is_table, normalize)], _type_mapping_cache[type text], _depth and
_supported_table_args.  Every one of them is filled by lookups (and by the normalising constructor) and none of them
may change an answer.

CONTRACT (the property's own oracle, evaluated on the REAL class).
  cfg = (depth, dialect, normalize, initial).  s = MappingSchema(initial mapping, dialect=dialect, normalize=normalize)
  lives through an operation sequence ops (add_table calls and lookups; an exception raised by sqlglot is data and the
  sequence goes on).  After the LAST step (every prefix of a sequence is itself in the enumerated space, so this is
  "after every step" without counting a divergence once per extension) every probe q of a fixed probe set Q is put to s
  and to
        fresh_q = MappingSchema(copy.deepcopy(s.mapping), dialect=dialect, normalize=False)      (one NEW object per probe)
  with the probe's normalize argument given explicitly to fresh_q (= cfg.normalize; s gets the default None, which
  the code resolves to self.normalize = cfg.normalize).  normalize=False at construction makes the fresh schema see
  exactly the names s stores (a normalising constructor would re-normalise already normalised names and it would run
  the same cache-filling code whose effect is under test); it also accepts tables with an empty column mapping, which
  add_table(table, None) legitimately creates.  The answers (value, or exception class + message class) must be equal;
  DataType answers are compared by .sql() text.
  Self-check of the construction (checker error if it fails): on every initial state fresh.mapping == s.mapping and
  fresh.mapping_trie == s.mapping_trie, and for the literal construction MappingSchema(deepcopy(s.mapping),
  dialect=dialect, normalize=cfg.normalize) as well (registered names are fixpoints of the dialect's normalisation).

  Probes fill caches too.  Between two probes of one sequence the derived state (the four cache dicts, _depth,
  _supported_table_args) is put back to what the sequence left (shallow copies), so every probe meets the
  post-sequence state; independently of that, a difference is reported only if it shows up when the probe is put
  ALONE to a new replay of the sequence (the reported input is always a complete reproducer).  If it only shows up
  after another probe, that probe is appended to the reported sequence as the lookup it is.

  States reached through add_table(match_depth=False) with a part count different from the schema's depth hold a
  mixed-depth mapping that the validating constructor rejects: the oracle is undefined there; differences are counted
  under observations["mixed_depth_differences"], not as violations.

ENUMERATOR (deterministic, exhaustive over the stated alphabets).  Universe: catalogs {c1,c2} x dbs {d1,d2} x tables
  {t,u}; column sets A={a:int} B={b:text} AB={a:int,b:text} C={a:decimal} N=None; names T1=[c1.][d1.]t,
  T2=[c1.]d2.t (depth>=2), T3=c2.d1.t (depth 3), U=[c1.][d1.]u.  Nested alphabets per configuration (function
  alphabet(); sizes at depth 3: TINY 6 < SMALL 9 < MED 18 < FULL 104):
    TINY  add(T1,B) add(T2|U,B) column_names("t") get_column_type("t","a") has_column("t", Column(quoted "a"))
          find(t as stored)
    SMALL + add(T1,A) add(T1,None) column_names(T1)
    MED   + add(T1,C) add(T1,AB) add(U,A) add(T3,B) column_names("d1.t") get_column_type(T1,"a")
          get_column_type(quoted t, quoted a, dialect=OTHER[dialect]) find(t, ensure_data_types=True)
          column_names(exp.Table t)
    FULL  + add of every universe table x {A,B,None} (T1: all five), T1 spelled upper / quoted-lower / quoted-upper,
          column mapping given as str / list, table given as exp.Table, match_depth=False (same depth, fewer parts,
          more parts), column_names + find on every partially and fully qualified universe name, and on "t" / "d1.t" /
          T1: spelling variants, exp.Table / exp.Column arguments (quoted and not), upper-case column, dialect=OTHER
  quick   : initial one-table: FULL len<=2, MED len 3, SMALL len 4;  initial empty: FULL len<=2, MED len 3
  thorough: initial one-table: FULL len<=2, MED len 3-4, SMALL len 5, TINY len 6;  empty: FULL<=2, MED 3, SMALL 4
  x depth {1,2,3} x dialect {None, snowflake, postgres, bigquery} x normalize {True, False}.
  Probe set (functions probes() / compact_probes()): after sequences of length <= 1 the full set (column_names on
  every name and spelling variant T/t/"T"/"t", exp.Table and exp.Column arguments, dialect=OTHER, find with
  raise_on_missing both ways and ensure_data_types); after longer sequences the compact subset of it (12 lookups
  that parse text + all find probes).

FRAME: only add_table writes the registrations.  s.mapping (values compared with their Python types: a type text is not the
  DataType built from it) is compared before and after every lookup of a sequence and every probe; a lookup that changes it is
  reported as lookup-changes-mapping (the oracle above is built from s.mapping, so this is also what makes it an oracle).

Kinds (first that applies):  missed-ambiguity (a fresh schema finds the probe's name ambiguous, s does not say so),
  spurious-ambiguity (s raises Ambiguous, fresh does not), stale-after-add / stale-after-update (s still gives the
  answer that was right before the last mapping-changing add_table, which added / updated a table),
  exception-differs, value-differs.
Keys: c18:<function>:<kind>:<depth>:<dialect>:<partially|fully>-qualified
Every entry also carries "cause" (triage aid, not part of the key and never part of a verdict): the first derived
state whose emptying right before the probe makes s agree with the fresh schema.
"""
import copy
import json
import os
import sys

if __package__ in (None, ""):
    sys.path.insert(0, os.path.dirname(os.path.dirname(os.path.abspath(__file__))))
from bounded import harness  # noqa: E402

from sqlglot import exp  # noqa: E402
from sqlglot.dialects.dialect import Dialect  # noqa: E402
from sqlglot.helper import dict_depth  # noqa: E402
from sqlglot.schema import MappingSchema  # noqa: E402


class HarnessError(Exception):
    pass


DIALECTS = [None, "snowflake", "postgres", "bigquery"]
QUOTE = {None: '"', "snowflake": '"', "postgres": '"', "bigquery": "`"}
# a second dialect for the `dialect=` argument of lookups: its parse of "decimal" differs from the schema dialect's
OTHER = {None: "snowflake", "postgres": "snowflake", "bigquery": "snowflake", "snowflake": "postgres"}
COLSETS = {
    "A": {"a": "int"},
    "B": {"b": "text"},
    "AB": {"a": "int", "b": "text"},
    "C": {"a": "decimal"},  # same column, a type whose parse depends on the dialect (snowflake: DECIMAL(38, 0))
    "N": None,
}
FUNC = {"cn": "column_names", "gct": "get_column_type", "has": "has_column", "find": "find"}


def dname(d):
    return d or "none"


# ---------------------------------------------------------------------------------------------------
# names
def qname(depth, c, d, t):
    return ".".join([c, d, t][3 - depth:])


def spell(name, variant, dialect):
    """spelling variants of a dotted name: lower (as is), upper, qlower, qupper (quoted with the dialect's quote)"""
    q = QUOTE[dialect]
    parts = name.split(".")
    if variant == "lower":
        return name
    if variant == "upper":
        return ".".join(p.upper() for p in parts)
    if variant == "qlower":
        return ".".join(q + p + q for p in parts)
    if variant == "qupper":
        return ".".join(q + p.upper() + q for p in parts)
    raise HarnessError(variant)


def stored_variant(cfg):
    """the spelling under which lower-case unquoted registrations are stored by this configuration"""
    depth, dialect, normalize, initial = cfg
    return "upper" if (normalize and dialect == "snowflake") else "lower"


def names_for(depth):
    t1 = qname(depth, "c1", "d1", "t")
    t2 = qname(depth, "c1", "d2", "t") if depth >= 2 else None
    t3 = qname(depth, "c2", "d1", "t") if depth >= 3 else None
    u = qname(depth, "c1", "d1", "u")
    mid = "d1.t" if depth >= 3 else None
    return t1, t2, t3, u, mid


def universe_tables(depth):
    out = []
    for c in ("c1", "c2"):
        for d in ("d1", "d2"):
            for t in ("t", "u"):
                n = qname(depth, c, d, t)
                if n not in out:
                    out.append(n)
    return out


def partial_names(depth):
    out = []
    for k in range(1, depth + 1):
        for n in universe_tables(depth):
            p = ".".join(n.split(".")[-k:])
            if p not in out:
                out.append(p)
    return out


# ---------------------------------------------------------------------------------------------------
# operations.  JSON-able tuples:
#   ("add", name, colset, form)          form: dict | str | list | tableobj | nomatch (match_depth=False)
#   ("cn", name, form)                   form: str | tableobj
#   ("gct"|"has", name, col, colform, dialect_arg)   colform: str | colobj (exp.Column, quotedness from the spelling)
#   ("find", name, raise_on_missing, ensure_data_types)
def _colobj(col, dialect):
    q = QUOTE[dialect]
    if col.startswith(q):
        return exp.Column(this=exp.to_identifier(col.strip(q), quoted=True))
    return exp.Column(this=exp.to_identifier(col, quoted=False))


def _cols_arg(colset, form):
    cols = COLSETS[colset]
    if cols is None:
        return None
    if form == "str":
        return ", ".join(f"{k}: {v}" for k, v in cols.items())
    if form == "list":
        return list(cols)
    return dict(cols)


def msg_class(e):
    m = str(e)
    if "Ambiguous mapping" in m:
        return "ambiguous"
    if "nesting level" in m:
        return "nesting-level"
    if m.startswith("Unknown "):
        return "unknown-part"
    if "Failed to build type" in m:
        return "bad-type"
    if "at least one column" in m:
        return "no-columns"
    return "other"


def _dt(v):
    return v.sql() if isinstance(v, exp.DataType) else v


_TABLES = {}


def _table(name, dialect):
    """parsed once per (name, dialect): find() neither normalises nor mutates its argument"""
    k = (name, dialect)
    if k not in _TABLES:
        _TABLES[k] = exp.to_table(name, dialect=dialect)
    return _TABLES[k]


def execute(s, op, cfg, explicit_normalize=False):
    """apply op to schema s; returns ("ok", json-able value) | ("exc", class name, message class)"""
    depth, dialect, normalize, initial = cfg
    nz = normalize if explicit_normalize else None
    kind = op[0]
    try:
        if kind == "add":
            _, name, colset, form = op
            table = exp.to_table(name, dialect=dialect) if form == "tableobj" else name
            if form == "nomatch":
                s.add_table(table, _cols_arg(colset, form), match_depth=False)
            else:
                s.add_table(table, _cols_arg(colset, form))
            return ("ok", None)
        if kind == "cn":
            _, name, form = op
            table = exp.to_table(name, dialect=dialect) if form == "tableobj" else name
            return ("ok", list(s.column_names(table, normalize=nz)))
        if kind in ("gct", "has"):
            _, name, col, colform, darg = op
            colv = _colobj(col, darg or dialect) if colform == "colobj" else col
            if kind == "gct":
                r = s.get_column_type(name, colv, dialect=darg, normalize=nz)
                return ("ok", [r.sql(), type(r).__name__])
            return ("ok", bool(s.has_column(name, colv, dialect=darg, normalize=nz)))
        if kind == "find":
            _, name, rom, edt = op
            r = s.find(_table(name, dialect), raise_on_missing=rom, ensure_data_types=edt)
            if isinstance(r, dict):
                r = [[k, _dt(v)] for k, v in r.items()]
            elif r is not None:
                r = repr(r)
            return ("ok", r)
    except Exception as e:  # an exception raised by sqlglot is data
        if isinstance(e, HarnessError):
            raise
        return ("exc", type(e).__name__, msg_class(e))
    raise HarnessError(f"unknown op {op!r}")


# ---------------------------------------------------------------------------------------------------
def initial_mapping(depth, initial):
    if initial == "empty":
        return {}
    t1 = names_for(depth)[0].split(".")
    m = dict(COLSETS["A"])
    for p in reversed(t1):
        m = {p: m}
    return m


def new_schema(cfg):
    depth, dialect, normalize, initial = cfg
    return MappingSchema(initial_mapping(depth, initial), dialect=dialect, normalize=normalize)


def fresh_of(s, cfg):
    depth, dialect, normalize, initial = cfg
    return MappingSchema(copy.deepcopy(s.mapping), dialect=dialect, normalize=False)


def mkey(s):
    return json.dumps(s.mapping, default=repr)


TINY, SMALL, MED, FULL = 0, 1, 2, 3
LEVEL_NAMES = {TINY: "TINY", SMALL: "SMALL", MED: "MED", FULL: "FULL"}


def alphabet(cfg):
    """[(op, level)]: the alphabets are nested, TINY < SMALL < MED < FULL; level = the smallest alphabet holding the op"""
    depth, dialect, normalize, initial = cfg
    t1, t2, t3, u, mid = names_for(depth)
    sv = stored_variant(cfg)
    other = OTHER[dialect]
    q_o = QUOTE[other]
    hit_t = spell("t", "q" + sv, other)  # resolves to the stored short name under the other dialect
    hit_a = q_o + ("A" if sv == "upper" else "a") + q_o
    qa = QUOTE[dialect] + "a" + QUOTE[dialect]
    st = lambda n: spell(n, sv, dialect)  # noqa: E731  (find does not normalise: use the stored spelling)
    second = t2 or u  # depth >= 2: a second table called t (makes "t" ambiguous); depth 1: another table
    ops = []

    def add(op, level):
        if op not in [o for o, _ in ops]:
            ops.append((op, level))

    # TINY
    add(("add", t1, "B", "dict"), TINY)
    add(("add", second, "B", "dict"), TINY)
    add(("cn", "t", "str"), TINY)
    add(("gct", "t", "a", "str", None), TINY)
    add(("has", "t", qa, "colobj", None), TINY)
    add(("find", st("t"), True, False), TINY)
    # SMALL
    add(("add", t1, "A", "dict"), SMALL)
    add(("add", t1, "N", "dict"), SMALL)
    add(("cn", t1, "str"), SMALL)
    # MED
    add(("add", t1, "C", "dict"), MED)
    add(("add", t1, "AB", "dict"), MED)
    add(("add", u, "A", "dict"), MED)
    if t3:
        add(("add", t3, "B", "dict"), MED)
        add(("cn", mid, "str"), MED)
    add(("gct", t1, "a", "str", None), MED)
    add(("gct", hit_t, hit_a, "str", other), MED)
    add(("find", st("t"), True, True), MED)
    add(("cn", "t", "tableobj"), MED)
    # FULL
    add(("add", second, "A", "dict"), FULL)
    for n in universe_tables(depth):
        for cs in (COLSETS if n == t1 else ("A", "B", "N")):
            add(("add", n, cs, "dict"), FULL)
    for v in ("upper", "qlower", "qupper"):
        add(("add", spell(t1, v, dialect), "B", "dict"), FULL)
    add(("add", t1, "AB", "str"), FULL)
    add(("add", t1, "AB", "list"), FULL)
    add(("add", t1, "B", "tableobj"), FULL)
    add(("add", t1, "B", "nomatch"), FULL)
    add(("add", u, "B", "nomatch"), FULL)
    if depth >= 2:
        add(("add", "u", "B", "nomatch"), FULL)  # fewer parts than the schema's depth  -> mixed-depth mapping
    if depth <= 2:
        add(("add", "x1." + u, "B", "nomatch"), FULL)  # more parts than the schema's depth -> mixed-depth mapping
    for n in partial_names(depth):
        add(("cn", n, "str"), FULL)
        add(("find", st(n), True, False), FULL)
    for n in dict.fromkeys(["t", mid or "t", t1]):
        add(("gct", n, "a", "str", None), FULL)
        add(("has", n, "a", "str", None), FULL)
        add(("cn", spell(n, "upper", dialect), "str"), FULL)
        if n == mid:
            continue
        add(("gct", n, "b", "str", None), FULL)
        add(("has", n, "b", "str", None), FULL)
        for v in ("qlower", "qupper"):
            add(("cn", spell(n, v, dialect), "str"), FULL)
        add(("cn", n, "tableobj"), FULL)
        add(("cn", spell(n, "upper", dialect), "tableobj"), FULL)
        add(("has", n, qa, "colobj", None), FULL)
        add(("has", n, "a", "colobj", None), FULL)
        add(("has", n, "A", "colobj", None), FULL)
        add(("gct", n, qa, "colobj", None), FULL)
        add(("gct", n, "A", "str", None), FULL)
        add(("gct", spell(n, "q" + sv, other), hit_a, "str", other), FULL)
        add(("has", spell(n, "q" + sv, other), hit_a, "str", other), FULL)
        add(("find", st(n), False, False), FULL)
        add(("find", st(n), True, True), FULL)
        add(("find", spell(n, "upper" if sv == "lower" else "lower", dialect), True, False), FULL)
    return ops


def compact_probes(cfg):
    """the probe set used after sequences of length >= 2 (string lookups cost ~0.1 ms each: the table text is parsed)"""
    depth, dialect, normalize, initial = cfg
    t1, t2, t3, u, mid = names_for(depth)
    other = OTHER[dialect]
    q, q_o = QUOTE[dialect], QUOTE[other]
    sv = stored_variant(cfg)
    names = [n for n in dict.fromkeys(["t", mid, t1, t2, t3, "u"]) if n]
    out = []
    for n in dict.fromkeys(["t", mid, t1, t2 or u]):
        if n:
            out.append(("cn", n, "str"))
    out.append(("gct", "t", "a", "str", None))
    out.append(("has", "t", "a", "str", None))
    out.append(("gct", t1, "a", "str", None))
    out.append(("has", "t", q + "a" + q, "colobj", None))
    out.append(("has", "t", q + "A" + q, "colobj", None))
    out.append(("gct", spell("t", "q" + sv, other), q_o + ("A" if sv == "upper" else "a") + q_o, "str", other))
    out.append(("cn", spell("t", "upper", dialect), "str"))
    out.append(("cn", "t", "tableobj"))
    for n in names:
        for v in ("lower", "upper"):
            for rom in (True, False):
                out.append(("find", spell(n, v, dialect), rom, False))
    for n in dict.fromkeys(["t", t1]):
        out.append(("find", spell(n, sv, dialect), True, True))
    return list(dict.fromkeys(out))


def probes(cfg):
    """the full probe set, used after sequences of length <= 1 (and it contains the compact set)"""
    depth, dialect, normalize, initial = cfg
    t1, t2, t3, u, mid = names_for(depth)
    other = OTHER[dialect]
    q, q_o = QUOTE[dialect], QUOTE[other]
    names = [n for n in dict.fromkeys(["t", mid, t1, t2, t3, "u"]) if n]
    focus = [n for n in dict.fromkeys(["t", mid, t1]) if n]
    out = []
    for n in names:
        out.append(("cn", n, "str"))
    for n in focus:
        out.append(("gct", n, "a", "str", None))
        out.append(("has", n, "a", "str", None))
    for n in dict.fromkeys(["t", t1]):
        for v in ("upper", "qlower", "qupper"):
            out.append(("cn", spell(n, v, dialect), "str"))
        out.append(("cn", n, "tableobj"))
        out.append(("gct", n, "b", "str", None))
        out.append(("has", n, "A", "str", None))
        for v in ("qlower", "qupper"):
            out.append(("gct", spell(n, v, other), q_o + ("a" if v == "qlower" else "A") + q_o, "str", other))
        out.append(("has", n, q + "a" + q, "colobj", None))
        out.append(("has", n, q + "A" + q, "colobj", None))
        out.append(("has", n, "a", "colobj", None))
        out.append(("gct", n, q + "a" + q, "colobj", None))
    for n in names:
        for v in ("lower", "upper"):
            for rom in (True, False):
                out.append(("find", spell(n, v, dialect), rom, False))
    for n in dict.fromkeys(["t", t1]):
        for v in ("lower", "upper"):
            out.append(("find", spell(n, v, dialect), True, True))
    return list(dict.fromkeys(out))


def configs():
    return [(depth, dialect, normalize, initial) for depth in (1, 2, 3) for dialect in DIALECTS for normalize in (True, False)
            for initial in ("one", "empty")]


# (alphabet, min length, max length) per tier and initial state; the alphabets are nested, so an alphabet only runs
# the lengths the next bigger one has not covered
PLAN = {
    "quick": {"one": [(FULL, 0, 2), (MED, 3, 3), (SMALL, 4, 4)], "empty": [(FULL, 0, 2), (MED, 3, 3)]},
    "thorough": {"one": [(FULL, 0, 2), (MED, 3, 4), (SMALL, 5, 5), (TINY, 6, 6)], "empty": [(FULL, 0, 2), (MED, 3, 3), (SMALL, 4, 4)]},
}


# ---------------------------------------------------------------------------------------------------
_FRESH = {}  # (cfg, mapping text) -> {probe: answer}: the fresh answers are a function of the mapping alone


def fresh_answer(s, cfg, probe, key=None):
    key = key or mkey(s)
    memo = _FRESH.setdefault((cfg, key), {})
    if probe not in memo:
        memo[probe] = execute(fresh_of(s, cfg), probe, cfg, explicit_normalize=True)
    return memo[probe]


def _mapping_depth(mapping):
    """nesting level of the first registered table (what MappingSchema.depth() computes), without touching the schema"""
    return dict_depth(mapping) - 1 if mapping else None


def replay_ops(cfg, ops):
    """new schema + the sequence; returns (s, trace, index of the last mapping-changing op or None, mixed?)
    mixed: some add_table(match_depth=False) with a part count different from the depth the (non-empty) schema had
    changed the mapping"""
    s = new_schema(cfg)
    last_mut, mixed, trace = None, False, []
    before = mkey(s)
    for i, op in enumerate(ops):
        pre_depth = _mapping_depth(s.mapping) if op[0] == "add" and op[3] == "nomatch" else None
        r = execute(s, op, cfg)
        trace.append(r)
        if op[0] != "add" and getattr(s, "_verif_lookup_mut", None) is None and mkey(s) != before:
            # a LOOKUP changed the registrations themselves (the fresh-schema oracle is built from s.mapping, so it must first be
            # established that only add_table writes it)
            s._verif_lookup_mut = i
            before = mkey(s)
        if op[0] == "add":
            after = mkey(s)
            if after != before:
                last_mut = i
                before = after
                if pre_depth is not None and len(exp.to_table(op[1], dialect=cfg[1]).parts) != pre_depth:
                    mixed = True
    return s, trace, last_mut, mixed


def _qual(cfg, probe):
    nparts = len(exp.to_table(probe[1], dialect=(probe[4] if probe[0] in ("gct", "has") and probe[4] else cfg[1])).parts)
    return "fully" if nparts >= cfg[0] else "partially"


def _is_amb(ans):
    return ans[0] == "exc" and ans[2] == "ambiguous"


def _name_ambiguous_in_fresh(s, cfg, probe):
    """does a fresh schema over s.mapping find the probe's table name ambiguous?"""
    depth, dialect, normalize, initial = cfg
    f = fresh_of(s, cfg)
    try:
        if probe[0] == "find":
            f.find(exp.to_table(probe[1], dialect=dialect), raise_on_missing=True)
        else:
            darg = probe[4] if probe[0] in ("gct", "has") else None
            f.column_names(probe[1], dialect=darg, normalize=normalize)
    except Exception as e:
        return msg_class(e) == "ambiguous"
    return False


def classify(cfg, ops, last_mut, s, probe, s_ans, f_ans):
    if _name_ambiguous_in_fresh(s, cfg, probe) and not _is_amb(s_ans):
        return "missed-ambiguity"
    if _is_amb(s_ans) and not _is_amb(f_ans):
        return "spurious-ambiguity"
    if last_mut is not None:
        pre, _, _, _ = replay_ops(cfg, ops[:last_mut])
        pre_map = copy.deepcopy(pre.mapping)
        before_fresh = execute(fresh_of(pre, cfg), probe, cfg, explicit_normalize=True)
        before_s = execute(pre, probe, cfg)
        if before_s == before_fresh and s_ans == before_s:
            # was the table of the mutating op present before?
            post, _, _, _ = replay_ops(cfg, ops[: last_mut + 1])
            updated = _tables(pre_map) == _tables(post.mapping)
            return "stale-after-update" if updated else "stale-after-add"
    if s_ans[0] == "exc" or f_ans[0] == "exc":
        return "exception-differs"
    return "value-differs"


def _tables(mapping):
    """set of paths to column mappings (a dict whose values are not dicts, or an empty dict)"""
    out = set()

    def rec(d, path):
        if not isinstance(d, dict) or not d or not isinstance(next(iter(d.values())), dict):
            out.add(path)
            return
        for k, v in d.items():
            rec(v, path + (k,))

    for k, v in mapping.items():
        rec(v, (k,))
    return out


_DERIVED = ("_find_cache", "_normalized_table_cache", "_normalized_name_cache", "_type_mapping_cache")


def _save_derived(s):
    """shallow copies of the derived state a lookup may fill (used only to keep the probes of one sequence from
    influencing each other; every reported difference is re-confirmed on a true replay with the probe put alone)"""
    return {a: dict(getattr(s, a)) for a in _DERIVED}, s._depth, s._supported_table_args


def _restore_derived(s, saved):
    dicts, depth, sta = saved
    for a, d in dicts.items():
        cur = getattr(s, a)
        if len(cur) != len(d):
            cur.clear()
            cur.update(d)
    s._depth = depth
    s._supported_table_args = sta


def check_sequence(cfg, ops, plist, stats, viols):
    """run ops on a new schema, put every probe; differences are confirmed in isolation and appended to viols"""
    s, trace, last_mut, mixed = replay_ops(cfg, ops)
    key = mkey(s)
    diffs = []
    saved = _save_derived(s)

    def frame_violation(rep_ops, i):
        op = rep_ops[i]
        viols.append({
            "key": f"c18:{FUNC[op[0]]}:lookup-changes-mapping:{cfg[0]}:{dname(cfg[1])}",
            "cause": "mapping",
            "what": f"the lookup {FUNC[op[0]]}{tuple(op[1:])} (op {i}) changed the schema's registrations (s.mapping)",
            "input": {"depth": cfg[0], "dialect": cfg[1], "normalize": cfg[2], "initial": cfg[3], "ops": [list(o) for o in rep_ops[: i + 1]],
                      "probe": list(op), "mapping": json.loads(mkey(s)), "frame": True},
        })

    if getattr(s, "_verif_lookup_mut", None) is not None:
        frame_violation(list(ops), s._verif_lookup_mut)
        return
    for k, probe in enumerate(plist):
        s_ans = execute(s, probe, cfg)
        if mkey(s) != key:
            frame_violation(list(ops) + [probe], len(ops))
            return
        _restore_derived(s, saved)  # undo the probe's own cache fills: the next probe meets the post-sequence state
        f_ans = fresh_answer(s, cfg, probe, key)
        stats["evals"] += 1
        stats["fn:" + probe[0]] += 1
        if s_ans != f_ans:
            diffs.append(k)
    if last_mut is not None:
        stats["seq_with_mutation"] += 1
        if any(op[0] != "add" for op in ops[:last_mut]):
            stats["nontrivial"] += 1
    stats["sequences"] += 1
    stats["adds"] += sum(1 for op in ops if op[0] == "add")
    if mixed:
        stats["mixed_depth_sequences"] += 1
    if not diffs:
        return
    for k in diffs:
        probe = plist[k]
        rep_ops = _confirm(cfg, ops, plist, k)
        if rep_ops is None:
            stats["unconfirmed_probe_interactions"] += 1
            continue
        s2, _, lm2, mixed2 = replay_ops(cfg, rep_ops)
        s_ans = execute(s2, probe, cfg)
        s3, _, _, _ = replay_ops(cfg, rep_ops)
        f_ans = execute(fresh_of(s3, cfg), probe, cfg, explicit_normalize=True)
        if s_ans == f_ans:
            raise HarnessError("confirmed difference vanished")
        if mixed2:
            stats["mixed_depth_differences"] += 1
            ex = stats.setdefault("mixed_depth_example", None)
            if ex is None:
                stats["mixed_depth_example"] = {"cfg": list(cfg), "ops": [list(o) for o in rep_ops], "probe": list(probe),
                                                "s": s_ans, "fresh": f_ans}
            continue
        kind = classify(cfg, rep_ops, lm2, s3, probe, s_ans, f_ans)
        vkey = f"c18:{FUNC[probe[0]]}:{kind}:{cfg[0]}:{dname(cfg[1])}:{_qual(cfg, probe)}-qualified"
        viols.append({
            "key": vkey,
            "cause": diagnose(cfg, rep_ops, probe, f_ans),
            "what": f"after {len(rep_ops)} op(s) {FUNC[probe[0]]}{tuple(probe[1:])} answered {s_ans}; a fresh schema over the same mapping answers {f_ans}",
            "input": {"depth": cfg[0], "dialect": cfg[1], "normalize": cfg[2], "initial": cfg[3], "ops": [list(o) for o in rep_ops],
                      "probe": list(probe), "mapping": json.loads(mkey(s3))},
        })


def diagnose(cfg, ops, probe, f_ans):
    """triage aid only (never decides a verdict): the first piece of derived state whose emptying, right before the
    probe, makes the replayed schema agree with the fresh one"""
    for attr in _DERIVED:
        s, _, _, _ = replay_ops(cfg, ops)
        getattr(s, attr).clear()
        if execute(s, probe, cfg) == f_ans:
            return attr
    s, _, _, _ = replay_ops(cfg, ops)
    s._depth = 0
    s._supported_table_args = tuple()
    if execute(s, probe, cfg) == f_ans:
        return "_depth/_supported_table_args"
    s, _, _, _ = replay_ops(cfg, ops)
    for attr in _DERIVED:
        getattr(s, attr).clear()
    if execute(s, probe, cfg) == f_ans:
        return "several-caches"
    return "mapping_trie-or-other"


def _differs_alone(cfg, ops, probe):
    s, _, _, _ = replay_ops(cfg, ops)
    key = mkey(s)
    return execute(s, probe, cfg) != fresh_answer(s, cfg, probe, key)


def _confirm(cfg, ops, plist, k):
    """the op sequence under which probe k differs when put alone: ops, or ops + one earlier probe, or ops + all
    earlier probes; None if it cannot be reproduced (never expected)"""
    probe = plist[k]
    if _differs_alone(cfg, ops, probe):
        return list(ops)
    for j in range(k):
        if _differs_alone(cfg, list(ops) + [plist[j]], probe):
            return list(ops) + [plist[j]]
    allp = list(ops) + list(plist[:k])
    if _differs_alone(cfg, allp, probe):
        return allp
    return None


def _new_stats():
    import collections

    return collections.defaultdict(int)


def work(item):
    """item = (cfg, level, lo, hi, first op index or None for the empty sequence)"""
    cfg, level, lo, hi, first = item
    cfg = tuple(cfg)
    alpha = [op for op, lv in alphabet(cfg) if lv <= level]
    full, compact = probes(cfg), compact_probes(cfg)
    if not set(compact) <= set(full):
        raise HarnessError("compact probe set must be part of the full one")
    stats, viols = _new_stats(), []
    if first is None:
        check_sequence(cfg, [], full, stats, viols)
    else:
        stack = [[alpha[first]]]
        while stack:
            seq = stack.pop()
            if len(seq) >= lo:
                check_sequence(cfg, seq, full if len(seq) <= 1 else compact, stats, viols)
            if len(seq) < hi:
                for op in reversed(alpha):
                    stack.append(seq + [op])
    # keep <= 3 shortest examples per key
    by, counts, causes = {}, {}, {}
    for v in viols:
        counts[v["key"]] = counts.get(v["key"], 0) + 1
        ck = v["key"] + " <- " + v["cause"]
        causes[ck] = causes.get(ck, 0) + 1
        lst = by.setdefault(v["key"], [])
        lst.append(v)
        lst.sort(key=lambda x: (len(x["input"]["ops"]), json.dumps(x["input"], default=repr)))
        del lst[3:]
    # one example per (key, cause) is kept too, so that every cause behind a key has a reproducer
    extra = {}
    for v in viols:
        ck = (v["key"], v["cause"])
        if ck not in extra or len(v["input"]["ops"]) < len(extra[ck]["input"]["ops"]):
            extra[ck] = v
    return {"stats": dict(stats), "viol": [v for k in sorted(by) for v in by[k]], "counts": counts, "causes": causes,
            "cause_examples": list(extra.values())}


def self_check():
    """construction sanity on every initial state (see module docstring)"""
    for cfg in configs():
        depth, dialect, normalize, initial = cfg
        s = new_schema(cfg)
        f = fresh_of(s, cfg)
        lit = MappingSchema(copy.deepcopy(s.mapping), dialect=dialect, normalize=normalize)
        for other, label in ((f, "non-normalising"), (lit, "literal")):
            if other.mapping != s.mapping or other.mapping_trie != s.mapping_trie:
                raise HarnessError(f"fresh construction ({label}) differs from the initial state for {cfg}")
        al = alphabet(cfg)
        if len({op for op, _ in al}) != len(al):
            raise HarnessError("duplicate ops in the alphabet")


def plan_items(tier):
    items = []
    for cfg in configs():
        al = alphabet(cfg)
        for level, lo, hi in PLAN[tier][cfg[3]]:
            n = sum(1 for _, lv in al if lv <= level)
            if lo == 0:
                items.append((cfg, level, 0, 0, None))
            for first in range(n):
                items.append((cfg, level, max(lo, 1), hi, first))
    return items


def run(tier, seed):
    for d in DIALECTS:
        Dialect.get_or_raise(d)
    self_check()
    items = plan_items(tier)
    order = list(range(len(items)))
    if seed:
        import random

        random.Random(seed).shuffle(order)
    else:
        order.sort(key=lambda i: (i * 2654435761) & 0xFFFFFFFF)
    res = harness.pool_map(work, [items[i] for i in order], chunksize=1)
    stats, counts, by, causes, cause_ex = {}, {}, {}, {}, {}
    mixed_example = None
    for r in res:
        for k, v in r["causes"].items():
            causes[k] = causes.get(k, 0) + v
        for v in r["cause_examples"]:
            ck = (v["key"], v["cause"])
            if ck not in cause_ex or len(v["input"]["ops"]) < len(cause_ex[ck]["input"]["ops"]):
                cause_ex[ck] = v
        for k, v in r["stats"].items():
            if k == "mixed_depth_example":
                if v is not None and (mixed_example is None or len(json.dumps(v)) < len(json.dumps(mixed_example))):
                    mixed_example = v
                continue
            stats[k] = stats.get(k, 0) + v
        for k, v in r["counts"].items():
            counts[k] = counts.get(k, 0) + v
        for v in r["viol"]:
            lst = by.setdefault(v["key"], [])
            lst.append(v)
            lst.sort(key=lambda x: (len(x["input"]["ops"]), json.dumps(x["input"], default=repr)))
            del lst[3:]
    violations = []
    for k in sorted(by):
        shown = list(by[k])
        for (kk, cause), v in sorted(cause_ex.items()):
            if kk == k and all(x["cause"] != cause for x in shown):
                shown.append(v)  # a cause not represented among the three shortest examples
        for v in shown:
            violations.append(dict(v, count=counts[k]))
    by_cause = {}
    for ck, n in causes.items():
        c = ck.split(" <- ")[1]
        by_cause[c] = by_cause.get(c, 0) + n
    sizes = {}
    for cfg in configs():
        al = alphabet(cfg)
        sizes[f"depth{cfg[0]}"] = dict({LEVEL_NAMES[k]: sum(1 for _, lv in al if lv <= k) for k in LEVEL_NAMES},
                                       **{"probes_len<=1": len(probes(cfg)), "probes_len>=2": len(compact_probes(cfg))})
    ex_cfg = (3, None, True, "one")
    return {
        "evaluations": stats.get("evals", 0),
        "distinct_nontrivial": stats.get("nontrivial", 0),
        "rule": "operation sequences in which a lookup precedes a later add_table call that changed the mapping (the order-sensitive case); "
                "every sequence is distinct by construction",
        "bound": f"tier={tier}: {len(configs())} configurations (depth 1-3 x dialect none/snowflake/postgres/bigquery x normalize T/F x initial "
                 f"one-table/empty); plan (alphabet 3=FULL 2=MED 1=SMALL 0=TINY, min len, max len) per initial state: {PLAN[tier]}; "
                 f"alphabet/probe sizes {sizes}; all sequences over the alphabet of the stated lengths",
        "exhaustive": True,
        "sequences": stats.get("sequences", 0),
        "sequences_with_mapping_change": stats.get("seq_with_mutation", 0),
        "alphabets_depth3_none_normalize_one": {LEVEL_NAMES[k]: [list(o) for o, lv in alphabet(ex_cfg) if lv == k] for k in LEVEL_NAMES},
        "observations": {
            "mixed_depth_sequences": stats.get("mixed_depth_sequences", 0),
            "mixed_depth_differences": stats.get("mixed_depth_differences", 0),
            "mixed_depth_example": mixed_example,
            "unconfirmed_probe_interactions": stats.get("unconfirmed_probe_interactions", 0),
        },
        "samples": [[list(items[i][0]), items[i][1:]] for i in (0, len(items) // 2, len(items) - 1)],
        "violations": violations,
        "violation_counts": dict(sorted(counts.items())),
        "violation_causes": dict(sorted(causes.items())),
        "violations_by_cause": by_cause,
        "contract_evaluations": {
            "MappingSchema.column_names": stats.get("fn:cn", 0),
            "MappingSchema.get_column_type": stats.get("fn:gct", 0),
            "MappingSchema.has_column": stats.get("fn:has", 0),
            "MappingSchema.find": stats.get("fn:find", 0),
            "MappingSchema.add_table": stats.get("adds", 0),
        },
    }


def _tup(x):
    return tuple(_tup(y) if isinstance(y, list) else y for y in x)


def replay(entry):
    inp = entry["input"]
    cfg = (inp["depth"], inp["dialect"], inp["normalize"], inp["initial"])
    ops = [_tup(o) for o in inp["ops"]]
    probe = _tup(inp["probe"])
    if inp.get("frame"):
        s, _, _, _ = replay_ops(cfg, ops)
        i = getattr(s, "_verif_lookup_mut", None)
        key = f"c18:{FUNC[ops[i][0]]}:lookup-changes-mapping:{cfg[0]}:{dname(cfg[1])}" if i is not None else None
        return {"violated": key == entry["key"], "observed": f"{key}: op {i} changed s.mapping" if key else "no lookup changed s.mapping", "keys": [key] if key else []}
    s, _, last_mut, mixed = replay_ops(cfg, ops)
    s_ans = execute(s, probe, cfg)
    s2, _, _, _ = replay_ops(cfg, ops)
    f_ans = execute(fresh_of(s2, cfg), probe, cfg, explicit_normalize=True)
    if s_ans == f_ans:
        return {"violated": False, "observed": f"both answer {s_ans}"}
    kind = classify(cfg, ops, last_mut, s2, probe, s_ans, f_ans)
    key = f"c18:{FUNC[probe[0]]}:{kind}:{cfg[0]}:{dname(cfg[1])}:{_qual(cfg, probe)}-qualified"
    return {"violated": key == entry["key"], "observed": f"{key}: s answers {s_ans}, fresh answers {f_ans}", "keys": [key]}


if __name__ == "__main__":
    harness.main(run, replay)
