"""C05 (bounded): tokenize / parse / generate terminate within a polynomial step budget and only ever raise
errors of sqlglot's own family.  Runs under /venv/bin/python.

Contract evaluated on the REAL functions, for input text s, dialect d, error level L:

  (1) Dialect.get_or_raise(d).tokenize(s)            returns, or raises sqlglot.errors.TokenError        [phase tokenize]
  (2) sqlglot.parse(s, read=d, error_level=L)        returns, or raises one of ALLOWED                    [phase parse]
  (3) tree.sql(dialect=w) for every non-None tree returned by (2), w in {d, "", "duckdb"}
                                                     returns, or raises one of ALLOWED                    [phase generate]
  (4) sqlglot.transpile(s, read=d, error_level=first requested level) (identity target) returns, or raises one of
      ALLOWED, within the same budgets (violations are filed under phase parse / generate by where they arose)
  (5) termination -- three layers, the first is the contract, the other two keep the harness alive:
      a. step budget (not wall clock): Parser._advance and TokenizerCore._advance are wrapped (class attributes are
         monkeypatched from this module) and count calls.  Parser steps of one parse call must stay
         <= 2000 + 200*n^2, n = number of tokens; tokenizer steps of one tokenize/parse call must stay
         <= 2000 + 200*m^2, m = len(s).  Calibration on the unmutated corpus (see `calibration` in the result):
         valid statements use < 1 % of either budget.
      b. in-process wall clock: setitimer(ITIMER_REAL) per call; a pure-python loop that never reaches _advance is
         interrupted after ITEM_ALARM seconds (the handler raises a private BaseException).
      c. hard watchdog: every input runs in a child process that publishes (current item, start time) in shared
         memory; the parent kills a child stuck > ITEM_KILL seconds on one item, records the item as a hang, restarts
         the child on the rest of the batch (so one hang never loses a shard).
  ALLOWED = {TokenError, ParseError, UnsupportedError, OptimizeError} (sqlglot.errors).

Keys:  c05:leak:<ExceptionClass>:<innermost repo frame file:function>:<phase>
         (RecursionError: the innermost frame is arbitrary, the site is the repeating call cycle instead)
       c05:hang:<phase>:<function>      the named repo function that is innermost on most of the 256 stacks sampled on
                                        consecutive steps after the budget tripped (cursor primitives and lambdas
                                        skipped); does not depend on where in the loop body the budget tripped, nor on
                                        which caller owns the loop (the owner is reported in `what`).
       c05:hang:any:killed-by-watchdog  layer c had to kill the child (no stack available).
"""
import itertools
import logging
import multiprocessing as mp
import os
import signal
import sys
import time
import traceback

sys.path.insert(0, os.path.dirname(os.path.dirname(os.path.abspath(__file__))))

from bounded import harness
from bounded.harness import REPO, WORKERS
from bounded import corpus

import sqlglot
from sqlglot import errors as E
from sqlglot.dialects.dialect import Dialect
from sqlglot.errors import ErrorLevel
from sqlglot.parser import Parser
from sqlglot.tokenizer_core import TokenizerCore

logging.getLogger("sqlglot").setLevel(logging.CRITICAL)

ALLOWED = (E.TokenError, E.ParseError, E.UnsupportedError, E.OptimizeError)
LEVELS = ["IGNORE", "WARN", "RAISE", "IMMEDIATE"]
LEVEL = {n: ErrorLevel[n] for n in LEVELS}
EXTRA_TARGETS = ["", "duckdb"]

ITEM_ALARM = 20.0  # in-process wall clock per real call
ITEM_KILL = 30.0  # hard kill of a child stuck on one item (ITEM_ALARM + margin)
_REPO_PREFIX = os.path.abspath(REPO) + os.sep


# ---------------------------------------------------------------------------------------------------
# step budget
class Budget(BaseException):
    """private: raised from the _advance wrappers / the alarm handler.  BaseException on purpose: the tokenizer wraps
    every Exception into TokenError and the parser catches ParseError/TypeError/ValueError in places."""

    def __init__(self, kind, samples):
        super().__init__(kind)
        self.kind = kind
        self.samples = samples


class _State:
    p_steps = 0
    p_limit = 1 << 62
    t_steps = 0
    t_limit = 1 << 62
    over = None  # None | "parser-steps" | "tokenizer-steps" | "wallclock"
    samples = []
    tick = 0
    raised = False  # Budget already thrown: let the stack unwind (finally-blocks call _advance again) undisturbed


S = _State
N_SAMPLES = 256
SAMPLE_EVERY = 1


def budget(n):
    return 2000 + 200 * n * n


def _stack_names(frame):
    """named repo functions on the stack, outermost first"""
    out = []
    while frame is not None:
        co = frame.f_code
        fn = co.co_filename
        if fn.startswith(_REPO_PREFIX):
            out.append(co.co_name)
        frame = frame.f_back
    out.reverse()
    return out


def _over(kind, frame):
    if S.raised:
        return
    if S.over is None:
        S.over = kind
        S.samples = []
        S.tick = 0
    S.tick += 1
    if S.tick % SAMPLE_EVERY == 0:
        S.samples.append(_stack_names(frame))
        if len(S.samples) >= N_SAMPLES:
            S.raised = True
            raise Budget(S.over, list(S.samples))


_ORIG_P_ADVANCE = Parser.__dict__["_advance"]
_ORIG_T_ADVANCE = TokenizerCore.__dict__["_advance"]
if getattr(_ORIG_P_ADVANCE, "_c05_wrapped", False):  # re-import safety
    _ORIG_P_ADVANCE = _ORIG_P_ADVANCE._c05_orig
if getattr(_ORIG_T_ADVANCE, "_c05_wrapped", False):
    _ORIG_T_ADVANCE = _ORIG_T_ADVANCE._c05_orig


def _p_advance(self, times=1):
    S.p_steps += 1
    if S.p_steps > S.p_limit:
        _over("parser-steps", sys._getframe(1))
    return _ORIG_P_ADVANCE(self, times)


def _t_advance(self, i=1, alnum=False):
    S.t_steps += 1
    if S.t_steps > S.t_limit:
        _over("tokenizer-steps", sys._getframe(1))
    return _ORIG_T_ADVANCE(self, i, alnum)


_p_advance._c05_wrapped = True
_p_advance._c05_orig = _ORIG_P_ADVANCE
_t_advance._c05_wrapped = True
_t_advance._c05_orig = _ORIG_T_ADVANCE
Parser._advance = _p_advance
TokenizerCore._advance = _t_advance


def _on_alarm(signum, frame):
    # pure-python loop that does not go through _advance: sample the stack a few times, then abort
    if S.over is None:
        S.over = "wallclock"
        S.samples = []
    S.samples.append(_stack_names(frame))
    if len(S.samples) >= 12 or S.over != "wallclock":
        S.raised = True
        raise Budget(S.over, list(S.samples))
    signal.setitimer(signal.ITIMER_REAL, 0.05)


def install_alarm():
    signal.signal(signal.SIGALRM, _on_alarm)


def guarded(fn, p_limit, t_limit):
    """run fn() under the step budgets and the in-process alarm.
    -> ("ok", value) | ("exc", exception) | ("hang", (kind, samples)); also sets last_steps."""
    S.p_steps = 0
    S.t_steps = 0
    S.p_limit = p_limit
    S.t_limit = t_limit
    S.over = None
    S.samples = []
    S.raised = False
    signal.setitimer(signal.ITIMER_REAL, ITEM_ALARM)
    try:
        try:
            v = fn()
            res = ("ok", v)
        finally:
            signal.setitimer(signal.ITIMER_REAL, 0)
            S.p_limit = S.t_limit = 1 << 62
    except Budget as b:
        return ("hang", (b.kind, b.samples))
    except Exception as e:  # data, classified by the caller
        if S.over is not None:
            return ("hang", (S.over, S.samples))
        return ("exc", e)
    if S.over is not None:  # finished, but only after the budget had been exceeded
        return ("hang", (S.over, S.samples))
    return res


_SKIP_NAMES = {"<lambda>", "<listcomp>", "<genexpr>", "<module>", "_advance", "_retreat", "_advance_any", "_match", "_match_set",
               "_match_pair", "_match_texts", "_match_text_seq", "_match_l_paren", "_match_r_paren", "_curr", "_next", "_prev",
               "expression", "validate_expression", "raise_error", "_add_comments", "_chars", "peek"}


def _innermost_named(stack):
    for nm in reversed(stack):
        if nm not in _SKIP_NAMES:
            return nm
    return "?"


def _loop_owner(samples):
    common = list(samples[0])
    for st in samples[1:]:
        k = 0
        while k < len(common) and k < len(st) and common[k] == st[k]:
            k += 1
        common = common[:k]
    return _innermost_named(common)


def hang_key(phase, kind, samples):
    """key = the named repo function (cursor primitives / lambdas skipped) that is innermost on the largest number of
    the stacks sampled on consecutive steps after the budget tripped; ties -> alphabetical.  The sampling window
    (N_SAMPLES consecutive steps) spans many iterations of a short non-progressing loop, so the key does not depend on
    where in the loop body the budget happened to trip, nor on which caller owns the loop."""
    if not samples:
        return f"c05:hang:{phase}:?"
    cnt = {}
    for st in samples:
        nm = _innermost_named(st)
        cnt[nm] = cnt.get(nm, 0) + 1
    best = sorted(cnt.items(), key=lambda kv: (-kv[1], kv[0]))[0][0]
    return f"c05:hang:{phase}:{best}"


def hang_what(kind, samples):
    return f"budget kind={kind}; loop owner={_loop_owner(samples) if samples else '?'}"


def _recursion_cycle(exc):
    """for RecursionError the innermost frame is arbitrary; use the repeating cycle of repo functions instead."""
    names = []
    for fr in traceback.extract_tb(exc.__traceback__):
        if os.path.abspath(fr.filename).startswith(_REPO_PREFIX):
            names.append(fr.name)
    tail = 8
    for p in range(1, 80):
        a = len(names) - tail - 2 * p
        if a < 0:
            break
        if names[a : a + p] == names[a + p : a + 2 * p] and names[a - p : a] == names[a : a + p]:
            cyc = []
            for nm in names[a : a + p]:
                if nm not in _SKIP_NAMES and nm not in cyc:
                    cyc.append(nm)
            if not cyc:
                continue
            i = cyc.index(min(cyc))
            return ">".join(cyc[i:] + cyc[:i])
    return None


def _tb_phase(exc):
    """phase of an exception that escaped sqlglot.transpile: 'parse' iff Parser._parse is on its traceback"""
    for fr in traceback.extract_tb(exc.__traceback__):
        if fr.name == "_parse" and fr.filename.endswith(os.sep + "parser.py"):
            return "parse"
    return "generate"


def leak_key(exc, phase):
    cls, site = harness.repo_frame_key(exc)
    if isinstance(exc, RecursionError):
        cyc = _recursion_cycle(exc)
        if cyc:
            site = f"cycle({cyc})"
    return f"c05:leak:{cls}:{site}:{phase}"


# ---------------------------------------------------------------------------------------------------
# the contract, one (sql, dialect, levels) item
def check_item(item):
    """item = (sql, dialect, levels tuple).  -> (counts, nontrivial, violations, steps)
    violations: list of (key, what, input dict)."""
    sql, dialect, levels, *more = item  # optional 4th element: one more generation target
    viol = []
    n_tok_calls = n_parse = n_gen = 0
    m = len(sql)
    t_lim = budget(m)

    d = Dialect.get_or_raise(dialect or None)

    # (1) tokenize
    st, val = guarded(lambda: d.tokenize(sql), 1 << 62, t_lim)
    n_tok_calls += 1
    max_t = S.t_steps
    max_p = 0
    ntok = 0
    nontrivial = False
    if st == "ok":
        ntok = len(val)
        nontrivial = ntok > 0
    elif st == "hang":
        viol.append((hang_key("tokenize", *val), f"tokenize exceeded budget ({t_lim} steps, len={m}); {hang_what(*val)}",
                     {"sql": sql, "dialect": dialect, "phase": "tokenize"}))
    elif not isinstance(val, E.TokenError):
        viol.append((leak_key(val, "tokenize"), f"tokenize raised {type(val).__name__}: {str(val)[:120]}",
                     {"sql": sql, "dialect": dialect, "phase": "tokenize"}))
    p_lim = budget(ntok)

    targets = []
    for w in [dialect] + EXTRA_TARGETS + list(more[:1]):
        if w not in targets:
            targets.append(w)

    generated = []  # trees already generated (other levels returning equal trees still get generated: cheap enough)
    for lv in levels:
        # (2) parse ; the tokenizer budget is doubled here because the parser may re-tokenize sub-strings
        st, val = guarded(lambda: sqlglot.parse(sql, read=dialect or None, error_level=LEVEL[lv]), p_lim, 2 * t_lim)
        n_parse += 1
        max_p = max(max_p, S.p_steps)
        inp = {"sql": sql, "dialect": dialect, "level": lv, "phase": "parse"}
        if st == "hang":
            viol.append((hang_key("parse", *val),
                         f"parse exceeded budget (parser {p_lim} steps for {ntok} tokens); {hang_what(*val)}", inp))
            continue
        if st == "exc":
            if not isinstance(val, ALLOWED):
                viol.append((leak_key(val, "parse"), f"parse raised {type(val).__name__}: {str(val)[:120]}", inp))
            continue
        # (3) generate
        for ti, tree in enumerate(val):
            if tree is None:
                continue
            for w in targets:
                st2, val2 = guarded(lambda: tree.sql(dialect=w or None), 1 << 62, 1 << 62)
                n_gen += 1
                if st2 == "ok":
                    continue
                inp2 = {"sql": sql, "dialect": dialect, "level": lv, "phase": "generate", "target": w, "tree": ti}
                if st2 == "hang":
                    viol.append((hang_key("generate", *val2), f"tree.sql(dialect={w!r}) exceeded budget; {hang_what(*val2)}", inp2))
                elif not isinstance(val2, ALLOWED):
                    viol.append((leak_key(val2, "generate"),
                                 f"tree.sql(dialect={w!r}) raised {type(val2).__name__}: {str(val2)[:120]}", inp2))
    # (4) = (2)+(3) through the public one-shot entry point: sqlglot.transpile, identity target, first requested level
    lv = levels[0]
    st, val = guarded(lambda: sqlglot.transpile(sql, read=dialect or None, error_level=LEVEL[lv]), p_lim, 2 * t_lim)
    n_tr = 1
    inp = {"sql": sql, "dialect": dialect, "level": lv, "phase": "transpile"}
    if st == "hang":
        ph = "generate" if val[0] == "wallclock" and not any("_parse" in st_ for smp in val[1] for st_ in smp) else "parse"
        viol.append((hang_key(ph, *val), f"transpile exceeded budget (parser {p_lim} steps for {ntok} tokens); {hang_what(*val)}", inp))
    elif st == "exc" and not isinstance(val, ALLOWED):
        viol.append((leak_key(val, _tb_phase(val)), f"transpile raised {type(val).__name__}: {str(val)[:120]}", inp))
    return (n_tok_calls, n_parse, n_gen, n_tr), nontrivial, viol, (max_t, t_lim, max_p, p_lim)


# ---------------------------------------------------------------------------------------------------
# hang-proof process pool
def _worker(wid, func, task_q, res_q, cur_idx, cur_t0):
    install_alarm()
    while True:
        task = task_q.get()
        if task is None:
            return
        bid, batch = task
        out = []
        for idx, item in batch:
            cur_idx[wid] = idx
            cur_t0[wid] = time.time()
            out.append((idx, func(item)))
        cur_idx[wid] = -1
        cur_t0[wid] = 0.0
        res_q.put((wid, bid, out))


KILLED = "__killed__"


def guarded_map(func, items, batch=64, workers=None, item_kill=ITEM_KILL):
    """map func over items in child processes; returns list r with r[i] = func(items[i]) or KILLED when the child had
    to be killed because it sat on item i for more than item_kill seconds.  Exceptions inside func are checker errors
    and make the child die -> raised here."""
    workers = workers or WORKERS
    items = list(items)
    n = len(items)
    results = [None] * n
    done = [False] * n
    if n == 0:
        return results
    ctx = mp.get_context("fork")
    res_q = ctx.Queue()
    cur_idx = ctx.Array("q", [-1] * workers, lock=False)
    cur_t0 = ctx.Array("d", [0.0] * workers, lock=False)
    pending = []  # batches not yet handed out (LIFO of (bid, batch))
    bid = 0
    for a in range(0, n, batch):
        pending.append((bid, [(i, items[i]) for i in range(a, min(n, a + batch))]))
        bid += 1
    pending.reverse()
    next_bid = [bid]
    procs = [None] * workers
    task_qs = [None] * workers
    inflight = [None] * workers  # (bid, batch)

    def spawn(w):
        task_qs[w] = ctx.Queue()
        cur_idx[w] = -1
        cur_t0[w] = 0.0
        p = ctx.Process(target=_worker, args=(w, func, task_qs[w], res_q, cur_idx, cur_t0), daemon=True)
        p.start()
        procs[w] = p

    def feed(w):
        if pending:
            b = pending.pop()
            inflight[w] = b
            task_qs[w].put(b)
        else:
            inflight[w] = None

    for w in range(workers):
        spawn(w)
        feed(w)
    remaining = n
    last_check = time.time()
    import queue as _queue

    try:
        while remaining > 0:
            try:
                w, b_id, out = res_q.get(timeout=0.5)
            except _queue.Empty:
                w = None
            if w is not None:
                if inflight[w] is not None and inflight[w][0] == b_id:
                    for idx, r in out:
                        if not done[idx]:
                            results[idx] = r
                            done[idx] = True
                            remaining -= 1
                    feed(w)
            now = time.time()
            if w is not None and now - last_check < 1.0:
                continue
            last_check = now
            for w in range(workers):
                if inflight[w] is None:
                    continue
                p = procs[w]
                idx, t0 = cur_idx[w], cur_t0[w]
                stuck = idx >= 0 and t0 > 0 and now - t0 > item_kill
                if stuck or not p.is_alive():
                    if not stuck and p.exitcode not in (None,):
                        # died on its own: checker error unless it was an OOM-style kill while on an item
                        if idx < 0 or p.exitcode > 0:
                            raise RuntimeError(f"worker {w} died with exit code {p.exitcode} (checker error), item index {idx}")
                    p.kill()
                    p.join()
                    b_id, b = inflight[w]
                    if not done[idx]:
                        results[idx] = KILLED
                        done[idx] = True
                        remaining -= 1
                    rest = [(i, it) for i, it in b if not done[i]]
                    # items before the culprit are recomputed (their results died with the child); deterministic
                    if rest:
                        pending.append((next_bid[0], rest))
                        next_bid[0] += 1
                    spawn(w)
                    feed(w)
            # idle workers pick up re-queued work
            for w in range(workers):
                if inflight[w] is None and pending:
                    feed(w)
    finally:
        for w in range(workers):
            p = procs[w]
            if p is not None and p.is_alive():
                try:
                    task_qs[w].put(None)
                except Exception:
                    pass
        t_end = time.time() + 2
        for p in procs:
            if p is not None:
                p.join(max(0.0, t_end - time.time()))
                if p.is_alive():
                    p.kill()
    return results


# ---------------------------------------------------------------------------------------------------
# input space
KEYWORDS = ["SELECT", "FROM", "WHERE", "(", ")", ",", "NOT", "AS", "JOIN", "ON", "BY", "ORDER"]
ALPHABET = ["'", '"', "\\", "-", "/", "*", "(", ";", "a", " "]
ROTATE = 8  # each mutation is run in the base dialect and in ROTATE of the 33 other dialects
ALL4_EVERY = 1  # quick: every k-th input gets all four levels (others IGNORE only)


def soups(maxlen):
    out = []
    for ln in range(0, maxlen + 1):
        for tup in itertools.product(KEYWORDS, repeat=ln):
            out.append(" ".join(tup))
    return out


def char_strings(maxlen):
    out = []
    for ln in range(1, maxlen + 1):
        for tup in itertools.product(ALPHABET, repeat=ln):
            out.append("".join(tup))
    return out


def char_prefixes():
    out, seen = [], set()
    for s in corpus.STATEMENTS:
        for i in range(1, len(s)):
            p = s[:i]
            if p not in seen:
                seen.add(p)
                out.append(p)
    return out


def all_mutations():
    out = []
    for s in corpus.STATEMENTS:
        out.extend(corpus.mutations(s))
    return out


def _rot_dialects(g, others, rotate):
    k = len(others)
    return [others[(g + r * (k // rotate if rotate else 1)) % k] for r in range(rotate)] if rotate < k else list(others)


# repetition families: "work proportional to a small polynomial of the input length" needs inputs whose length GROWS;
# (prefix, repeated fragment, suffix builder) -- k repetitions, k from a fixed list per tier
SCALING = [
    ("SELECT * FROM t", " CROSS JOIN u", lambda k: ""),
    ("SELECT * FROM t", " JOIN u ON t.a = u.a", lambda k: ""),
    ("SELECT * FROM t", " LEFT JOIN u USING (a)", lambda k: ""),
    ("SELECT * FROM t", " JOIN u", lambda k: ""),
    ("SELECT * FROM t", ", u", lambda k: ""),
    ("SELECT * FROM t", " NATURAL JOIN u", lambda k: ""),
    ("SELECT a FROM t WHERE a = 1", " AND b = 2", lambda k: ""),
    ("SELECT a FROM t WHERE a = 1", " OR NOT b = 2", lambda k: ""),
    ("SELECT 1", " + 1", lambda k: ""),
    ("SELECT 'x'", " || 'y'", lambda k: ""),
    ("SELECT a", ", b AS c", lambda k: " FROM t"),
    ("SELECT ", "(", lambda k: "1" + ")" * k),
    ("SELECT ", "f(", lambda k: "1" + ")" * k),
    ("SELECT ", "CAST(", lambda k: "1" + " AS INT)" * k),
    ("SELECT ", "NOT ", lambda k: "a"),
    ("SELECT ", "- ", lambda k: "1"),
    ("SELECT CASE", " WHEN a = 1 THEN 2", lambda k: " END"),
    ("SELECT 1", " UNION ALL SELECT 1", lambda k: ""),
    ("SELECT a FROM t", " LIMIT (SELECT 1", lambda k: ")" * k),
    ("SELECT * FROM ", "(SELECT * FROM ", lambda k: "t" + ") AS s" * k),
    ("WITH c AS (SELECT 1)", ", d AS (SELECT 1)", lambda k: " SELECT * FROM c"),
    ("SELECT a FROM t ORDER BY a", ", b DESC NULLS LAST", lambda k: ""),
    ("SELECT a FROM t GROUP BY a", ", b", lambda k: ""),
    ("SELECT a", "[1]", lambda k: " FROM t"),
    ("SELECT a", ".b", lambda k: " FROM t"),
    ("SELECT a IN (1", ", 2", lambda k: ") FROM t"),
    ("SELECT COALESCE(a", ", b", lambda k: ") FROM t"),
    ("SELECT a FROM t WHERE a BETWEEN 1 AND 2", " AND b BETWEEN 1 AND 2", lambda k: ""),
    ("INSERT INTO t VALUES (1)", ", (2)", lambda k: ""),
    ("CREATE TABLE t (a INT", ", b INT NOT NULL", lambda k: ")"),
    ("SELECT a FROM t WHERE EXISTS (SELECT 1", " WHERE EXISTS (SELECT 1", lambda k: ")" * (k + 1)),
    ("SELECT SUM(a) OVER (PARTITION BY b", ", c", lambda k: ") FROM t"),
    ("SELECT 1", "; SELECT 1", lambda k: ""),
    ("SELECT a FROM t", " /* c */", lambda k: ""),
    ("SELECT '", "''", lambda k: "'"),
]
SCALING_DIALECTS = ["", "duckdb", "snowflake", "bigquery", "tsql", "mysql", "postgres", "clickhouse", "spark", "oracle"]


def scaling_tag(sql):
    """'' for ordinary inputs; for an input of a repetition family, the repeated fragment (so that super-polynomial
    behaviour on one construct is a different finding from the same symptom on another construct)."""
    for pre, frag, _suf in SCALING:
        if sql.startswith(pre + frag * 8):
            return ":rep[" + "_".join(frag.split()) + "]"
    return ""


def scaling(ks):
    out = []
    for pre, frag, suf in SCALING:
        for k in ks:
            out.append(pre + frag * k + suf(k))
    return out


# One statement per `while` loop of the parser(s) that the generic corpus does not reach (dialect-specific option lists,
# routine bodies, dashed names, ...), each with its own dialect: their one-token mutations are the inputs on which a loop whose
# body consumes nothing on some token would spin.  The loop-progress obligations of tier A name the candidates; three of them
# were real (see KNOWN_FINDINGS fixed: e1f0cb8, b74b088).
LOOP_CONSTRUCTS = [
    ("tsql", "CREATE TABLE t (a INT) WITH (SYSTEM_VERSIONING = ON (HISTORY_TABLE = dbo.h, DATA_CONSISTENCY_CHECK = ON, HISTORY_RETENTION_PERIOD = 3 MONTHS))"),
    ("tsql", "CREATE TABLE t (a INT) WITH (DATA_DELETION = ON (FILTER_COLUMN = a, RETENTION_PERIOD = 1 DAY))"),
    ("snowflake", "COPY INTO t FROM @s/path/x FILE_FORMAT = (TYPE = CSV) PATTERN = 'x' ON_ERROR = CONTINUE"),
    ("redshift", "COPY t FROM 's3://b' IAM_ROLE 'r' FORMAT AS JSON 'auto' REGION 'us'"),
    ("postgres", "COPY t (a, b) FROM 'f' WITH (FORMAT csv, HEADER true)"),
    ("", "DESCRIBE copy EXTENDED a . b"),
    ("trino", "WITH FUNCTION f(x INT) RETURNS INT BEGIN DECLARE y INT; SET y = 1; IF x > 1 THEN RETURN 1; ELSEIF x > 2 THEN RETURN 2; ELSE RETURN 3; END IF; "
              "CASE WHEN x = 1 THEN RETURN 1; WHEN x = 2 THEN RETURN 2; END CASE; WHILE y < 3 DO SET y = y + 1; END WHILE; RETURN y; END SELECT f(1)"),
    ("trino", "WITH FUNCTION g(x INT) RETURNS INT BEGIN CASE x WHEN 1 THEN RETURN 1; ELSE RETURN 2; END CASE; l: LOOP LEAVE l; END LOOP; REPEAT SET x = 1; UNTIL x > 1 END REPEAT; RETURN 0; END SELECT g(2)"),
    ("snowflake", "SELECT * FROM SEMANTIC_VIEW(tbl METRICS a.b, a.c DIMENSIONS c.d FACTS e.f WHERE c.d > 1) ORDER BY 1"),
    ("clickhouse", "SELECT COLUMNS('a') APPLY (sum) APPLY (max) FROM t"),
    ("oracle", "SELECT /*+ LEADING(a b) USE_NL(a) INDEX(t i) */ a FROM t"),
    ("bigquery", "SELECT * FROM my-project.my-dataset.my-table"),
    ("snowflake", "SELECT * FROM @db.s/path/to (FILE_FORMAT => 'f')"),
    ("duckdb", "SELECT CAST(a AS INT[3][2]), ARRAY[1, 2]::INT[], x[1][2] FROM t"),
    ("postgres", "SELECT CAST(a AS INT ARRAY[3]), CAST(b AS TEXT ARRAY) FROM t"),
    ("", "SELECT a, b FROM t GROUP BY a, CUBE (b), ROLLUP (a, b), GROUPING SETS ((a), (b)) WITH TOTALS"),
    ("clickhouse", "SELECT a FROM t GROUP BY a WITH ROLLUP WITH CUBE WITH TOTALS"),
    ("snowflake", "SELECT * FROM t PIVOT(SUM(x) FOR y IN ('a', 'b') FOR z IN (1, 2)) AS p"),
    ("", "CREATE TABLE t (a INT, CONSTRAINT c CHECK (a > 1), PRIMARY KEY (a), UNIQUE (a), FOREIGN KEY (a) REFERENCES u (a))"),
    ("teradata", "CREATE TABLE t (a INT) PRIMARY INDEX (a), INDEX (b) , UNIQUE INDEX i (c)"),
    ("oracle", "INSERT ALL WHEN a > 1 THEN INTO t (a) VALUES (1) WHEN a > 2 THEN INTO u VALUES (2) ELSE INTO v VALUES (3) SELECT a FROM w"),
    ("mysql", "UPDATE t SET a = 1, b = 2 FROM u WHERE t.a = u.a ORDER BY a LIMIT 3 RETURNING a"),
    ("clickhouse", "CREATE DICTIONARY d (a INT) PRIMARY KEY a SOURCE(CLICKHOUSE(HOST 'h' PORT 1 TABLE 't')) LIFETIME(MIN 0 MAX 10) LAYOUT(FLAT())"),
    ("", "SELECT a -> b ->> c #> d, x << 1 >> 2 | 3 & 4 ^ 5, a ?? b, a || b FROM t"),
    ("", "SELECT DISTINCT ALL a FROM t UNION ALL SELECT 1 EXCEPT SELECT 2 INTERSECT SELECT 3 ORDER BY 1 LIMIT 1 OFFSET 2 FETCH FIRST 1 ROWS ONLY FOR UPDATE"),
    ("tsql", "BEGIN SELECT 1; IF x = 1 SELECT 2 ELSE SELECT 3; END"),
    ("", "SELECT x -> (a, b) -> a.b.c + b.d FROM t"),
    ("postgres", "CREATE FUNCTION f(x INT) RETURNS INT CALLED ON NULL INPUT LANGUAGE sql IMMUTABLE AS 'SELECT 1'"),
    ("snowflake", "CREATE TABLE t (a INT AUTOINCREMENT START 1 INCREMENT 1, b INT WITH MASKING POLICY p USING (b)) CLUSTER BY (a) COPY GRANTS"),
]


TYPE_NAMES = ["DECIMAL", "NUMERIC", "BIGNUMERIC", "BIGDECIMAL", "DECFLOAT", "NUMBER", "FLOAT", "DOUBLE", "VARCHAR", "CHAR", "NVARCHAR", "BINARY", "VARBINARY", "BIT",
              "INT", "BIGINT", "TIMESTAMP", "TIMESTAMPTZ", "TIME", "DATETIME", "DATETIME2", "DATE", "INTERVAL", "ARRAY", "MAP", "STRUCT", "JSON", "UUID", "GEOGRAPHY"]
TYPE_PARAM_DIALECTS = ["", "bigquery", "snowflake", "duckdb", "postgres", "mysql", "tsql", "clickhouse", "spark", "oracle", "trino", "redshift"]


def type_param_items(tier):
    """every type name with 1..4 (quick) / 1..6 numeric parameters, in CAST and in a column definition: generators index
    per-type tables of parameter bounds / defaults by position, the parser accepts any number of parameters"""
    out = []
    for ty in TYPE_NAMES:
        for k in range(1, 5 if tier == "quick" else 7):
            ps = ", ".join(["20", "4", "4", "1", "2", "3"][:k])
            for d in TYPE_PARAM_DIALECTS:
                out.append((f"SELECT CAST(x AS {ty}({ps})) FROM t", d, ("IMMEDIATE", "IGNORE")))
                out.append((f"CREATE TABLE t (c {ty}({ps}))", d, ("IMMEDIATE",)))
    return out


def function_arity_items(tier):
    """every function name a parser knows (Parser.FUNCTIONS of the base dialect; for the other dialects the names they add or
    override) called with 0..3 (quick) / 0..5 arguments: the builders index their argument lists by position"""
    from sqlglot.dialects.dialect import Dialect as _D

    base = _D.get_or_raise(None).parser_class.FUNCTIONS
    out = []
    for d in corpus.dialects():
        fns = _D.get_or_raise(d or None).parser_class.FUNCTIONS
        names = sorted(n for n, b in fns.items() if d == "" or n not in base or base[n] is not b)
        for n in names:
            if not n.replace("_", "").isalnum():
                continue
            for k in range(0, 4 if tier == "quick" else 6):
                args = ", ".join(["x", "'a'", "1", "y", "2", "z"][:k])
                out.append((f"SELECT {n}({args}) FROM t", d, ("IMMEDIATE",)))
    return out


def loop_construct_items(tier):
    """(sql, dialect, levels): every one-token mutation of each construct in its own dialect"""
    lv = ("IMMEDIATE", "RAISE") if tier == "quick" else tuple(LEVELS)
    out = []
    for d, sql in LOOP_CONSTRUCTS:
        out.append((sql, d, tuple(LEVELS)))
        for m in corpus.mutations(sql, d, kinds=("delete", "trunc", "insert") if tier == "quick" else ("delete", "dup", "swap", "trunc", "insert")):
            out.append((m, d, lv))
    return list(dict.fromkeys(out))


def observed_items():
    from bounded.c05_observed import OBSERVED_LEAKS

    return [(sql, r, tuple(LEVELS), w) for sql, r, w in OBSERVED_LEAKS]


def items_for(tier):
    ds = corpus.dialects()
    others = [d for d in ds if d != ""]
    all4 = tuple(LEVELS)
    ign = ("IGNORE",)
    items = []
    stats = {}
    ob = observed_items()
    items += ob
    stats["observed_leak_statements"] = len(ob)
    # A. unmutated statements: all dialects, all four levels
    a = [(s, d, all4) for s in corpus.STATEMENTS for d in ds]
    items += a
    stats["valid"] = len(a)
    muts = all_mutations()
    pref = char_prefixes()
    if tier == "quick":
        k4 = ALL4_EVERY
        b = []
        for g, m in enumerate(muts):
            lv = all4 if g % k4 == 0 else ign
            b.append((m, "", lv))
            for d in _rot_dialects(g, others, ROTATE):
                b.append((m, d, lv))
        stats["mutations"] = len(b)
        c = []
        for g, m in enumerate(pref):
            lv = all4 if g % k4 == 0 else ign
            c.append((m, "", lv))
            for d in _rot_dialects(g, others, 2):
                c.append((m, d, lv))
        stats["char_prefixes"] = len(c)
        sp = [(x, d, all4) for x in soups(3) for d in ds]
        stats["keyword_soups"] = len(sp)
        ch = [(x, d, all4) for x in char_strings(3) for d in ds]
        stats["char_strings"] = len(ch)
        sc_ = [(x, d, all4 if d == "" else ign) for x in scaling((8, 16, 24)) for d in SCALING_DIALECTS]
        stats["scaling_repetitions"] = len(sc_)
        lc = loop_construct_items(tier)
        stats["loop_construct_mutations"] = len(lc)
        tp = type_param_items(tier)
        stats["type_parameters"] = len(tp)
        fa = function_arity_items(tier)
        stats["function_arities"] = len(fa)
        items += b + c + sp + ch + sc_ + lc + tp + fa
    else:
        b = [(m, d, all4) for m in muts for d in ds]
        stats["mutations"] = len(b)
        c = [(m, d, all4) for m in pref for d in ds]
        stats["char_prefixes"] = len(c)
        sp = [(x, d, all4) for x in soups(4) for d in ds]
        stats["keyword_soups"] = len(sp)
        ch = [(x, d, all4) for x in char_strings(4) for d in ds]
        stats["char_strings"] = len(ch)
        sc_ = [(x, d, all4) for x in scaling((8, 16, 24, 32, 48)) for d in ds]
        stats["scaling_repetitions"] = len(sc_)
        lc = loop_construct_items(tier)
        stats["loop_construct_mutations"] = len(lc)
        tp = type_param_items(tier)
        stats["type_parameters"] = len(tp)
        fa = function_arity_items(tier)
        stats["function_arities"] = len(fa)
        items += b + c + sp + ch + sc_ + lc + tp + fa
    return items, stats


# ---------------------------------------------------------------------------------------------------
def _calibrate():
    """largest budget fraction used by any unmutated corpus statement (all dialects, IGNORE)."""
    install_alarm()
    worst_p = worst_t = 0.0
    for s in corpus.STATEMENTS:
        for d in corpus.dialects():
            _, _, _, (mt, tl, mp_, pl) = check_item((s, d, ("IGNORE",)))
            worst_t = max(worst_t, mt / tl)
            worst_p = max(worst_p, mp_ / pl)
    return {"max_parser_budget_fraction_valid_corpus": round(worst_p, 4),
            "max_tokenizer_budget_fraction_valid_corpus": round(worst_t, 4)}


def _calib_job(_):
    return _calibrate()


def run(tier, seed):
    items, stats = items_for(tier)
    order = list(range(len(items)))
    if seed:
        import random

        random.Random(seed).shuffle(order)
    else:
        # interleave so that expensive families are spread over the batches
        order.sort(key=lambda i: (i * 2654435761) & 0xFFFFFFFF)
    work = [items[i] for i in order]
    calib = harness.pool_map(_calib_job, [0, 1, 2, 3], workers=4)[0]
    res = guarded_map(check_item, work, batch=96)

    viol_by_key = {}
    counts = {}
    levels_seen = {}
    n_tok = n_parse = n_gen = n_tr = 0
    nontrivial = set()
    killed = 0
    worst_p = worst_t = 0.0
    for item, r in zip(work, res):
        sql, dialect, levels = item[:3]
        if r == KILLED:
            killed += 1
            key = "c05:hang:any:killed-by-watchdog" + scaling_tag(sql)
            vs = [(key, f"no answer within {ITEM_KILL}s wall clock even with the in-process alarm (child killed)",
                   {"sql": sql, "dialect": dialect, "levels": list(levels), "phase": "any"})]
            nt = True
        else:
            (a, b, c, t_), nt, vs, (mt_, tl_, mp_, pl_) = r
            tag = scaling_tag(sql)
            if tag:
                vs = [((k_ + tag) if k_.startswith("c05:hang:") else k_, w_, i_) for (k_, w_, i_) in vs]
            if not vs:
                worst_p = max(worst_p, mp_ / pl_)
                worst_t = max(worst_t, mt_ / tl_)
            n_tok += a
            n_parse += b
            n_gen += c
            n_tr += t_
        if nt:
            nontrivial.add((sql, dialect))
        for key, what, inp in vs:
            counts[key] = counts.get(key, 0) + 1
            levels_seen.setdefault(key, set()).add(inp.get("level", "-"))
            lst = viol_by_key.setdefault(key, [])
            # keep the 3 shortest examples (ties: lexicographic) -> deterministic whatever the order / sharding
            lst.append((len(inp["sql"]), inp["sql"], inp.get("dialect", ""), inp.get("level", ""), what, inp))
            lst.sort(key=lambda x: x[:4])
            del lst[3:]
    violations = []
    for key in sorted(viol_by_key):
        for _, _, _, _, what, inp in viol_by_key[key]:
            violations.append({"key": key, "what": what, "input": inp, "count": counts[key],
                               "levels_seen": sorted(levels_seen[key])})
    return {
        "evaluations": n_tok + n_parse + n_gen + n_tr,
        "distinct_nontrivial": len(nontrivial),
        "rule": "distinct (sql, dialect) whose tokenization returned at least one token (so parse/generate were exercised on a non-empty stream)",
        "bound": (f"tier={tier}: {stats}; dialects={len(corpus.dialects())}; levels: all four on every input"
                  if tier != "quick" or ALL4_EVERY == 1 else
                  f"tier={tier}: {stats}; levels IGNORE on all, all four on every {ALL4_EVERY}th")
        + f"; quick: every mutation in base dialect + {ROTATE} rotating dialects, char prefixes base + 2 rotating, soups len<=3 / chars len<=3 in all dialects"
        + "; budget 2000+200*n^2 steps (parser: n tokens; tokenizer: n chars)",
        "exhaustive": True,
        "inputs": len(items),
        "input_families": stats,
        "calibration": dict(calib, max_parser_budget_fraction_any_violation_free_input=round(worst_p, 4),
                            max_tokenizer_budget_fraction_any_violation_free_input=round(worst_t, 4)),
        "killed_by_watchdog": killed,
        "samples": [list(map(str, items[i][:2])) for i in (0, len(items) // 3, len(items) // 2, len(items) - 1)],
        "violations": violations,
        "violation_counts": dict(sorted(counts.items())),
        "contract_evaluations": {"Dialect.tokenize": n_tok, "sqlglot.parse": n_parse, "Expr.sql": n_gen, "sqlglot.transpile": n_tr},
    }


def _replay_job(item):
    return check_item(item)


def replay(entry):
    inp = entry["input"]
    levels = (inp["level"],) if inp.get("level") else tuple(inp.get("levels") or LEVELS)
    item = (inp["sql"], inp.get("dialect", ""), levels) + ((inp["target"],) if inp.get("target") not in (None, "", "duckdb", inp.get("dialect", "")) else ())
    r = guarded_map(_replay_job, [item], batch=1, workers=1)[0]
    if r == KILLED:
        keys = ["c05:hang:any:killed-by-watchdog" + scaling_tag(inp["sql"])]
        whats = ["killed by watchdog"]
    else:
        tag = scaling_tag(inp["sql"])
        keys = [(k + tag) if (tag and k.startswith("c05:hang:")) else k for k, _, _ in r[2]]
        whats = [w for _, w, _ in r[2]]
    hit = entry["key"] in keys
    return {"violated": hit, "observed": "; ".join(f"{k} [{w}]" for k, w in zip(keys, whats)) or "contract holds for this input",
            "keys": keys}


if __name__ == "__main__":
    harness.main(run, replay)
