"""C15 (bounded, relational): determinism across hash seeds, processing order and object reuse.
Runs under /venv/bin/python.

The outputs of one TASK = (function, input, dialect...) are rendered as one string (result text, or
"EXC <Class>: <message>", followed by the "sqlglot" log records the call emitted).  Functions:
  parse      sqlglot.parse(sql, read=d)                       -> repr + .sql(d) of every tree
  transpile  sqlglot.transpile(sql, read=d, write=w)
  optimize   sqlglot.optimizer.optimize(sql, schema=S, dialect=d).sql(d)
  qualify    sqlglot.optimizer.qualify.qualify(parse_one(sql, d), schema=S, dialect=d).sql(d)
  annotate   annotate_types(parse_one(sql, d), schema=S, dialect=d): sql + type of every node in walk order
  simplify   simplify(parse_one(e)).sql(); normalize(parse_one(e), dnf).sql()   (AND/OR chains with repeated, complementary
             and absorbable operands in shuffled orders: uniq_sort / absorb_and_eliminate / remove_complements walk sets)
  lineage    lineage(col, sql, schema=S): (name, source sql, expression sql) of every node in walk order

(A) hashseed  worker subprocesses with PYTHONHASHSEED in SEEDS run all tasks in order 0: per task the outputs are
              byte-identical across seeds.
(B) order     worker subprocesses (PYTHONHASHSEED=0) run all tasks in three other fixed permutations (reversed; stride
              permutation; by function, dialects innermost): per task byte-identical to order 0.  Every worker also
              re-runs its first REPEAT tasks at the end: identical to its own first answer (same process, later).
(C) reuse     per dialect (subprocess each): ONE Tokenizer, Parser (error levels IMMEDIATE, RAISE, WARN), Generator
              (default; unsupported_level=RAISE; pretty+identify), Dialect instance and MappingSchema serve all inputs in
              sequence -- valid statements, generated-alias inputs (presto UNNEST alias, bigquery pipe syntax: the parser's
              _pipe_cte_counter; JSON functions toggling the bigquery generator's _quote_json_path_key_using_brackets),
              multi-statement scripts, inputs that fail midway (truncated / one token inserted) and inputs with unsupported
              features (Generator.unsupported_messages) -- and every answer equals that of a fresh object:
                Tokenizer.tokenize(sql) token by token (type, text, line, col, start, end, comments) or same TokenError;
                Parser.parse(tokens, sql): reprs of the trees, or same ParseError text; Parser.errors afterwards (WARN);
                Generator.generate(tree): text + log records, or same UnsupportedError text;
                Dialect.parse / Dialect.transpile / Dialect.generate through one long-lived instance;
                optimize / qualify / annotate_types with one long-lived MappingSchema vs a fresh one per call, and the
                schema's own answers (column_names, get_column_type, find) interleaved.
              Earlier answers of the reused objects are re-rendered at the end: they must not have been mutated by later calls.
Per-call state read from the code: Parser.reset (sql, errors, _tokens, _index, _curr/_next/_prev, _prev_comments,
_pipe_cte_counter, _chunks, _chunk_index, _node_count; Athena keeps two inner parsers), TokenizerCore.reset, Generator.generate
(unsupported_messages, _next_name; no_identify toggles self.identify; bigquery toggles _quote_json_path_key_using_brackets).

Keys: c15:<clause>:<function>:<cause>
  clause  hashseed | order | reuse-parser | reuse-generator | reuse-tokenizer | reuse-dialect | reuse-schema
  cause   hashseed/order: same-tokens-reordered | different-text | exception-vs-result | log-records-differ
          (+ ":later-in-same-process" for the repeat check); reuse: what differs (tree | error | errors-list | text |
          log-records | tokens | earlier-answer-mutated) + ":after-aborted-call" when the previous call on the object raised
"""
import json
import logging
import os
import random
import re
import subprocess
import sys
import tempfile

sys.path.insert(0, os.path.dirname(os.path.dirname(os.path.abspath(__file__))))

from bounded import harness  # noqa: E402
from bounded import corpus  # noqa: E402

import sqlglot  # noqa: E402
from sqlglot import exp  # noqa: E402
from sqlglot.dialects.dialect import Dialect  # noqa: E402
from sqlglot.errors import ErrorLevel  # noqa: E402
from sqlglot.lineage import lineage  # noqa: E402
from sqlglot.optimizer import optimize  # noqa: E402
from sqlglot.optimizer.annotate_types import annotate_types  # noqa: E402
from sqlglot.optimizer.normalize import normalize  # noqa: E402
from sqlglot.optimizer.qualify import qualify  # noqa: E402
from sqlglot.optimizer.simplify import simplify  # noqa: E402
from sqlglot.schema import MappingSchema  # noqa: E402

SEEDS_QUICK = ["0", "1", "12345"]
SEEDS_THOROUGH = ["0", "1", "2", "12345", "987654321"]
DIALECTS6 = ["", "bigquery", "duckdb", "mysql", "postgres", "snowflake", "athena", "trino"]
TARGETS4 = ["spark", "tsql", "oracle", "clickhouse"]
REUSE_DIALECTS_QUICK = ["", "bigquery", "presto", "duckdb", "mysql", "snowflake", "athena", "tsql", "postgres", "spark", "hive", "oracle",
                        "clickhouse", "trino", "redshift", "sqlite", "risingwave"]
REPEAT = 400

SCHEMA = {
    "t": {"a": "int", "b": "int", "c": "boolean", "d": "date", "id": "int", "x": "int", "s": "varchar"},
    "u": {"a": "int", "b": "int", "c": "int", "id": "int"},
    "v": {"a": "int", "b": "int", "c": "int", "id": "int", "x": "int"},
}

SCHEMA_STRUCT = {"events": {"id": "INT", "payload": "STRUCT<user_id INT, tags STRUCT<a INT, b TEXT>>"}}
SCHEMA_NESTED = {
    "db1": {"t": {"a": "int", "b": "int"}, "w": {"a": "int"}},
    "db2": {"t": {"a": "varchar", "c": "int"}},
}

SET_ORDER_QUERIES = [
    ("SELECT * FROM (SELECT a, b, c FROM t INNER UNION ALL BY NAME SELECT c, b, a FROM u) AS s", "duckdb"),
    ("SELECT * FROM (SELECT a, b, c FROM t FULL UNION BY NAME SELECT id, c, b FROM u) AS s", "duckdb"),
    ("SELECT * FROM (SELECT a, b, c FROM t LEFT UNION ALL BY NAME SELECT c, id FROM u) AS s", "duckdb"),
    ("SELECT * FROM t JOIN u USING (a, b, c, id) JOIN v USING (id, c, a)", ""),
    ("SELECT * FROM t, u, v WHERE t.a = u.a(+) AND u.b(+) = v.b AND t.c = v.c(+)", "oracle"),
    # the FROM table itself carries the mark: the rewrite has to pick a new FROM table among the remaining ones
    ("SELECT * FROM t, u, v WHERE t.id (+) = u.id AND v.x = u.x", "oracle"),
    ("SELECT * FROM t, u, v, w WHERE t.id (+) = v.id AND w.x = u.x", "oracle"),
    ("SELECT t.*, u.*, v.* FROM t NATURAL JOIN u NATURAL JOIN v", ""),
    ("SELECT * EXCLUDE (a, b) REPLACE (c + 1 AS c) FROM t", "duckdb"),
]

TYPE_QUERIES = [
    "SELECT DECODE(x, 1, 's', 2, 0) + 'b', DECODE(x, 1, d, 2, 0, 'z'), DECODE(x, 1, c, 2, s, 3, a) FROM t",
    "SELECT COALESCE(s, a, d) + 'b', IFF(c, s, a) + 'b', NVL2(s, a, d), NVL(s, a), IFNULL(d, a), NULLIF(s, a) FROM t",
    "SELECT GREATEST(a, s, d), LEAST(d, a, s), CASE WHEN c THEN s WHEN a > 1 THEN a ELSE d END + 'b', IF(c, d, s) FROM t",
    "SELECT [a, s, d], ARRAY(a, s, d), ARRAY_CONSTRUCT(a, s, d), MAP(s, a), STRUCT(a, s, d) FROM t",
    "SELECT a FROM t UNION ALL SELECT s FROM t UNION ALL SELECT d FROM t",
    "SELECT a + s, s || a, d + a, a / s, c AND a, CONCAT(a, s, d), a IN (s, d, 1) FROM t",
]

OPT_QUERIES = [
    "SELECT t.a, u.b, v.c FROM t JOIN u ON t.id = u.id JOIN v ON u.id = v.id WHERE t.a > 1 AND u.b < 2 AND v.c = 3 AND t.x = v.x",
    "SELECT * FROM t, u, v WHERE t.id = u.id AND u.id = v.id AND v.a = t.a AND t.b = 1 AND u.c = 2",
    "WITH c1 AS (SELECT a, b FROM t), c2 AS (SELECT a, c FROM u), c3 AS (SELECT a FROM v), c4 AS (SELECT a FROM c3) SELECT c1.a, c2.c FROM c1 JOIN c2 ON c1.a = c2.a JOIN c4 ON c4.a = c1.a",
    "SELECT a, (SELECT MAX(b) FROM u WHERE u.a = t.a) AS m, (SELECT MIN(c) FROM v WHERE v.a = t.a AND v.b = t.b) AS n FROM t WHERE EXISTS (SELECT 1 FROM u WHERE u.id = t.id) AND t.a IN (SELECT a FROM v)",
    "SELECT s.a, s.b FROM (SELECT a, b, x FROM t WHERE x > 1) AS s JOIN (SELECT a, c FROM u WHERE c < 5) AS r ON s.a = r.a WHERE s.b = 1 AND r.c = 2 AND s.x + r.c > 3",
    "SELECT a, SUM(b) AS sb, COUNT(DISTINCT x) AS n FROM t GROUP BY a HAVING SUM(b) > 1 AND COUNT(*) > 2 ORDER BY sb DESC, a LIMIT 10",
    "SELECT t.a FROM t LEFT JOIN u ON t.id = u.id AND u.b = 1 LEFT JOIN v ON v.id = t.id WHERE v.a IS NULL OR u.c > 2",
    "SELECT a FROM t WHERE (a = 1 AND b = 2) OR (a = 1 AND x = 3) OR (b = 2 AND x = 3 AND a = 1)",
    "SELECT a FROM t UNION SELECT a FROM u UNION ALL SELECT a FROM v EXCEPT SELECT a FROM t WHERE b = 1",
    "SELECT t.*, u.* FROM t CROSS JOIN u WHERE t.a = u.a AND t.b = u.b AND t.id = u.id",
    "WITH r AS (SELECT a, b FROM t WHERE a = 1), q AS (SELECT a, b FROM r WHERE b = 2) SELECT q.a FROM q JOIN r ON q.a = r.a JOIN t ON t.a = q.a",
    "SELECT a, b, ROW_NUMBER() OVER (PARTITION BY a, x ORDER BY b, id) AS rn FROM t QUALIFY rn = 1",
    "SELECT CASE WHEN a = 1 AND b = 2 AND x = 3 THEN 1 WHEN b = 2 OR a = 1 OR x = 3 THEN 2 ELSE 3 END AS k, COALESCE(a, b, x) AS c FROM t",
    "SELECT a FROM t WHERE a = 1 AND b = a AND x = b AND id = x",
    "SELECT u.a, v.b, t.x FROM v JOIN t ON v.x = t.x JOIN u ON u.a = v.a AND u.b = t.b WHERE t.a = 1 OR (u.b = 2 AND v.c = 3)",
    "SELECT x.a, y.a, z.a FROM t AS x JOIN t AS y ON x.id = y.id JOIN t AS z ON y.id = z.id WHERE x.a = 1 AND y.b = 2 AND z.x = 3",
    "SELECT a FROM t WHERE a IN (3, 1, 2, 1, 3) AND b NOT IN (5, 4) AND x BETWEEN 1 AND 10",
    "SELECT DISTINCT a, b FROM (SELECT DISTINCT a, b, x FROM t) AS s ORDER BY b, a",
    "SELECT a, b FROM t AS t1 WHERE b > (SELECT AVG(b) FROM t AS t2 WHERE t2.a = t1.a) AND a < ALL (SELECT a FROM u)",
    "SELECT d, DATE_TRUNC('month', d) AS m, s || 'x' AS sx, CAST(a AS VARCHAR) AS ca FROM t WHERE d > CAST('2020-01-01' AS DATE) AND c",
]

LINEAGE_QUERIES = [
    ("a", "SELECT a FROM t"),
    ("k", "SELECT a + b AS k FROM t"),
    ("k", "SELECT s.a + r.c AS k FROM (SELECT a, b FROM t) AS s JOIN (SELECT a, c FROM u) AS r ON s.a = r.a"),
    ("a", "WITH c AS (SELECT a, b FROM t) SELECT c1.a FROM c AS c1 JOIN c AS c2 ON c1.a = c2.b"),
    ("a", "SELECT a FROM t UNION SELECT a FROM u UNION ALL SELECT b FROM v"),
    ("m", "SELECT (SELECT MAX(b) FROM u WHERE u.a = t.a) AS m FROM t"),
    ("a", "SELECT * FROM (SELECT * FROM (SELECT a, b, x FROM t) AS i) AS o"),
    ("x", "SELECT s.x FROM (SELECT a FROM t) AS s(x)"),
    ("k", "SELECT COALESCE(t.a, u.a, v.a) + t.b * u.c - v.x AS k FROM t JOIN u ON t.id = u.id JOIN v ON v.id = u.id"),
    ("k", "WITH c1 AS (SELECT a, b FROM t), c2 AS (SELECT a, c FROM u), c3 AS (SELECT c1.a, c2.c, c1.b FROM c1 JOIN c2 ON c1.a = c2.a) SELECT a + c + b AS k FROM c3"),
    ("n", "SELECT a, COUNT(*) AS n FROM t GROUP BY a"),
    ("a", "SELECT a FROM t INTERSECT SELECT a FROM (SELECT a FROM u EXCEPT SELECT a FROM v) AS e"),
    ("k", "SELECT CASE WHEN t.a > u.b THEN t.x ELSE u.c END AS k FROM t, u"),
    ("rn", "SELECT ROW_NUMBER() OVER (PARTITION BY a, x ORDER BY b, id) AS rn FROM t"),
    ("b", "SELECT t.a, u.b FROM t JOIN u USING (id)"),
    ("k", "SELECT x.a + y.b + z.x AS k FROM t AS x, t AS y, t AS z"),
    ("k", "SELECT (SELECT SUM(v.a + v.b + v.c) FROM v) + (SELECT SUM(u.a + u.b) FROM u) AS k FROM t"),
    ("a", "SELECT a FROM (SELECT a FROM t UNION SELECT b FROM t UNION SELECT x FROM t UNION SELECT id FROM t) AS q"),
    ("k", "WITH c AS (SELECT a AS k FROM t UNION ALL SELECT b FROM u) SELECT k FROM c WHERE k IN (SELECT a FROM v)"),
    ("a", "SELECT o.a FROM (SELECT i.a FROM (SELECT t.a FROM t JOIN u ON t.id = u.id) AS i JOIN v ON i.a = v.a) AS o"),
]

EXTRA_STATEMENTS = [
    # order / process-state sensitive constructs: modifiers collected from a set, a keyword registered while a clause is parsed
    "SELECT 1 UNION SELECT 2 ORDER BY 1 LIMIT 1 OFFSET 2",
    "SELECT prior a FROM t",
    "SELECT a FROM t START WITH a = 1 CONNECT BY PRIOR a = b",
    "SELECT a FROM t CONNECT BY PRIOR a = (",
    "SELECT JSON_EXTRACT(j, '$.a[*].b'), JSON_EXTRACT(j, '$.order-id') FROM t",
    "SELECT * FROM UNNEST(x) AS (a)",
    "SELECT * FROM UNNEST(x) AS (a), UNNEST(y) AS (b)",
    "FROM t |> SELECT a",
    "FROM t |> WHERE a > 1 |> SELECT a, b |> AGGREGATE SUM(b) AS s GROUP BY a",
    "SELECT JSON_EXTRACT(j, '$.a.b'), JSON_VALUE(j, '$.\"k k\"'), JSON_EXTRACT_SCALAR(j, '$.x') FROM t",
    "SELECT /*+ BROADCAST(t) */ a FROM t",
    "SELECT a FROM t; SELECT b FROM u; SELECT c FROM v",
    "SELECT a /* c1 */ FROM t /* c2 */; /* c3 */ SELECT 2",
    "SELECT a FROM t QUALIFY ROW_NUMBER() OVER (PARTITION BY b ORDER BY c) = 1",
    "SELECT ARRAY_AGG(a ORDER BY b) FILTER (WHERE c) FROM t",
    "SELECT a FROM t MATCH_RECOGNIZE (PARTITION BY a ORDER BY b MEASURES x AS y PATTERN (A B+) DEFINE A AS a > 1)",
    "SELECT x -> x + 1, TRANSFORM(arr, y -> y * 2) FROM t",
    "CREATE TABLE t (a INT) WITH (format = 'parquet')",
    "SELECT * FROM t AS OF TIMESTAMP '2020-01-01'",
    "SELECT a FROM VALUES (1), (2) AS v(a)",
]

_ADDR = re.compile(r" at 0x[0-9a-fA-F]+")


def norm(s):
    return _ADDR.sub(" at 0x?", s)


# ---------------------------------------------------------------------------------------------------- log capture
class _Cap(logging.Handler):
    def __init__(self):
        super().__init__(level=logging.DEBUG)
        self.records = []

    def emit(self, record):
        self.records.append(f"{record.levelname}:{norm(record.getMessage())}")


CAP = _Cap()


def arm_logging():
    lg = logging.getLogger("sqlglot")
    lg.setLevel(logging.WARNING)
    lg.propagate = False
    lg.handlers[:] = [CAP]


def captured(fn):
    """(text | 'EXC <Class>: message', [log records])"""
    CAP.records = []
    try:
        out = fn()
    except Exception as e:  # data
        out = f"EXC {type(e).__name__}: {norm(str(e))}"
    return out, list(CAP.records)


def render(fn):
    out, logs = captured(fn)
    return out + ("".join("\nLOG " + r for r in logs))


# ---------------------------------------------------------------------------------------------------- tasks
def bool_expressions(n=300):
    atoms = ["a = 1", "b > 2", "c IS NULL", "NOT d", "e < 5", "a = b", "f IN (1, 2)", "x", "y", "z", "a <> 1", "b <= 2",
             "NOT x", "NOT y", "c IS NOT NULL", "g LIKE 'k%'", "a = 1 AND x", "y OR z", "h BETWEEN 1 AND 3", "a > b"]
    out = []
    for i in range(n):
        rnd = random.Random(1000 + i)
        k = rnd.randint(3, 9)
        ops = [rnd.choice(atoms) for _ in range(k)]
        if i % 3 == 0:
            ops.append(ops[0])  # duplicate
        if i % 4 == 0:
            ops.append(f"NOT ({ops[1]})")  # complement
        conn, other = (" AND ", " OR ") if i % 2 == 0 else (" OR ", " AND ")
        if i % 5 == 0:
            ops.append(f"({ops[0]}{other}{ops[2]})")  # absorbable
        if i % 7 == 0:
            ops.append(f"(({ops[1]}){other}({ops[2]}){other}({rnd.choice(atoms)}))")
        rnd.shuffle(ops)
        out.append(conn.join(f"({o})" for o in ops))
    return out


def selects():
    return [s for s in corpus.STATEMENTS if s.startswith(("SELECT", "WITH")) and ";" not in s]


def build_tasks():
    tasks = []
    stmts = corpus.STATEMENTS + EXTRA_STATEMENTS
    for s in stmts:
        for d in DIALECTS6:
            tasks.append(("parse", s, d))
    for s in stmts:
        for d in DIALECTS6:
            for w in TARGETS4:
                tasks.append(("transpile", s, d, w))
    for s in OPT_QUERIES + selects():
        for d in ("", "bigquery", "snowflake"):
            tasks.append(("optimize", s, d))
            tasks.append(("qualify", s, d))
            tasks.append(("annotate", s, d))
    # constructs whose optimizer code path computes a collection of names / tables (set operations BY NAME, join marks, USING
    # chains, star over several sources): the order of the result must not come from a set
    for s, d in SET_ORDER_QUERIES:
        tasks.append(("optimize", s, d))
        tasks.append(("qualify", s, d))
        for w in ("postgres", "duckdb", "spark"):  # generator-side rewrites (BY NAME emulation, star modifiers)
            tasks.append(("transpile", s, d, w))
    for d in DIALECTS6:
        if d:
            tasks.append(("define-dialect", d))
    # expressions whose type is folded from several branch types of DIFFERENT families (the fold must not run over a set)
    for s in TYPE_QUERIES:
        for d in ("", "snowflake", "bigquery", "duckdb", "spark", "postgres", "tsql"):
            tasks.append(("annotate", s, d))
            tasks.append(("optimize", s, d))
    # the public tree transforms that compute collections of tables / columns
    for s, d in SET_ORDER_QUERIES + [(q, "") for q in OPT_QUERIES]:
        for name in ("eliminate_join_marks", "eliminate_qualify", "eliminate_distinct_on", "unnest_to_explode", "explode_projection_to_unnest",
                     "eliminate_semi_and_anti_joins", "eliminate_full_outer_join", "move_ctes_to_top_level", "unqualify_columns", "remove_unique_constraints",
                     "ctas_with_tmp_tables_to_create_tmp_view", "move_schema_columns_to_partitioned_by", "epoch_cast_to_ts", "any_to_exists"):
            tasks.append(("transform", s, d, name))
    for i, e in enumerate(bool_expressions()):
        tasks.append(("simplify", e, "plain"))
        if i % 3 == 0:
            tasks.append(("simplify", e, "cnf"))
            tasks.append(("simplify", e, "dnf"))
    for col, q in LINEAGE_QUERIES:
        tasks.append(("lineage", q, col))
    return tasks


_USER_DIALECTS = []


def run_task(task):
    kind = task[0]
    if kind == "parse":
        _, s, d = task
        return render(lambda: "\n".join("None" if t is None else norm(repr(t)) + " ;; " + t.sql(dialect=d or None) for t in sqlglot.parse(s, read=d or None)))
    if kind == "transpile":
        _, s, d, w = task
        return render(lambda: "\n".join(sqlglot.transpile(s, read=d or None, write=w)))
    if kind == "define-dialect":
        # a user-defined dialect derived from a built-in one (own generator subclass with a narrower JSON-path repertoire, nothing else):
        # defining it must not change what the built-in dialect does afterwards (the order clause compares the tasks around it)
        _, d = task
        from sqlglot import exp as _exp
        from sqlglot.dialects.dialect import Dialect as _D

        base = _D.get_or_raise(d).__class__
        gen = type("Generator", (base.generator_class,), {"SUPPORTED_JSON_PATH_PARTS": {_exp.JSONPathKey, _exp.JSONPathRoot, _exp.JSONPathSubscript}})
        _USER_DIALECTS.append(type(f"User{base.__name__}{len(_USER_DIALECTS)}", (base,), {"Generator": gen}))
        return "defined"
    if kind == "transform":
        _, s, d, name = task
        from sqlglot import transforms as _tf

        return render(lambda: getattr(_tf, name)(sqlglot.parse_one(s, read=d or None)).sql(dialect=d or None))
    if kind == "optimize":
        _, s, d = task
        return render(lambda: optimize(s, schema=SCHEMA, dialect=d or None).sql(dialect=d or None))
    if kind == "qualify":
        _, s, d = task
        return render(lambda: qualify(sqlglot.parse_one(s, read=d or None), schema=SCHEMA, dialect=d or None).sql(dialect=d or None))
    if kind == "annotate":
        _, s, d = task

        def f():
            tree = annotate_types(sqlglot.parse_one(s, read=d or None), schema=SCHEMA, dialect=d or None)
            return tree.sql(dialect=d or None) + " ;; " + " ".join(f"{type(n).__name__}:{n.type.sql() if n.type else '-'}" for n in tree.walk())

        return render(f)
    if kind == "simplify":
        _, e, mode = task
        if mode == "plain":
            return render(lambda: simplify(sqlglot.parse_one(e)).sql())
        return render(lambda: normalize(sqlglot.parse_one(e), dnf=(mode == "dnf")).sql())
    if kind == "lineage":
        _, q, col = task

        def f():
            node = lineage(col, q, schema=SCHEMA)
            return " | ".join(f"{n.name} <- {n.source.sql()} <- {n.expression.sql()} [{len(n.downstream)}]" for n in node.walk())

        return render(f)
    raise ValueError(kind)


def permutation(n, order):
    idx = list(range(n))
    if order == 1:
        return idx[::-1]
    if order == 2:
        return sorted(idx, key=lambda i: (i * 7919) % n if n % 7919 else i)
    if order == 3:
        return sorted(idx, key=lambda i: (i % 97, -i))
    return idx


# ---------------------------------------------------------------------------------------------------- workers
def worker_transcript(order, out_path):
    arm_logging()
    tasks = build_tasks()
    perm = permutation(len(tasks), order)
    out = {}
    for i in perm:
        out[i] = run_task(tasks[i])
    again = {i: run_task(tasks[i]) for i in perm[:REPEAT]}
    json.dump({"outputs": {str(k): v for k, v in out.items()}, "again": {str(k): v for k, v in again.items()},
               "hashseed": os.environ.get("PYTHONHASHSEED"), "order": order}, open(out_path, "w"))


def tok_snapshot(tokens):
    return [(t.token_type.name, t.text, t.line, t.col, t.start, t.end, list(t.comments or [])) for t in tokens]


def tree_snapshot(trees):
    return [None if t is None else norm(repr(t)) for t in trees]


def broken(s):
    out = []
    tr = corpus.mutations(s, kinds=("trunc",))
    if tr:
        out.append(tr[-1])
        out.append(tr[len(tr) // 2])
    ins = corpus.mutations(s, kinds=("insert",))
    if ins:
        out.append(ins[len(ins) // 2])
    return out


def reuse_inputs():
    out = []
    for s in corpus.STATEMENTS + EXTRA_STATEMENTS:
        out.append(s)
        out += broken(s)
    # the generated-name inputs again, after everything else (their counters must restart)
    out += EXTRA_STATEMENTS[:4] + EXTRA_STATEMENTS[:4]
    return out


def worker_reuse(dname, out_path):
    arm_logging()
    viol = []
    counts = {}
    d_long = Dialect.get_or_raise(dname or None)

    def fresh_dialect():
        return Dialect.get_or_raise(dname or None)

    def V(clause, func, cause, what, inp):
        viol.append({"key": f"c15:{clause}:{func}:{cause}", "what": what, "input": dict(inp, dialect=dname, clause=clause)})

    def count(name):
        counts[name] = counts.get(name, 0) + 1

    tok_long = d_long.tokenizer()
    levels = {"immediate": ErrorLevel.IMMEDIATE, "raise": ErrorLevel.RAISE, "warn": ErrorLevel.WARN}
    parsers = {k: d_long.parser(error_level=v) for k, v in levels.items()}
    gen_opts = {"default": {}, "raise": {"unsupported_level": ErrorLevel.RAISE}, "pretty": {"pretty": True, "identify": True}}
    gens = {k: d_long.generator(**o) for k, o in gen_opts.items()}
    aborted = {}  # object name -> did its previous call raise
    kept = []  # (object name, live result object, snapshot function, snapshot then, sql)

    def after(name, raised):
        was = aborted.get(name, False)
        aborted[name] = raised
        return ":after-aborted-call" if was else ""

    inputs = reuse_inputs()
    for n, sql in enumerate(inputs):
        inp = {"n": n, "sql": sql}
        # --- tokenizer
        f_tok, _ = captured(lambda: fresh_dialect().tokenizer().tokenize(sql))
        r_tok, _ = captured(lambda: tok_long.tokenize(sql))
        count("Tokenizer.tokenize")
        fs = f_tok if isinstance(f_tok, str) else tok_snapshot(f_tok)
        rs = r_tok if isinstance(r_tok, str) else tok_snapshot(r_tok)
        sfx = after("tokenizer", isinstance(r_tok, str))
        if fs != rs:
            V("reuse-tokenizer", "parse", "tokens" + sfx, f"reused Tokenizer: {str(rs)[:120]} fresh: {str(fs)[:120]}", inp)
        if isinstance(f_tok, str):
            continue
        if not isinstance(r_tok, str) and n % 5 == 0:
            kept.append(("reuse-tokenizer", r_tok, tok_snapshot, rs, sql))
        # --- parser (three error levels)
        trees_for_gen = None
        for lname, level in levels.items():
            fp = fresh_dialect().parser(error_level=level)
            # fresh token objects for every call: the parser may edit Token.comments in place
            f_out, f_logs = captured(lambda: fp.parse(fresh_dialect().tokenize(sql), sql))
            rp = parsers[lname]
            r_out, r_logs = captured(lambda: rp.parse(fresh_dialect().tokenize(sql), sql))
            count("Parser.parse")
            sfx = after("parser-" + lname, isinstance(r_out, str))
            if isinstance(f_out, str) or isinstance(r_out, str):
                if f_out != r_out:
                    V("reuse-parser", "parse", f"error:{lname}" + sfx, f"reused Parser({lname}): {str(r_out)[:150]!r} fresh: {str(f_out)[:150]!r}", inp)
            else:
                if tree_snapshot(f_out) != tree_snapshot(r_out):
                    V("reuse-parser", "parse", f"tree:{lname}" + sfx, f"reused Parser({lname}): {tree_snapshot(r_out)!s:.150} fresh: {tree_snapshot(f_out)!s:.150}", inp)
                if lname == "immediate":
                    trees_for_gen = [t for t in f_out if t is not None]
                    if n % 5 == 0:
                        kept.append(("reuse-parser", r_out, tree_snapshot, tree_snapshot(r_out), sql))
            if [norm(str(e)) for e in fp.errors] != [norm(str(e)) for e in rp.errors]:
                V("reuse-parser", "parse", f"errors-list:{lname}" + sfx, f"Parser.errors after the call: reused {len(rp.errors)} fresh {len(fp.errors)}", inp)
            if f_logs != r_logs:
                V("reuse-parser", "parse", f"log-records:{lname}" + sfx, f"reused {r_logs[:2]} fresh {f_logs[:2]}", inp)
        # --- dialect object
        for func, call in (("parse", lambda dd: tree_snapshot(dd.parse(sql))), ("transpile", lambda dd: dd.transpile(sql))):
            f_out = captured(lambda: call(fresh_dialect()))
            r_out = captured(lambda: call(d_long))
            count("Dialect." + func)
            sfx = after("dialect-" + func, isinstance(r_out[0], str))
            if f_out != r_out:
                V("reuse-dialect", func, ("log-records" if f_out[0] == r_out[0] else "text") + sfx, f"long-lived Dialect: {str(r_out)[:150]} fresh: {str(f_out)[:150]}", inp)
        if not trees_for_gen:
            continue
        # --- generator: trees of this dialect and of the base dialect (more unsupported features)
        base_trees, _ = captured(lambda: [t for t in Dialect.get_or_raise(None).parse(sql) if t is not None])
        sources = [("own", trees_for_gen)] + ([("base", base_trees)] if dname and not isinstance(base_trees, str) else [])
        for origin, trees in sources:
            for ti, tree in enumerate(trees):
                for gname, opts in gen_opts.items():
                    f_out = captured(lambda: fresh_dialect().generator(**opts).generate(tree))
                    r_out = captured(lambda: gens[gname].generate(tree))
                    count("Generator.generate")
                    sfx = after("generator-" + gname, r_out[0].startswith("EXC "))
                    if f_out != r_out:
                        cause = "log-records" if f_out[0] == r_out[0] else "text"
                        V("reuse-generator", "generate", f"{cause}:{gname}" + sfx,
                          f"reused Generator({gname}) on {origin} tree {ti}: {str(r_out)[:150]} fresh: {str(f_out)[:150]}", dict(inp, origin=origin, tree=ti))
                f_out = captured(lambda: fresh_dialect().generate(tree))
                r_out = captured(lambda: d_long.generate(tree))
                count("Dialect.generate")
                if f_out != r_out:
                    V("reuse-dialect", "generate", "text", f"long-lived Dialect.generate: {str(r_out)[:150]} fresh: {str(f_out)[:150]}", dict(inp, origin=origin, tree=ti))
    # earlier answers must still read the same
    for clause, obj, snap, then, sql in kept:
        if snap(obj) != then:
            V(clause, "parse", "earlier-answer-mutated", "an answer returned earlier by the reused object changed after later calls", {"n": -1, "sql": sql})
    # --- schema
    s_long = MappingSchema(SCHEMA, dialect=dname or None)
    probes = [("column_names", lambda sc: sc.column_names("t")), ("column_names", lambda sc: sc.column_names(exp.to_table("u"))),
              ("get_column_type", lambda sc: sc.get_column_type("t", "a").sql()), ("get_column_type", lambda sc: sc.get_column_type("v", "x").sql()),
              ("find", lambda sc: sc.find(exp.to_table("u"))), ("has_column", lambda sc: sc.has_column("t", "zz"))]
    for n, sql in enumerate(OPT_QUERIES + selects()):
        inp = {"n": n, "sql": sql}
        calls = (
            ("optimize", lambda sc: optimize(sql, schema=sc, dialect=dname or None).sql(dialect=dname or None)),
            ("qualify", lambda sc: qualify(sqlglot.parse_one(sql, read=dname or None), schema=sc, dialect=dname or None).sql(dialect=dname or None)),
            ("annotate", lambda sc: " ".join(f"{type(x).__name__}:{x.type.sql() if x.type else '-'}" for x in
                                             annotate_types(sqlglot.parse_one(sql, read=dname or None), schema=sc, dialect=dname or None).walk())),
        )
        for func, call in calls:
            f_out = captured(lambda: call(MappingSchema(SCHEMA, dialect=dname or None)))
            r_out = captured(lambda: call(s_long))
            count(func + "(schema)")
            if f_out != r_out:
                V("reuse-schema", func, "log-records" if f_out[0] == r_out[0] else "text", f"long-lived MappingSchema: {str(r_out)[:150]} fresh: {str(f_out)[:150]}", inp)
        pname, probe = probes[n % len(probes)]
        f_out = captured(lambda: str(probe(MappingSchema(SCHEMA, dialect=dname or None))))
        r_out = captured(lambda: str(probe(s_long)))
        count("MappingSchema." + pname)
        if f_out != r_out:
            V("reuse-schema", "qualify", "schema-answer:" + pname, f"long-lived MappingSchema.{pname}: {r_out} fresh: {f_out}", inp)
    # --- nested schema with an ambiguous / a missing table name: lenient (None) and strict (raise) questions interleaved
    s_long = MappingSchema(SCHEMA_NESTED, dialect=dname or None)
    amb = [
        ("has_column", lambda sc: sc.has_column("t", "a")), ("column_names", lambda sc: sc.column_names("t")),
        ("get_column_type", lambda sc: sc.get_column_type("t", "a").sql()), ("find", lambda sc: sc.find(exp.to_table("t"))),
        ("find", lambda sc: sc.find(exp.to_table("t"), raise_on_missing=False)), ("column_names", lambda sc: sc.column_names("db1.t")),
        ("has_column", lambda sc: sc.has_column("zz", "a")), ("column_names", lambda sc: sc.column_names("zz")),
        ("find", lambda sc: sc.find(exp.to_table("zz"), raise_on_missing=False, ensure_data_types=True)),
        ("find", lambda sc: sc.find(exp.to_table("zz"), ensure_data_types=True)), ("column_names", lambda sc: sc.column_names("w")),
        ("qualify", lambda sc: qualify(sqlglot.parse_one("SELECT * FROM t"), schema=sc, dialect=dname or None).sql()),
        ("annotate", lambda sc: annotate_types(sqlglot.parse_one("SELECT t.a FROM t"), schema=sc, dialect=dname or None).selects[0].type.sql()),
        ("qualify", lambda sc: qualify(sqlglot.parse_one("SELECT a FROM db2.t"), schema=sc, dialect=dname or None).sql()),
    ]
    for n, (pname, probe) in enumerate(amb + amb[::-1] + amb[1::2] + amb[::2]):
        f_out = captured(lambda: str(probe(MappingSchema(SCHEMA_NESTED, dialect=dname or None))))
        r_out = captured(lambda: str(probe(s_long)))
        count("MappingSchema." + pname)
        if f_out != r_out:
            V("reuse-schema", "nested", "schema-answer:" + pname, f"long-lived nested MappingSchema.{pname} (probe {n}): {str(r_out)[:150]} fresh: {str(f_out)[:150]}", {"n": n, "sql": pname})
    # --- one schema asked through Dialect INSTANCES that differ only in their settings (instances compare equal by type)
    if dname in ("snowflake", "postgres", "bigquery"):
        variants = [Dialect.get_or_raise(dname), Dialect.get_or_raise(f"{dname}, normalization_strategy=case_sensitive"),
                    Dialect.get_or_raise(f"{dname}, normalization_strategy=uppercase"), Dialect.get_or_raise(f"{dname}, normalization_strategy=lowercase")]
        iprobes = [("has_column", lambda sc, d: sc.has_column("t", "Foo", dialect=d)), ("has_column", lambda sc, d: sc.has_column("T", "foo", dialect=d)),
                   ("column_names", lambda sc, d: sc.column_names("t", dialect=d)), ("get_column_type", lambda sc, d: sc.get_column_type("t", "FOO", dialect=d).sql()),
                   ("find", lambda sc, d: sc.find(exp.to_table("T", dialect=d))), ("column_names", lambda sc, d: sc.column_names("Tt", dialect=d))]
        mk = lambda: MappingSchema({"t": {"Foo": "int", "bar": "text"}, "Tt": {"x": "int"}}, dialect=dname)
        for order in (variants, variants[::-1], variants[1::2] + variants[::2]):
            s_long = mk()
            for vi, d in enumerate(order):
                for pname, probe in iprobes:
                    f_out = captured(lambda: str(probe(mk(), d)))
                    r_out = captured(lambda: str(probe(s_long, d)))
                    count("MappingSchema." + pname + "(dialect instance)")
                    if f_out != r_out:
                        V("reuse-schema", "dialect-instance", "schema-answer:" + pname,
                          f"long-lived MappingSchema.{pname} with dialect instance #{vi} ({d.normalization_strategy.name}): {str(r_out)[:120]} fresh: {str(f_out)[:120]}", {"n": vi, "sql": pname})
    # --- struct columns: star expansion over a struct reads the field definitions held by the schema's type objects; a call
    # that rewrites its own tree in place (qualify quotes identifiers by default) must not reach them
    if dname in ("risingwave", "bigquery", "duckdb", "postgres", ""):
        s_long = MappingSchema(SCHEMA_STRUCT, dialect=dname or None)
        mk = lambda: MappingSchema(SCHEMA_STRUCT, dialect=dname or None)
        struct_sqls = ["SELECT (payload).* FROM events", "SELECT ((payload).tags).* FROM events", "SELECT payload.* FROM events", "SELECT payload.tags.* FROM events",
                       "SELECT id, payload FROM events", "SELECT * FROM events"]
        struct_calls = [
            ("qualify", lambda sc, q: qualify(sqlglot.parse_one(q, read=dname or None), schema=sc, dialect=dname or None).sql(dialect=dname or None)),
            ("qualify-unquoted", lambda sc, q: qualify(sqlglot.parse_one(q, read=dname or None), schema=sc, dialect=dname or None, quote_identifiers=False).sql(dialect=dname or None)),
            ("optimize", lambda sc, q: optimize(q, schema=sc, dialect=dname or None).sql(dialect=dname or None)),
            ("get_column_type", lambda sc, q: sc.get_column_type("events", "payload").sql(dialect=dname or None)),
            ("annotate", lambda sc, q: " ".join(x.type.sql() if x.type else "-" for x in annotate_types(sqlglot.parse_one(q, read=dname or None), schema=sc, dialect=dname or None).selects)),
        ]
        for rnd in range(2):
            for n, q in enumerate(struct_sqls):
                for func, call in struct_calls:
                    f_out = captured(lambda: call(mk(), q))
                    r_out = captured(lambda: call(s_long, q))
                    count(func + "(struct schema)")
                    if f_out != r_out:
                        V("reuse-schema", "struct", func, f"long-lived MappingSchema with struct columns, {func}: {str(r_out)[:150]} fresh: {str(f_out)[:150]}", {"n": n, "sql": q})
    json.dump({"violations": viol, "counts": counts, "inputs": len(inputs)}, open(out_path, "w"))


# ---------------------------------------------------------------------------------------------------- class-level tables
def _el(x, depth=0):
    import enum
    import types

    if isinstance(x, enum.Enum):
        return f"{type(x).__name__}.{x.name}"
    if isinstance(x, type):
        return f"<class {x.__module__}.{x.__qualname__}>"
    if isinstance(x, (types.FunctionType, types.MethodType)):
        c = getattr(x, "__code__", None)
        return f"<fn {getattr(x, '__qualname__', '?')}:{c.co_firstlineno if c else 0}>"
    if isinstance(x, (set, frozenset, dict, list, tuple)) and depth < 3:
        return _fp(x, depth + 1)
    if isinstance(x, (str, int, float, bool, type(None))):
        return repr(x)
    return f"<{type(x).__name__}>"


def _fp(v, depth=0):
    if isinstance(v, (set, frozenset)):
        return ("set",) + tuple(sorted(str(_el(x, depth)) for x in v))
    if isinstance(v, dict):
        return ("dict",) + tuple(sorted((str(_el(k, depth)), str(_el(x, depth))) for k, x in v.items()))
    return ("seq",) + tuple(str(_el(x, depth)) for x in v)


def _class_tables(cls):
    """(attribute -> fingerprint) of the collection-valued class attributes a class DEFINES OR INHERITS (upper-case names)"""
    out = {}
    for attr in dir(cls):
        if not attr.isupper() and not (attr.startswith("_") and attr[1:].isupper()):
            continue
        try:
            v = getattr(cls, attr)
        except Exception:
            continue
        if isinstance(v, (set, frozenset, dict, list, tuple)):
            out[attr] = _fp(v)
    return out


def worker_classtables(order, out_path):
    """loads the dialect modules one by one in a fixed permutation; the class-level tables of a dialect's parser / generator /
    tokenizer (and of the common base classes) as they are right after that dialect has been loaded must still be the same after
    every other dialect has been loaded: loading (or defining) a dialect never edits another class's tables in place."""
    from sqlglot.dialects.dialect import Dialect
    from sqlglot.generator import Generator
    from sqlglot.parser import Parser
    from sqlglot.tokens import Tokenizer

    names = sorted(n for n in corpus.dialects() if n)
    perm = permutation(len(names), order)
    first, loaded_after = {}, {}

    def snap(tag, classes):
        for c in classes:
            key = f"{c.__module__}.{c.__qualname__}"
            if key not in first:
                first[key] = (c, _class_tables(c))
                loaded_after[key] = tag

    snap("<base>", [Parser, Generator, Tokenizer, Dialect])
    for i in perm:
        D = Dialect.get_or_raise(names[i])
        dc = type(D)
        snap(names[i], [dc, dc.parser_class, dc.generator_class, dc.tokenizer_class] + [getattr(dc, "jsonpath_tokenizer_class", Tokenizer)])
    viol = []
    for key, (c, tables) in first.items():
        now = _class_tables(c)
        for attr in sorted(set(tables) | set(now)):
            if attr in CLASS_TABLE_EXEMPT:
                continue
            if tables.get(attr) != now.get(attr):
                a, b = tables.get(attr) or (), now.get(attr) or ()
                gone = [x for x in a if x not in b][:3]
                new = [x for x in b if x not in a][:3]
                viol.append({"key": f"c15:class-tables:{key.split('.')[-2]}.{key.split('.')[-1]}.{attr}",
                             "what": f"{key}.{attr} as of the moment '{loaded_after[key]}' was loaded differs after all dialects were loaded (load order {order}): "
                                     f"removed {gone}, added {new}",
                             "input": {"clause": "class-tables", "order": order, "class": key, "attr": attr}})
    json.dump({"violations": viol, "classes": len(first), "tables": sum(len(t) for _, t in first.values())}, open(out_path, "w"))


# registries that exist to be filled as dialects are loaded
CLASS_TABLE_EXEMPT = {"_CLASSES", "CLASSES"}


# ---------------------------------------------------------------------------------------------------- orchestration
def spawn(args, hashseed):
    env = dict(os.environ, PYTHONHASHSEED=hashseed)
    return subprocess.Popen([sys.executable, os.path.abspath(__file__), "--worker"] + [str(a) for a in args], env=env,
                            cwd=harness.VERIF, stdout=subprocess.PIPE, stderr=subprocess.PIPE, text=True)


def collect(procs):
    out = {}
    for key, (p, path) in procs.items():
        so, se = p.communicate()
        if p.returncode != 0:
            raise RuntimeError(f"checker error: worker {key} failed:\n{se[-2000:]}")
        out[key] = json.load(open(path))
    return out


def classify(a, b):
    if a.startswith("EXC ") != b.startswith("EXC "):
        return "exception-vs-result"
    ta, tb = a.split("\nLOG ")[0], b.split("\nLOG ")[0]
    if ta == tb:
        return "log-records-differ"
    if sorted(re.findall(r"\w+|\S", ta)) == sorted(re.findall(r"\w+|\S", tb)):
        return "same-tokens-reordered"
    return "different-text"


def first_diff(a, b):
    i = next((k for k, (x, y) in enumerate(zip(a, b)) if x != y), min(len(a), len(b)))
    return f"...{a[max(0, i - 40): i + 60]!r} vs ...{b[max(0, i - 40): i + 60]!r}"


def run(tier, seed):
    seeds = SEEDS_QUICK if tier == "quick" else SEEDS_THOROUGH
    rdialects = REUSE_DIALECTS_QUICK if tier == "quick" else [d for d in corpus.dialects()]
    tasks = build_tasks()
    tmp = tempfile.mkdtemp(prefix="c15_")
    procs = {}
    for s in seeds:
        path = os.path.join(tmp, f"seed{s}.json")
        procs[("seed", s)] = (spawn(["transcript", 0, path], s), path)
    for o in (1, 2, 3):
        path = os.path.join(tmp, f"order{o}.json")
        procs[("order", o)] = (spawn(["transcript", o, path], "0"), path)
    res = collect(procs)
    rprocs = {}
    for d in rdialects:
        path = os.path.join(tmp, f"reuse_{d or 'base'}.json")
        rprocs[("reuse", d)] = (spawn(["reuse", d or "-", path], "0"), path)
    rres = collect(rprocs)
    cprocs = {}
    for o in (0, 1, 2, 3):
        path = os.path.join(tmp, f"classtables{o}.json")
        cprocs[("classtables", o)] = (spawn(["classtables", o, path], "0"), path)
    cres = collect(cprocs)

    violations, counts = {}, {}

    def V(key, what, inp):
        counts[key] = counts.get(key, 0) + 1
        cand = (len(str(inp.get("task", inp.get("sql", "")))), what, inp)
        if key not in violations or cand[0] < violations[key][0]:
            violations[key] = cand

    base = res[("seed", seeds[0])]["outputs"]
    evaluations = 0
    nontrivial = set()
    for (kind, which), r in res.items():
        for i, t in enumerate(tasks):
            a, b = base[str(i)], r["outputs"][str(i)]
            if (kind, which) != ("seed", seeds[0]):
                evaluations += 1
                nontrivial.add(i)
                if a != b:
                    clause = "hashseed" if kind == "seed" else "order"
                    V(f"c15:{clause}:{t[0]}:{classify(a, b)}", f"{clause} {which} vs {seeds[0] if kind == 'seed' else 'order 0'}: {first_diff(a, b)}",
                      {"clause": clause, "which": which, "task": list(t)})
        for k, again in r["again"].items():
            evaluations += 1
            if again != r["outputs"][k]:
                t = tasks[int(k)]
                V(f"c15:order:{t[0]}:{classify(r['outputs'][k], again)}:later-in-same-process",
                  f"same process ({kind} {which}), same task run again at the end: {first_diff(r['outputs'][k], again)}",
                  {"clause": "order", "which": f"{kind}{which}-repeat", "task": list(t)})
    calls = {}
    for (_, d), r in rres.items():
        for v in r["violations"]:
            V(v["key"], v["what"], v["input"])
        for k, c in r["counts"].items():
            calls[k] = calls.get(k, 0) + c
            evaluations += c
    for (_, o), r in cres.items():
        evaluations += r["tables"]
        calls[f"class tables compared (load order {o})"] = r["tables"]
        for v in r["violations"]:
            V(v["key"], v["what"], v["input"])
    by_func = {}
    for t in tasks:
        by_func[t[0]] = by_func.get(t[0], 0) + 1
    vlist = [{"key": k, "what": violations[k][1], "input": violations[k][2], "count": counts[k]} for k in sorted(violations)]
    return {
        "evaluations": evaluations,
        "distinct_nontrivial": len(nontrivial) + sum(r["inputs"] for r in rres.values()),
        "rule": "tasks compared across at least two processes, plus (dialect, input) pairs served by reused objects",
        "bound": f"tier={tier}: {len(tasks)} tasks {by_func}; hash seeds {seeds}; orders 0-3 at seed 0; repeat of the first {REPEAT} tasks in every worker; "
                 f"reuse over dialects {rdialects} x {rres[('reuse', rdialects[0])]['inputs']} inputs (valid, broken, generated-alias, multi-statement)",
        "exhaustive": True,
        "samples": [list(tasks[i]) for i in (0, len(tasks) // 2, len(tasks) - 1)],
        "violations": vlist,
        "violation_counts": dict(sorted(counts.items())),
        "contract_evaluations": dict({f"{k} (x{len(res)} processes)": v for k, v in by_func.items()}, **calls),
    }


def replay(entry):
    """re-runs the clause the entry belongs to (the history of the process is part of the input) and looks for the same key"""
    inp = entry["input"]
    clause = inp.get("clause", "")
    tmp = tempfile.mkdtemp(prefix="c15r_")
    if clause == "class-tables":
        path = os.path.join(tmp, "c.json")
        r = collect({"c": (spawn(["classtables", inp["order"], path], "0"), path)})["c"]
        hits = [v for v in r["violations"] if v["key"] == entry["key"]]
        return {"violated": bool(hits), "observed": hits[0]["what"] if hits else "class tables unchanged by loading the other dialects"}
    if clause.startswith("reuse"):
        path = os.path.join(tmp, "r.json")
        r = collect({"r": (spawn(["reuse", inp.get("dialect") or "-", path], "0"), path)})["r"]
        hits = [v for v in r["violations"] if v["key"] == entry["key"]]
        return {"violated": bool(hits), "observed": hits[0]["what"] if hits else "reused objects answered like fresh ones"}
    tasks = build_tasks()
    which = inp["which"]
    if clause == "hashseed":
        a, b = ("transcript", 0, "0"), ("transcript", 0, str(which))
    elif str(which).endswith("-repeat"):
        a = b = ("transcript", 0, "0")
    else:
        a, b = ("transcript", 0, "0"), ("transcript", int(which), "0")
    pa, pb = os.path.join(tmp, "a.json"), os.path.join(tmp, "b.json")
    r = collect({"a": (spawn([a[0], a[1], pa], a[2]), pa), "b": (spawn([b[0], b[1], pb], b[2]), pb)})
    i = str(next(k for k, t in enumerate(tasks) if list(t) == list(inp["task"])))
    if str(which).endswith("-repeat"):
        x, y = r["a"]["outputs"][i], r["a"]["again"].get(i, r["a"]["outputs"][i])
    else:
        x, y = r["a"]["outputs"][i], r["b"]["outputs"][i]
    return {"violated": x != y, "observed": first_diff(x, y) if x != y else "outputs identical"}


if __name__ == "__main__":
    if len(sys.argv) > 1 and sys.argv[1] == "--worker":
        mode = sys.argv[2]
        if mode == "transcript":
            worker_transcript(int(sys.argv[3]), sys.argv[4])
        elif mode == "classtables":
            worker_classtables(int(sys.argv[3]), sys.argv[4])
        else:
            worker_reuse("" if sys.argv[3] == "-" else sys.argv[3], sys.argv[4])
        sys.exit(0)
    harness.main(run, replay)
