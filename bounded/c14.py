"""C14 (bounded): the error-level relation of parsing and generation, checked end to end on the REAL functions.
Runs under /venv/bin/python.

Derived from /repo/sqlglot/parser.py (raise_error, validate_expression, _try_parse, check_errors,
_parse_batch_statements), /repo/sqlglot/errors.py (concat_messages, merge_errors) and /repo/sqlglot/generator.py
(Generator.generate / unsupported):

PARSE.  For input s, dialect d run sqlglot.parse(s, read=d, error_level=L) with L = IGNORE, WARN, IMMEDIATE (once)
and RAISE with max_errors = 1 and 3.  A logging handler on logger "sqlglot" records the ERROR records emitted by
Parser.check_errors; Parser.check_errors is wrapped (counter only) so records are grouped per check_errors call
(check_errors runs once per ';'-separated statement and Parser.errors is not cleared in between, so under WARN a later
statement's call logs the earlier statements' errors again; RAISE stops at the first call that has errors).
  (i)   ignore-raises / warn-raises : IGNORE and WARN return (no exception).
        ignore-warn-differ          : they return equal tree lists (same length, None in the same places, ==, same
                                      repr modulo object addresses, and the same base-dialect .sql() text whenever both generate).
        ignore-logs                 : IGNORE emits no ERROR record.
  (ii)  raise-iff-warn              : RAISE raises ParseError  <=>  WARN emitted >= 1 ERROR record.
        error-count                 : len(e.errors) == number of records of WARN's FIRST logging check_errors call
                                      (each collected ParseError carries exactly one dict; merge_errors flattens), and
                                      the (description, line, col) sequence is the same for max_errors 1 and 3.
        message-max                 : str(e) == "\\n\\n".join(first max_errors WARN messages [+ "... and N more" iff
                                      N = collected - max_errors > 0]) for max_errors in {1, 3}.
  (iii) immediate-iff-raise         : IMMEDIATE raises ParseError <=> RAISE raises.
        immediate-first             : IMMEDIATE's e.errors[0] (description, line, col) == RAISE's e.errors[0], and
                                      str(e) == first WARN message.
  Inputs whose tokenization fails raise TokenError before the parser exists: all five runs must raise TokenError
  (tokenerror-level-dependent otherwise); they are counted as trivial.  An input is SKIPPED (belongs to C05) when any
  run raises anything other than ParseError/TokenError or exceeds the C05 step budget.

GENERATE.  For tree = parse_one-equivalent of a corpus statement in source dialect a, target b, run
tree.sql(dialect=b, unsupported_level=L) for the four levels; the handler records WARNING records emitted by
Generator.generate.
        gen:same-text               : IGNORE, WARN, RAISE give the same text whenever they return.
        gen:ignore-logs             : IGNORE emits no generate-record (a record here comes from a nested generator that
                                      was created without the caller's unsupported_level; site = function that did it).
        gen:raise-iff-warn          : RAISE raises UnsupportedError <=> WARN emitted >= 1 record beyond those that
                                      IGNORE emits too (those are level-independent and reported by gen:ignore-logs).
        gen:immediate-iff-raise     : IMMEDIATE raises UnsupportedError <=> RAISE raises.
        gen:message                 : when IGNORE is silent: str(RAISE error) == concat of the first 3 (max_unsupported)
                                      WARN messages + "... and N more" tail; str(IMMEDIATE error) == first WARN message.
  A (tree, target) is SKIPPED when any run raises anything other than UnsupportedError.

Keys: c14:parse:<clause>[:<sub-cause>]   c14:gen:<clause>[:<sub-cause>]
  parse sub-cause = the repo function that called Parser.raise_error for the error one level has and the other lacks
  (observed through a pass-through wrapper of raise_error; it only names the key, it never decides a verdict).
"""
import logging
import os
import re
import sys

sys.path.insert(0, os.path.dirname(os.path.dirname(os.path.abspath(__file__))))

from bounded import harness
from bounded import corpus
from bounded import c05
from bounded.c05 import guarded, budget, guarded_map, KILLED

import sqlglot
from sqlglot import errors as E
from sqlglot import exp
from sqlglot.dialects.dialect import Dialect
from sqlglot.errors import ErrorLevel
from sqlglot.parser import Parser

_REPO_PREFIX = os.path.abspath(harness.REPO) + os.sep


# ---------------------------------------------------------------------------------------------------
# log capture
class _CE:
    calls = 0
    collected = []  # caller of each raise_error call that appended to Parser.errors, in order
    raised = None  # caller of the last raise_error call that raised


_ORIG_CHECK = Parser.__dict__["check_errors"]
if getattr(_ORIG_CHECK, "_c14_wrapped", False):
    _ORIG_CHECK = _ORIG_CHECK._c14_orig


def _check_errors(self):
    _CE.calls += 1
    return _ORIG_CHECK(self)


_check_errors._c14_wrapped = True
_check_errors._c14_orig = _ORIG_CHECK
Parser.check_errors = _check_errors

_ORIG_RAISE = Parser.__dict__["raise_error"]
if getattr(_ORIG_RAISE, "_c14_wrapped", False):
    _ORIG_RAISE = _ORIG_RAISE._c14_orig


def _raise_error(self, message, token=None, **kw):
    """observer only: remembers which repo function reported each error (used for key suffixes, never for verdicts)"""
    before = len(self.errors)
    site = sys._getframe(1).f_code.co_name
    try:
        if token is None:
            r = _ORIG_RAISE(self, message, **kw)
        else:
            r = _ORIG_RAISE(self, message, token, **kw)
    except E.ParseError:
        _CE.raised = site
        raise
    if len(self.errors) > before:
        _CE.collected.append(site)
    return r


_raise_error._c14_wrapped = True
_raise_error._c14_orig = _ORIG_RAISE
Parser.raise_error = _raise_error


def _nested_site():
    """innermost-first walk of the current stack: if the record comes from a Generator.generate that runs inside
    another Generator.generate, return 'file:function' of the repo frame that started the inner generation."""
    f = sys._getframe(2)
    frames = []
    while f is not None:
        fn = f.f_code.co_filename
        if fn.startswith(_REPO_PREFIX):
            frames.append((os.path.relpath(fn, harness.REPO), f.f_code.co_name))
        f = f.f_back
    gens = [i for i, (fn, nm) in enumerate(frames) if fn == "sqlglot/generator.py" and nm == "generate"]
    if len(gens) < 2:
        return None
    i = gens[0] + 1
    # skip the plumbing between the caller and the inner generate: Dialect.generate, Expr.sql
    while i < len(frames) and frames[i] in (("sqlglot/dialects/dialect.py", "generate"), ("sqlglot/expressions/core.py", "sql")):
        i += 1
    return f"{frames[i][0]}:{frames[i][1]}" if i < len(frames) else "?"


class _Capture(logging.Handler):
    def __init__(self):
        super().__init__(level=logging.DEBUG)
        self.parse_records = []  # (check_errors call number, message)
        self.gen_records = []  # (message, nested site | None)
        self.other = 0

    def emit(self, record):
        base = os.path.basename(record.pathname)
        if record.levelno == logging.ERROR and record.funcName == "check_errors" and base == "parser.py":
            self.parse_records.append((_CE.calls, record.getMessage()))
        elif record.levelno == logging.WARNING and record.funcName == "generate" and base == "generator.py":
            self.gen_records.append((record.getMessage(), _nested_site()))
        else:
            self.other += 1

    def clear(self):
        self.parse_records = []
        self.gen_records = []
        self.other = 0


CAP = _Capture()
_LOGGER = logging.getLogger("sqlglot")


def _arm_logging():
    _LOGGER.setLevel(logging.WARNING)
    _LOGGER.propagate = False
    if CAP not in _LOGGER.handlers:
        _LOGGER.handlers[:] = [CAP]


# ---------------------------------------------------------------------------------------------------
# PARSE relation
def _expected_message(msgs, maximum):
    out = list(msgs[:maximum])
    rem = len(msgs) - maximum
    if rem > 0:
        out.append(f"... and {rem} more")
    return "\n\n".join(out)


def _dlc(err_dict):
    return (err_dict.get("description"), err_dict.get("line"), err_dict.get("col"))


_ADDR = re.compile(r" at 0x[0-9a-fA-F]+")


def _norm_repr(tree):
    """repr with object addresses removed (some trees embed a Dialect instance, whose default repr has its id())"""
    return _ADDR.sub(" at 0x?", repr(tree))


def _run_parse(sql, dialect, level, ntok, max_errors=3, into=None):
    CAP.clear()
    _CE.calls = 0
    _CE.collected = []
    _CE.raised = None
    if into:
        types = [getattr(exp, n) for n in into]
        call = lambda: Dialect.get_or_raise(dialect or None).parse_into(types if len(types) > 1 else types[0], sql, error_level=ErrorLevel[level], max_errors=max_errors)  # noqa: E731
    else:
        call = lambda: sqlglot.parse(sql, read=dialect or None, error_level=ErrorLevel[level], max_errors=max_errors)  # noqa: E731
    st, val = guarded(call, budget(ntok), 2 * budget(len(sql)))
    return st, val, list(CAP.parse_records), (_CE.collected[0] if _CE.collected else "none"), (_CE.raised or "none")


def check_parse(item):
    """item = ("p", sql, dialect) | ("pi", sql, dialect, (type names)) -> (status, n_real_calls, violations)
    status in nontrivial|clean|tokenerror|skipped.  "pi" = the same relation for Dialect.parse_into (what parse_one(into=...) runs)."""
    sql, dialect = item[1], item[2]
    into = tuple(item[3]) if item[0] == "pi" else None
    _arm_logging()
    d = Dialect.get_or_raise(dialect or None)
    viol = []
    inp = {"kind": "parse", "sql": sql, "dialect": dialect}
    if into:
        inp["into"] = list(into)
    fam = ("parse-into-list" if len(into) > 1 else "parse-into") if into else "parse"

    def V(clause, what, **extra):
        if into and clause in ("message-max", "immediate-first:message"):
            # parse_into wraps the raised errors in "Failed to parse '<sql>' into <type>": none of them is rendered in the message
            # (the property bounds the rendered errors from above); the collected errors themselves are compared by the other clauses
            return
        if fam == "parse-into-list":
            clause = ":".join(clause.split(":")[:2])  # with several candidate types the raising function depends on the candidate
        viol.append((f"c14:{fam}:{clause}", what, dict(inp, **extra)))

    st, toks = guarded(lambda: d.tokenize(sql), 1 << 62, budget(len(sql)))
    if st == "hang" or (st == "exc" and not isinstance(toks, E.TokenError)):
        return "skipped", 1, viol, 0
    ntok = len(toks) if st == "ok" else 0

    runs = {}
    for name, level, mx in (("IGNORE", "IGNORE", 3), ("WARN", "WARN", 3), ("RAISE1", "RAISE", 1), ("RAISE3", "RAISE", 3),
                            ("IMMEDIATE", "IMMEDIATE", 3)):
        r = _run_parse(sql, dialect, level, ntok, mx, into)
        if r[0] == "hang":
            return "skipped", 1 + len(runs) + 1, [], 0
        if r[0] == "exc" and not isinstance(r[1], (E.ParseError, E.TokenError)):
            return "skipped", 1 + len(runs) + 1, [], 0
        runs[name] = r
    ncalls = 6

    tokerr = [n for n, r in runs.items() if r[0] == "exc" and isinstance(r[1], E.TokenError)]
    if tokerr:
        if len(tokerr) != len(runs):
            V("tokenerror-level-dependent", f"TokenError only under {tokerr}")
        return "tokenerror", ncalls, viol, 0

    ig, wa, r1, r3, im = (runs[k] for k in ("IGNORE", "WARN", "RAISE1", "RAISE3", "IMMEDIATE"))

    # (i)
    ok_i = True
    for nm, r in (("ignore", ig), ("warn", wa)):
        if r[0] == "exc":
            ok_i = False
            cls, site = harness.repo_frame_key(r[1])
            V(f"{nm}-raises:{site}", f"{nm.upper()} raised {cls}: {str(r[1])[:100]}")
    if ig[2]:
        V("ignore-logs", f"IGNORE logged {len(ig[2])} error record(s)")
    if ok_i:
        ti, tw = ig[1], wa[1]
        why = None
        if len(ti) != len(tw):
            why = f"lengths {len(ti)} vs {len(tw)}"
        else:
            for k, (a, b) in enumerate(zip(ti, tw)):
                if (a is None) != (b is None):
                    why = f"tree {k}: None-ness differs"
                elif a is not None:
                    if not (a == b):
                        why = f"tree {k}: == is False"
                    elif _norm_repr(a) != _norm_repr(b):
                        why = f"tree {k}: repr differs"
                    else:
                        sa = guarded(lambda: a.sql(), 1 << 62, 1 << 62)
                        sb = guarded(lambda: b.sql(), 1 << 62, 1 << 62)
                        if sa[0] == "ok" and sb[0] == "ok" and sa[1] != sb[1]:
                            why = f"tree {k}: sql differs"
                if why:
                    break
        if why:
            V("ignore-warn-differ", why)

    warn_records = wa[2] if wa[0] == "ok" else []
    n_warn = len(warn_records)
    first_call = warn_records[0][0] if warn_records else None
    group1 = [m for c, m in warn_records if c == first_call]
    relog = n_warn > len(group1)

    # (ii)
    raise_excs = {}
    for nm, r, mx in (("RAISE1", r1, 1), ("RAISE3", r3, 3)):
        raised = r[0] == "exc"
        raise_excs[nm] = r[1] if raised else None
        if wa[0] != "ok":
            continue
        if raised != (n_warn >= 1):
            if raised:
                sub = r[3]
                V(f"raise-iff-warn:raise-without-warn-record:{sub}", f"RAISE(max_errors={mx}) raised but WARN logged nothing: {str(r[1])[:100]}", level="RAISE", max_errors=mx)
            else:
                sub = wa[3]
                V(f"raise-iff-warn:warn-record-without-raise:{sub}", f"WARN logged {n_warn} record(s) but RAISE(max_errors={mx}) returned: {group1[0][:100]}", level="RAISE", max_errors=mx)
            continue
        if not raised:
            continue
        e = r[1]
        if len(e.errors) != len(group1):
            V("error-count", f"RAISE(max_errors={mx}): len(e.errors)={len(e.errors)} but WARN's first logging check_errors call emitted {len(group1)}", level="RAISE", max_errors=mx)
        exp_msg = _expected_message(group1, mx)
        if str(e) != exp_msg:
            n_parts = str(e).count("\n\n") + 1
            V("message-max", f"RAISE(max_errors={mx}): message has {n_parts} part(s) / differs from the first {mx} WARN messages + tail; collected={len(group1)}", level="RAISE", max_errors=mx)
    if raise_excs["RAISE1"] is not None and raise_excs["RAISE3"] is not None:
        if [_dlc(x) for x in raise_excs["RAISE1"].errors] != [_dlc(x) for x in raise_excs["RAISE3"].errors]:
            V("error-count:max-errors-changes-errors", "e.errors differs between max_errors=1 and max_errors=3", level="RAISE")
    elif (raise_excs["RAISE1"] is None) != (raise_excs["RAISE3"] is None):
        V("raise-iff-warn:max-errors-changes-outcome", "RAISE raises for one of max_errors in {1,3} only", level="RAISE")

    # (iii)
    im_raised = im[0] == "exc"
    r3_raised = raise_excs["RAISE3"] is not None
    if im_raised != r3_raised:
        if im_raised:
            V(f"immediate-iff-raise:immediate-only:{im[4]}", f"IMMEDIATE raised ({str(im[1])[:80]}) but RAISE returned", level="IMMEDIATE")
        else:
            V(f"immediate-iff-raise:raise-only:{r3[3]}", f"RAISE raised ({str(raise_excs['RAISE3'])[:80]}) but IMMEDIATE returned", level="IMMEDIATE")
    elif im_raised:
        e_im, e_r = im[1], raise_excs["RAISE3"]
        a = _dlc(e_im.errors[0]) if e_im.errors else None
        b = _dlc(e_r.errors[0]) if e_r.errors else None
        if a != b:
            V(f"immediate-first:{r3[3]}", f"IMMEDIATE raised {a} (from {im[4]}) but RAISE's first collected error is {b} (from {r3[3]})", level="IMMEDIATE")
        elif group1 and str(e_im) != group1[0]:
            V("immediate-first:message", "IMMEDIATE's message differs from the first WARN record", level="IMMEDIATE")

    nontrivial = n_warn >= 1 or r3_raised or im_raised
    return ("nontrivial" if nontrivial else "clean"), ncalls, viol, (1 if relog else 0)


# ---------------------------------------------------------------------------------------------------
# GENERATE relation
def _run_gen(tree, target, level):
    CAP.clear()
    st, val = guarded(lambda: tree.sql(dialect=target or None, unsupported_level=ErrorLevel[level]), 1 << 62, 1 << 62)
    return st, val, list(CAP.gen_records)


def check_gen(item):
    """item = ("g", sql, source, targets) -> list over targets of (status, n_calls, violations)"""
    _, sql, source, targets, *more = item  # optional 5th element: a fixed rotation of the level order (replay)
    _arm_logging()
    st, trees = guarded(lambda: sqlglot.parse(sql, read=source or None), 1 << 62, 1 << 62)
    out = []
    if st != "ok":
        return [("unparsed", 1, [], 0)]
    trees = [t for t in trees if t is not None]
    for target in targets:
        for ti, tree in enumerate(trees):
            out.append(_check_gen_one(sql, source, target, ti, tree, more[0] if more else None))
    return out


def _check_gen_one(sql, source, target, ti, tree, rot=None):
    viol = []
    inp = {"kind": "gen", "sql": sql, "dialect": source, "target": target, "tree": ti}

    def V(clause, what, **extra):
        viol.append((f"c14:gen:{clause}", what, dict(inp, **extra)))

    runs = {}
    # the four calls are made in an order that rotates with the input (stable digest): whichever level a process happens to use
    # first for a target, it is not always the same one (an object cached across calls with the level left out of its key would
    # otherwise be pinned to IGNORE, the first level of the fixed order, in every worker, and look consistent)
    import zlib

    rot = zlib.crc32(f"{sql}|{source}|{target}".encode()) % 4 if rot is None else rot
    for lv in c05.LEVELS[rot:] + c05.LEVELS[:rot]:
        r = _run_gen(tree, target, lv)
        if r[0] == "hang" or (r[0] == "exc" and not isinstance(r[1], E.UnsupportedError)):
            return ("skipped", len(runs) + 1, [], 0)
        runs[lv] = r
    ig, wa, ra, im = (runs[k] for k in c05.LEVELS)
    if ig[0] == "exc":
        cls, site = harness.repo_frame_key(ig[1])
        V(f"ignore-raises:{site}", f"IGNORE raised UnsupportedError: {str(ig[1])[:100]}")
    if wa[0] == "exc":
        cls, site = harness.repo_frame_key(wa[1])
        V(f"warn-raises:{site}", f"WARN raised UnsupportedError: {str(wa[1])[:100]}")
    texts = {lv: runs[lv][1] for lv in ("IGNORE", "WARN", "RAISE") if runs[lv][0] == "ok"}
    if len(set(texts.values())) > 1:
        V("same-text", f"texts differ between levels {sorted(texts)}")
    n_ign = len(ig[2])
    if n_ign:
        sites = sorted({s or "top-level" for _, s in ig[2]})
        for s in sites:
            V(f"ignore-logs:{s}", f"unsupported_level=IGNORE still logged: {ig[2][0][0][:100]}")
    if ra[2] and not n_ign:
        V("raise-logs", f"unsupported_level=RAISE logged: {ra[2][0][0][:100]}")
    if wa[0] == "ok":
        own = len(wa[2]) - n_ign
        raised = ra[0] == "exc"
        if raised != (own >= 1):
            if raised:
                V("raise-iff-warn:raise-without-warn-record", f"RAISE raised ({str(ra[1])[:80]}) but WARN logged {len(wa[2])} (IGNORE {n_ign})")
            else:
                V("raise-iff-warn:warn-record-without-raise", f"WARN logged {len(wa[2])} (IGNORE {n_ign}) but RAISE returned: {wa[2][0][0][:80]}")
        elif raised and n_ign == 0:
            msgs = [m for m, _ in wa[2]]
            if str(ra[1]) != _expected_message(msgs, 3):
                V("message", "RAISE message differs from the first 3 WARN messages + tail")
            if im[0] == "exc" and str(im[1]) != msgs[0]:
                V("message:immediate-first", f"IMMEDIATE raised {str(im[1])[:60]!r}, first WARN message is {msgs[0][:60]!r}")
    if (im[0] == "exc") != (ra[0] == "exc"):
        which = "immediate-only" if im[0] == "exc" else "raise-only"
        V(f"immediate-iff-raise:{which}", f"IMMEDIATE {'raised' if im[0] == 'exc' else 'returned'}, RAISE {'raised' if ra[0] == 'exc' else 'returned'}")
    nontrivial = len(wa[2]) > 0 or ra[0] == "exc" or im[0] == "exc"
    ncalls = 4
    if nontrivial:
        # the level of a call must not be decided by an EARLIER call in the process (objects cached across calls with the level
        # left out of the key): the same four calls once more in the opposite order give, level by level, the same outcome
        again = {}
        for lv in reversed(c05.LEVELS):
            again[lv] = _run_gen(tree, target, lv)
            ncalls += 1
        for lv in c05.LEVELS:
            a, b = runs[lv], again[lv]
            same = a[0] == b[0] and (str(a[1]) == str(b[1])) and [m for m, _ in a[2]] == [m for m, _ in b[2]]
            if not same:
                V(f"call-order:{lv}", f"unsupported_level={lv}: first pass (IGNORE..IMMEDIATE order) {a[0]} / {len(a[2])} record(s), "
                                       f"second pass (reverse order) {b[0]} / {len(b[2])} record(s)")
                break
    return ("nontrivial" if nontrivial else "clean", ncalls, viol, 0)


def check_reuse(item):
    """item = ("r", source, target): the same relation call by call on ONE long-lived Generator per level -- the level
    relation must not depend on what an earlier generate() call on the same object left behind."""
    _, source, target = item
    _arm_logging()
    from sqlglot.dialects.dialect import Dialect

    trees = []
    for sql in corpus.STATEMENTS:
        st, ts = guarded(lambda: sqlglot.parse(sql, read=source or None), 1 << 62, 1 << 62)
        if st == "ok":
            trees += [(sql, t) for t in ts if t is not None]
    gens = {lv: Dialect.get_or_raise(target or None).generator(unsupported_level=ErrorLevel[lv]) for lv in c05.LEVELS}
    out = []
    for step, (sql, tree) in enumerate(trees):
        viol = []
        inp = {"kind": "gen-reuse", "dialect": source, "target": target, "step": step, "sql": sql}

        def V(clause, what):
            viol.append((f"c14:gen-reuse:{clause}", what, dict(inp)))

        runs = {}
        skip = False
        for lv in c05.LEVELS:
            CAP.clear()
            st, val = guarded(lambda: gens[lv].generate(tree.copy()), 1 << 62, 1 << 62)
            recs = list(CAP.gen_records)
            if st == "hang" or (st == "exc" and not isinstance(val, E.UnsupportedError)):
                skip = True
                break
            runs[lv] = (st, val, recs)
        if skip:
            # an aborted call may legitimately leave state behind only if a fresh object would too: restart all four
            gens = {lv: Dialect.get_or_raise(target or None).generator(unsupported_level=ErrorLevel[lv]) for lv in c05.LEVELS}
            out.append(("skipped", 4, [], 0))
            continue
        ig, wa, ra, im = (runs[k] for k in c05.LEVELS)
        texts = {lv: runs[lv][1] for lv in ("IGNORE", "WARN", "RAISE") if runs[lv][0] == "ok"}
        if len(set(texts.values())) > 1:
            V("same-text", f"texts differ between levels {sorted(texts)} on a reused generator")
        if ig[0] == "exc":
            V("ignore-raises", f"IGNORE raised on a reused generator: {str(ig[1])[:100]}")
        if wa[0] == "exc":
            V("warn-raises", f"WARN raised on a reused generator: {str(wa[1])[:100]}")
        if wa[0] == "ok":
            own = len(wa[2]) - len(ig[2])
            raised = ra[0] == "exc"
            if raised != (own >= 1):
                V("raise-iff-warn", f"step {step}: WARN logged {len(wa[2])} record(s) for this call but RAISE {'raised ' + str(ra[1])[:60] if raised else 'returned'}")
        if (im[0] == "exc") != (ra[0] == "exc"):
            V("immediate-iff-raise", f"step {step}: IMMEDIATE {'raised' if im[0] == 'exc' else 'returned'}, RAISE {'raised' if ra[0] == 'exc' else 'returned'}")
        nontrivial = len(wa[2]) > 0 or ra[0] == "exc" or im[0] == "exc"
        out.append(("nontrivial" if nontrivial else "clean", 4, viol, 0))
    return out


def check_item(item):
    if item[0] in ("p", "pi"):
        return [check_parse(item)]
    if item[0] == "r":
        return check_reuse(item)
    return check_gen(item)


# ---------------------------------------------------------------------------------------------------
# input space
ROTATE = 8
GEN_DIALECTS_QUICK = ["", "bigquery", "clickhouse", "duckdb", "hive", "mysql", "oracle", "postgres", "snowflake", "spark", "tsql", "trino"]
SCRIPT_DIALECTS_QUICK = GEN_DIALECTS_QUICK
# statements with optimizer hints: the hint text is parsed by a nested, fresh parser (exp.maybe_parse, default level
# IMMEDIATE) whose _parse_hint_body catches ParseError itself -> a place where the levels could diverge / where a nested
# IMMEDIATE parser could raise under IGNORE; make sure it is in the space
EXTRA_STATEMENTS = [
    "SELECT /*+ */ 1",
    "SELECT /*+ ; */ 1 FROM t",
    "SELECT /*+ BROADCAST(t) */ a FROM t",
    "SELECT /*+ REPARTITION(3), COALESCE(2) */ a FROM t JOIN u ON t.id = u.id",
]


# statements that exercise Generator.preprocess (nested CTEs moved to the top level, also with clashing names; bare
# boolean operands for the ENSURE_BOOLS targets): diagnostics issued while preprocessing happen before generate() resets
# its message list
GEN_EXTRA = [
    "SELECT * FROM (WITH t AS (SELECT 1 AS a) SELECT a FROM t) AS x JOIN (WITH t AS (SELECT 2 AS a) SELECT a FROM t) AS y ON x.a = y.a",
    "WITH c AS (SELECT 1 AS a) SELECT * FROM (WITH c AS (SELECT 2 AS a), d AS (SELECT a FROM c) SELECT a FROM d) AS z",
    "SELECT a FROM (WITH u AS (SELECT a FROM t) SELECT a FROM u) AS s WHERE a IN (WITH v AS (SELECT 1 AS a) SELECT a FROM v)",
    "SELECT a FROM t WHERE a AND NOT b OR (SELECT c FROM u)",
    "SELECT CASE WHEN a THEN 1 ELSE 0 END, IF(b, 1, 2) FROM t WHERE x",
    # a construct many targets do not support, generated BEFORE a node whose generator method renders a nested tree
    # (Snowflake's IDENTIFIER('<name>') is re-parsed and rendered; string-typed JSON paths, formats)
    "SELECT ARRAY_CONSTRUCT(1, 2) AS a, x AT TIME ZONE 'UTC' AS ts FROM IDENTIFIER('db.t')",
    "SELECT APPROX_PERCENTILE(a, 0.5) AS p, IDENTIFIER('t.c') FROM t QUALIFY ROW_NUMBER() OVER (PARTITION BY a ORDER BY b NULLS LAST) = 1",
    # diagnostics issued outside Generator.unsupported(): a logger call in a transform, a nested default-level generator
    "WITH t(a) AS (SELECT * FROM x) SELECT a FROM t",
    "SELECT IDENTIFIER('TRY(x)'), IDENTIFIER('a') FROM t",
]


INTO_INPUTS = ["1 + 2", "a.b", "t AS x", "SELECT a FROM t", "SELECT a FROM", "x IN (1, 2", "db.t(a)", "INT", "ARRAY<INT", "a, b", "f(a) OVER (", "",
               "JOIN u ON a = b", "WHERE a >", "ORDER BY a DESC NULLS", "(SELECT 1) AS s", "a = 1 AND", "CASE WHEN a THEN 1"]
INTO_TYPES = [("Table",), ("Condition",), ("Column",), ("DataType",), ("Select",), ("Join",), ("Where",), ("Order",), ("Identifier",),
              ("Table", "Condition"), ("Condition", "Table"), ("DataType", "Column"), ("Select", "Table", "Condition"), ("Join", "Where", "Order")]


def _broken(s):
    """a fixed few syntactic breakages of s (pure functions of the token list; not selected by sqlglot's behaviour)"""
    out = []
    tr = corpus.mutations(s, kinds=("trunc",))
    if tr:
        out.append(tr[-1])  # last token dropped
    ins = corpus.mutations(s, kinds=("insert",))
    if ins:
        out.append(ins[len(ins) // 2])  # one token inserted in the middle
    return out[:2]


def scripts(statements):
    """'s1; s2; s3' for consecutive (cyclic) triples, each position in {intact, broken_0, broken_1}"""
    import itertools

    n = len(statements)
    out, seen = [], set()
    for i in range(n):
        trip = [statements[(i + k) % n] for k in range(3)]
        if any(";" in s for s in trip):
            continue
        opts = [[s] + _broken(s) for s in trip]
        for combo in itertools.product(*opts):
            sc = "; ".join(combo)
            if sc not in seen:
                seen.add(sc)
                out.append(sc)
    return out


def items_for(tier):
    ds = corpus.dialects()
    others = [d for d in ds if d != ""]
    stmts = corpus.STATEMENTS + EXTRA_STATEMENTS
    items = []
    stats = {}
    a = [("p", s, d) for s in stmts for d in ds]
    stats["valid"] = len(a)
    muts = []
    for s in stmts:
        muts.extend(corpus.mutations(s))
    if tier == "quick":
        b = []
        for g, m in enumerate(muts):
            b.append(("p", m, ""))
            for d in c05._rot_dialects(g, others, ROTATE):
                b.append(("p", m, d))
        sp = [("p", x, d) for x in c05.soups(3) for d in ds]
        sc = [("p", x, d) for x in scripts(corpus.SHORT) for d in SCRIPT_DIALECTS_QUICK]
        sc += [("p", x, "") for x in scripts(corpus.STATEMENTS)]
        gsrc, gtgt = GEN_DIALECTS_QUICK, ds  # 12 fixed sources x all targets (superset of the 12 x 12 pairs)
    else:
        b = [("p", m, d) for m in muts for d in ds]
        sp = [("p", x, d) for x in c05.soups(4) for d in ds]
        sc = [("p", x, d) for x in scripts(corpus.STATEMENTS) for d in ds]
        gsrc, gtgt = ds, ds
    sc = list(dict.fromkeys(sc))
    stats["mutations"] = len(b)
    stats["keyword_soups"] = len(sp)
    stats["scripts"] = len(sc)
    # Dialect.parse_into (parse_one(into=...)): one target type, and lists of candidate types tried in turn
    pi = [("pi", x, d_, into) for x in INTO_INPUTS for d_ in ("", "bigquery", "snowflake") for into in INTO_TYPES]
    stats["parse_into"] = len(pi)
    b = b + pi
    g = [("g", s, a_, tuple(gtgt)) for s in corpus.STATEMENTS + GEN_EXTRA for a_ in gsrc]
    stats["gen_statement_x_source"] = len(g)
    stats["gen_targets"] = len(gtgt)
    r = [("r", a_, b_) for a_ in (["", "presto", "duckdb"] if tier == "quick" else gsrc) for b_ in gtgt]
    stats["gen_reused_generator_source_x_target"] = len(r)
    items = a + b + sp + sc + g + r
    return items, stats


# ---------------------------------------------------------------------------------------------------
def run(tier, seed):
    items, stats = items_for(tier)
    order = list(range(len(items)))
    if seed:
        import random

        random.Random(seed).shuffle(order)
    else:
        order.sort(key=lambda i: (i * 2654435761) & 0xFFFFFFFF)
    work = [items[i] for i in order]
    res = guarded_map(check_item, work, batch=64)

    by_key, counts = {}, {}
    status = {"parse": {}, "gen": {}}
    calls = {"sqlglot.parse": 0, "Expr.sql(unsupported_level)": 0}
    nontrivial = set()
    relog = 0
    evals = 0
    for item, rs in zip(work, res):
        fam = "parse" if item[0] in ("p", "pi") else "gen"
        if rs == KILLED:
            status[fam]["killed"] = status[fam].get("killed", 0) + 1
            continue
        for k, (st, n, vs, rl) in enumerate(rs):
            status[fam][st] = status[fam].get(st, 0) + 1
            calls["sqlglot.parse" if fam == "parse" else "Expr.sql(unsupported_level)"] += n
            if fam == "gen":
                calls["sqlglot.parse"] += 1 if k == 0 else 0
            if st in ("nontrivial", "clean"):
                evals += 1
            if st == "nontrivial":
                nontrivial.add((item[:3], k))
            relog += rl
            for key, what, inp in vs:
                counts[key] = counts.get(key, 0) + 1
                lst = by_key.setdefault(key, [])
                lst.append((len(inp["sql"]), inp["sql"], inp.get("dialect", ""), inp.get("target", ""), what, inp))
                lst.sort(key=lambda x: x[:4])
                del lst[3:]
    violations = []
    for key in sorted(by_key):
        for _, _, _, _, what, inp in by_key[key]:
            violations.append({"key": key, "what": what, "input": inp, "count": counts[key]})
    return {
        "evaluations": evals,
        "distinct_nontrivial": len(nontrivial),
        "rule": "parse: (sql, dialect) where WARN logged >= 1 error or RAISE/IMMEDIATE raised ParseError (all runs inside the library's error family and the step budget); "
        "gen: (statement, source, target, tree) where WARN logged >= 1 unsupported message or RAISE/IMMEDIATE raised UnsupportedError",
        "bound": f"tier={tier}: {stats}; parse inputs: valid statements x all dialects, one-token mutations x (base + {ROTATE} rotating dialects in quick / all in thorough), "
        "keyword soups len<=3 (quick) / 4 x all dialects, 3-statement scripts with every position in {intact, 2 fixed breakages}; "
        "5 parse runs each (IGNORE, WARN, RAISE max_errors 1 and 3, IMMEDIATE); gen: 4 levels per (tree, target)",
        "exhaustive": True,
        "inputs": len(items),
        "input_families": stats,
        "status": status,
        "observations": {"inputs_where_WARN_relogged_errors_of_an_earlier_statement": relog},
        "samples": [list(map(str, items[i][:3])) for i in (0, len(items) // 3, len(items) // 2, len(items) - 1)],
        "violations": violations,
        "violation_counts": dict(sorted(counts.items())),
        "contract_evaluations": calls,
    }


def _replay_job(item):
    return check_item(item)


def replay(entry):
    inp = entry["input"]
    if inp.get("kind") == "gen":
        item = ("g", inp["sql"], inp.get("dialect", ""), (inp.get("target", ""),))
    elif inp.get("into"):
        item = ("pi", inp["sql"], inp.get("dialect", ""), tuple(inp["into"]))
    else:
        item = ("p", inp["sql"], inp.get("dialect", ""))
    # a generation entry is replayed in four fresh processes, one per rotation of the level order (what an earlier call of the
    # process left behind is part of the input)
    variants = [item + (r,) for r in range(4)] if item[0] == "g" else [item]
    keys, whats, sts = [], [], []
    for it in variants:
        rs = guarded_map(_replay_job, [it], batch=1, workers=1)[0]
        if rs == KILLED:
            return {"violated": False, "observed": "killed by watchdog (input belongs to C05)", "keys": []}
        for st, n, vs, rl in rs:
            sts.append(st)
            for key, what, _ in vs:
                keys.append(key)
                whats.append(what)
    hit = entry["key"] in keys
    return {"violated": hit, "observed": "; ".join(f"{k} [{w}]" for k, w in zip(keys, whats)) or f"relation holds (status {sts})",
            "keys": keys}


if __name__ == "__main__":
    harness.main(run, replay)
