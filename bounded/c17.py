"""C17 (bounded): lineage leaves == ghost flow of the construction, and invariance under CTE / sources / alias rewrites.
Runs under /venv/bin/python.

Contract.  Queries are built bottom-up by a constructor that carries, for every output column, flow(col) = the set of
base (table, column) pairs the column was built from through projections, derived tables, set operations and scalar
subqueries (WHERE / ON references do not flow).  The construction itself is the specification; there is no second
lineage analysis here.  For every query q, output column c, schema S = {t(a,b,c), u(a,d)}:
  leaf clause      leaves(sqlglot.lineage.lineage(c, derived_form(q), schema=S, dialect=d)) == flow(c)
                   leaves(node) = {(leaf.expression.name, leaf.name.rsplit('.')[-1]) : leaf in node.walk(), leaf.downstream
                   == [], leaf.expression is an exp.Table}  (lineage.to_node creates exactly these for base-table columns;
                   a leaf whose expression is exp.Placeholder -- "source unknown" -- is reported as ('?', name); leaves that
                   are neither -- constants -- carry no column), names compared lower-cased without quotes.
  cte form         the same query with every derived table hoisted into a CTE (column-list aliases go to the CTE header; a
                   derived table used twice becomes one CTE referenced under two aliases): same leaves as the derived form
  sources form     the same query with every derived table passed through sources={name: sql} and referenced by name
  alias renaming   every table alias x renamed to x_z consistently (base tables get an alias too): same leaves
An exception of lineage() on any form is a violation (all queries are valid SQL over known tables).

Derived from /repo/sqlglot/lineage.py (lineage, to_node: set-operation branch by position, star branch, scalar subqueries
via UNWRAPPED_QUERIES, leaf creation `Node(name=c.sql(), source=col_source, expression=col_source)`; exp.expand for
sources) and /repo/tests/test_lineage.py.

Keys: c17:<clause>:<construct family>   clause in missing-leaf | extra-leaf | cte-form-differs | sources-form-differs |
alias-renaming-differs | exception:<Class>; family = the most specific construct on the derivation path of the failing
column -- for exceptions: anywhere in the query -- (priority: column-list-alias, cte-twice, scalar-subquery, star, setop, join,
nested-derived, function, expression, constant, plain), suffixed with ".<dialect>-only" when the violation is not seen in the
default dialect.
"""
import os
import sys

sys.path.insert(0, os.path.dirname(os.path.dirname(os.path.abspath(__file__))))

from bounded import harness  # noqa: E402

from sqlglot import exp  # noqa: E402
from sqlglot.lineage import lineage  # noqa: E402

SCHEMA = {"t": {"a": "int", "b": "int", "c": "int"}, "u": {"a": "int", "d": "int"}}
PRIORITY = ["column-list-alias", "cte-twice", "scalar-subquery", "star", "setop", "join", "nested-derived", "function",
            "expression", "constant", "plain"]
F = frozenset


# ---------------------------------------------------------------------------------------------------- construction
def R(alias, col):
    return ("ref", alias, col)


def base(table, alias=None):
    return {"kind": "base", "table": table, "alias": alias or table, "cols": None}


def derived(q, alias, cols=None):
    return {"kind": "derived", "q": q, "alias": alias, "cols": cols}


def select(sources, items, on=None, where=None, feats=()):
    """items: [(expr | '*' | ('qstar', alias), output name | None)]; expr = list of str / ref / ('subq', Q) parts"""
    return {"k": "select", "sources": sources, "items": items, "on": on, "where": where, "feats": F(feats)}


def setop(op, left, right):
    return {"k": "setop", "op": op, "left": left, "right": right}


def depth(q):
    if q["k"] == "setop":
        return max(depth(q["left"]), depth(q["right"]))
    d = 0
    for s in q["sources"]:
        if s["kind"] == "derived":
            d = max(d, 1 + depth(s["q"]))
    for e, _ in q["items"]:
        if isinstance(e, list):
            for p in e:
                if isinstance(p, tuple) and p[0] == "subq":
                    d = max(d, depth(p[1]))
    return d


def columns(q):
    """[(output name, flow: frozenset of (table, column), feats: frozenset)] -- the ghost state of the construction"""
    if q["k"] == "setop":
        lc, rc = columns(q["left"]), columns(q["right"])
        assert len(lc) == len(rc)
        return [(ln, lf | rf, lt | rt | {"setop"}) for (ln, lf, lt), (_, rf, rt) in zip(lc, rc)]
    env, order = {}, []
    for s in q["sources"]:
        if s["kind"] == "base":
            cols = [(c, F([(s["table"], c)]), F()) for c in SCHEMA[s["table"]]]
        else:
            inner = columns(s["q"])
            extra = {"nested-derived"} if depth(s["q"]) >= 1 else set()
            if s["cols"]:
                assert len(s["cols"]) == len(inner)
                cols = [(n, f, t | extra | {"column-list-alias"}) for n, (_, f, t) in zip(s["cols"], inner)]
            else:
                cols = [(n, f, t | extra) for n, f, t in inner]
        env[s["alias"]] = {n: (f, t) for n, f, t in cols}
        order.append((s["alias"], cols))
    join = {"join"} if len(q["sources"]) > 1 else set()
    out = []
    for e, name in q["items"]:
        if e == "*":
            for _, cols in order:
                out += [(n, f, t | {"star"} | join | q["feats"]) for n, f, t in cols]
        elif isinstance(e, tuple) and e[0] == "qstar":
            out += [(n, f, t | {"star"} | join | q["feats"]) for a, cols in order if a == e[1] for n, f, t in cols]
        else:
            flow, feats, nrefs = F(), set(), 0
            for p in e:
                if isinstance(p, tuple) and p[0] == "ref":
                    f, t = env[p[1]][p[2]]
                    flow, feats, nrefs = flow | f, feats | t, nrefs + 1
                elif isinstance(p, tuple) and p[0] == "subq":
                    (_, f, t), = columns(p[1])
                    flow, feats = flow | f, feats | t | {"scalar-subquery"}
                elif isinstance(p, str) and "(" in p and p.strip("( ") != "":
                    feats.add("function")
            if nrefs == 0 and not flow:
                feats.add("constant")
            if nrefs > 1:
                feats.add("expression")
            out.append((name, flow, F(feats) | join | q["feats"]))
    return out


# ---------------------------------------------------------------------------------------------------- rendering
class Ctx:
    def __init__(self, form):
        self.form = form  # derived | cte | sources | rename
        self.ctes = []  # [(header, sql)] in dependency order
        self.sources = {}
        self.names = {}

    def alias(self, a):
        return a + "_z" if self.form == "rename" else a

    def hoist(self, src):
        key = (id(src["q"]), tuple(src["cols"] or ()) if self.form == "cte" else ())
        if key not in self.names:
            text = render(src["q"], self)
            if self.form == "cte":
                name = f"c{len(self.names) + 1}"
                header = name + (f"({', '.join(src['cols'])})" if src["cols"] else "")
                self.ctes.append((header, text))
            else:
                name = f"src{len(self.names) + 1}"
                self.sources[name] = text
            self.names[key] = name
        return self.names[key]


def _expr(e, ctx):
    out = []
    for p in e:
        if isinstance(p, str):
            out.append(p)
        elif p[0] == "ref":
            out.append(f"{ctx.alias(p[1])}.{p[2]}")
        else:
            out.append(f"({render(p[1], ctx)})")
    return "".join(out)


def _source(s, ctx):
    alias = ctx.alias(s["alias"])
    if s["kind"] == "base":
        return s["table"] if alias == s["table"] else f"{s['table']} AS {alias}"
    collist = f"({', '.join(s['cols'])})" if s["cols"] else ""
    if ctx.form in ("derived", "rename"):
        return f"({render(s['q'], ctx)}) AS {alias}{collist}"
    name = ctx.hoist(s)
    return f"{name} AS {alias}" + ("" if ctx.form == "cte" else collist)


def render(q, ctx):
    if q["k"] == "setop":
        return f"{render(q['left'], ctx)} {q['op']} {render(q['right'], ctx)}"
    items = []
    for e, name in q["items"]:
        if e == "*":
            items.append("*")
        elif isinstance(e, tuple) and e[0] == "qstar":
            items.append(f"{ctx.alias(e[1])}.*")
        else:
            items.append(f"{_expr(e, ctx)} AS {name}")
    srcs = [_source(s, ctx) for s in q["sources"]]
    text = f"SELECT {', '.join(items)} FROM {srcs[0]}"
    for s in srcs[1:]:
        text += f" JOIN {s} ON {_expr(q['on'], ctx)}"
    if q["where"]:
        text += f" WHERE {_expr(q['where'], ctx)}"
    return text


def forms(q):
    """{form: (sql, sources | None)}"""
    out = {}
    for form in ("derived", "cte", "sources", "rename"):
        ctx = Ctx(form)
        text = render(q, ctx)
        if form == "cte" and ctx.ctes:
            text = "WITH " + ", ".join(f"{h} AS ({t})" for h, t in ctx.ctes) + " " + text
        out[form] = (text, dict(ctx.sources) if form == "sources" else None)
    return out


# ---------------------------------------------------------------------------------------------------- generators
def level0():
    t, u = base("t"), base("u")
    on_a = [R("t", "a"), " = ", R("u", "a")]
    qs = [
        select([t], [([R("t", "a")], "o0"), ([R("t", "b")], "o1")]),
        select([t], [([R("t", "a"), " + ", R("t", "b")], "o0"), (["1"], "o1"), ([R("t", "c")], "o2")], where=[R("t", "c"), " > 0"]),
        select([t], [(["COALESCE(", R("t", "a"), ", ", R("t", "b"), ")"], "o0"), (["ABS(", R("t", "c"), ")"], "o1")]),
        select([t], [("*", None)]),
        select([t, u], [([R("t", "a")], "o0"), ([R("u", "d")], "o1")], on=on_a),
        select([t, u], [([R("t", "a"), " + ", R("u", "d")], "o0"), ([R("u", "a")], "o1")], on=[R("t", "b"), " = ", R("u", "a")], where=[R("t", "c"), " > ", R("u", "d")]),
        select([t, u], [(("qstar", "t"), None), ([R("u", "d")], "d")], on=on_a),
        select([t], [([R("t", "a")], "o0"), ([("subq", select([u], [(["MAX(", R("u", "d"), ")"], "m")]))], "o1")]),
        select([t], [([R("t", "b")], "o0"), ([("subq", select([u], [(["MAX(", R("u", "d"), ")"], "m")], where=[R("u", "a"), " = ", R("t", "a")])), " + ", R("t", "c")], "o1")]),
    ]
    for op in ("UNION", "UNION ALL", "INTERSECT", "EXCEPT"):
        qs.append(setop(op, select([t], [([R("t", "a")], "o0"), ([R("t", "b")], "o1")]), select([u], [([R("u", "a")], "o0"), ([R("u", "d")], "o1")])))
    qs.append(setop("UNION ALL", select([t], [([R("t", "c")], "o0"), (["1"], "o1")]), select([u], [(["2"], "o0"), ([R("u", "d")], "o1")])))
    # three and four operands (left-deep): names and positions are those of the left-most SELECT at every nesting level
    A = lambda: select([t], [([R("t", "a")], "o0"), ([R("t", "b")], "o1")])
    B = lambda: select([u], [([R("u", "a")], "o0"), ([R("u", "d")], "o1")])
    C = lambda: select([t], [([R("t", "c")], "o0"), ([R("t", "a")], "o1")])
    qs.append(setop("UNION ALL", setop("UNION ALL", A(), B()), C()))
    qs.append(setop("EXCEPT", setop("UNION", A(), B()), C()))
    qs.append(setop("UNION", setop("INTERSECT", setop("UNION ALL", A(), B()), C()), B()))
    # one table alias bound to different base tables in different scopes, both reading a column of the same name
    tx, ux = base("t", "x"), base("u", "x")
    qs.append(setop("UNION ALL", select([tx], [([R("x", "a")], "o0"), ([R("x", "c")], "o1")]), select([ux], [([R("x", "a")], "o0"), ([R("x", "d")], "o1")])))
    qs.append(select([derived(select([tx], [([R("x", "a")], "k"), ([R("x", "b")], "v")]), "s1"), derived(select([ux], [([R("x", "a")], "k"), ([R("x", "d")], "v")]), "s2")],
                     [([R("s1", "k"), " + ", R("s2", "k")], "o0"), ([R("s1", "v")], "o1"), ([R("s2", "v")], "o2")], on=[R("s1", "k"), " = ", R("s2", "k")]))
    return qs


def level0_dup():
    """relations whose (left-most) SELECT repeats an output name before a uniquely named column: only the unique names
    are requested (check() skips ambiguous ones), and only the column-list wrappers are applied above them, since
    `s.o0` would be ambiguous in the others"""
    t, u = base("t"), base("u")
    left = lambda: select([t], [([R("t", "a")], "o0"), ([R("t", "b")], "o0"), ([R("t", "c")], "o1")])
    qs = [left()]
    for op in ("UNION ALL", "EXCEPT"):
        qs.append(setop(op, left(), select([u], [([R("u", "a")], "x0"), ([R("u", "a")], "x1"), ([R("u", "d")], "x2")])))
    qs.append(setop("UNION", select([t, u], [([R("t", "a")], "a"), ([R("u", "a")], "a"), ([R("u", "d")], "d"), ([R("t", "c")], "c")],
                                    on=[R("t", "a"), " = ", R("u", "a")]),
                    select([t], [([R("t", "b")], "p"), ([R("t", "b")], "q"), ([R("t", "c")], "r"), ([R("t", "a")], "s")])))
    return qs


def wrappers(rel, which=None):
    """every way of putting `rel` one derived-table level deeper; names c0, c1 = first and last column of rel"""
    cols = [n for n, _, _ in columns(rel)]
    c0, c1 = cols[0], cols[-1]
    u, t = base("u"), base("t")
    lst = [chr(ord("p") + i) for i in range(len(cols))]  # column-list alias names p, q, r, ...
    W = {
        "pass": lambda: select([derived(rel, "s")], [([R("s", c0)], "o0"), ([R("s", c1)], "o1")]),
        "swap": lambda: select([derived(rel, "s")], [([R("s", c1)], "o0"), ([R("s", c0)], "o1")], where=[R("s", c0), " > 0"]),
        "star": lambda: select([derived(rel, "s")], [("*", None)]),
        "qstar": lambda: select([derived(rel, "s")], [(("qstar", "s"), None)]),
        "expr": lambda: select([derived(rel, "s")], [([R("s", c0), " + ", R("s", c1)], "o0"), (["1"], "o1")]),
        # the same source column read by two projections, the first one with further inputs (memoised sub-lineages are shared)
        "reuse": lambda: select([derived(rel, "s")], [([R("s", c0), " + ", R("s", c1)], "o0"), ([R("s", c0)], "o1"), ([R("s", c1)], "o2")]),
        "collist": lambda: select([derived(rel, "s", lst)], [([R("s", lst[-1])], "o0"), ([R("s", lst[0])], "o1")]),
        "collist-star": lambda: select([derived(rel, "s", lst)], [("*", None)]),
        "join-base": lambda: select([derived(rel, "s"), u], [([R("s", c0)], "o0"), ([R("u", "d")], "o1")], on=[R("s", c1), " = ", R("u", "a")]),
        "twice": lambda: select([derived(rel, "s1"), derived(rel, "s2")], [([R("s1", c0)], "o0"), ([R("s2", c1)], "o1")],
                                on=[R("s1", c0), " = ", R("s2", c0)], feats=["cte-twice"]),
        "setop": lambda: setop("UNION", select([derived(rel, "s")], [([R("s", c0)], "o0")]), select([u], [([R("u", "d")], "o0")])),
        "setop-right": lambda: setop("EXCEPT", select([t], [([R("t", "b")], "o0")]), select([derived(rel, "s")], [([R("s", c1)], "o0")])),
        "scalar": lambda: select([t], [([R("t", "a")], "o0"), ([("subq", select([derived(rel, "s")], [(["MAX(", R("s", c0), ")"], "m")]))], "o1")]),
        "filter-subquery": lambda: select([derived(rel, "s")], [([R("s", c0)], "o0")], where=[R("s", c1), " IN (SELECT u.a FROM u)"]),
    }
    return [(k, W[k]()) for k in (which or W)]


DEEP = ["pass", "star", "collist", "twice", "setop", "scalar"]
QUICK_L2 = ["pass", "swap", "star", "expr", "reuse", "collist", "join-base", "twice", "setop"]  # second wrapping level of the quick tier
NDEEP = 4
# every generated query is valid in these (bigquery is not: it has no bare UNION); snowflake normalises to upper case
DIALECTS = ("snowflake", "mysql", "postgres")


def queries(tier):
    """[(construction path, q)]: level 0; every wrapper over it (depth 1); every wrapper again (depth 2); the DEEP
    wrappers over depth 2 (depth 3); thorough: every wrapper at depth 3 and the DEEP wrappers at depth 4"""
    l0 = [(f"l0.{i}", q) for i, q in enumerate(level0())]
    l1 = [(f"{p}>{k}", w) for p, q in l0 for k, w in wrappers(q)]
    l2 = [(f"{p}>{k}", w) for p, q in l1 for k, w in wrappers(q, None if tier != "quick" else QUICK_L2)]
    d0 = [(f"dup.{i}", q) for i, q in enumerate(level0_dup())]
    l0 = l0 + d0 + [(f"{p}>{k}", w) for p, q in d0 for k, w in wrappers(q, ["collist", "collist-star"])]
    if tier == "quick":
        l3 = [(f"{p}>{k}", w) for p, q in l2[::2] for k, w in wrappers(q, DEEP[:NDEEP])]  # every other depth-2 query
        return l0 + l1 + l2 + l3
    l3 = [(f"{p}>{k}", w) for p, q in l2 for k, w in wrappers(q)]
    l4 = [(f"{p}>{k}", w) for p, q in l3[::7] for k, w in wrappers(q, DEEP[:NDEEP])]
    return l0 + l1 + l2 + l3 + l4


# ---------------------------------------------------------------------------------------------------- the check
def leaves(node):
    out = set()
    for n in node.walk():
        if n.downstream:
            continue
        e = n.expression
        if isinstance(e, exp.Table):
            out.add((e.name.lower(), n.name.rsplit(".", 1)[-1].strip('"`').lower()))
        elif isinstance(e, exp.Placeholder):
            out.add(("?", n.name.strip('"`').lower()))
    return out


def family(feats):
    return next((f for f in PRIORITY if f in feats), "plain")


_WRAPPER_FEATS = {"collist": "column-list-alias", "collist-star": "column-list-alias", "twice": "cte-twice", "scalar": "scalar-subquery",
                  "star": "star", "qstar": "star", "setop": "setop", "setop-right": "setop", "join-base": "join"}


def query_feats(path, cols):
    """constructs anywhere in the query (an exception is a property of the whole query, not of one column's derivation)"""
    feats = set().union(*(t for _, _, t in cols))
    feats |= {_WRAPPER_FEATS[w] for w in path.split(">")[1:] if w in _WRAPPER_FEATS}
    return feats


def _lineage(col, text, sources, dialect):
    """('ok', leaves) | ('exc', class name, message)"""
    try:
        node = lineage(col, text, schema=SCHEMA, sources=sources, dialect=dialect)
    except Exception as e:  # data: every query is valid
        return ("exc", type(e).__name__, str(e)[:160])
    return ("ok", leaves(node))


def _lineage_all(text, sources, dialect):
    """lineage(None, ...): ('ok', {output name: leaves}) | ('exc', class name, message)"""
    try:
        nodes = lineage(None, text, schema=SCHEMA, sources=sources, dialect=dialect)
    except Exception as e:
        return ("exc", type(e).__name__, str(e)[:160])
    return ("ok", {k: leaves(v) for k, v in nodes.items()})


def _fmt(s):
    return sorted(f"{a}.{b}" for a, b in s)


def check(item):
    path, q, dialect = item
    fs = forms(q)
    cols = columns(q)
    viol, evals, calls = [], 0, 0
    names = [n for n, _, _ in cols]
    # all-columns mode: one call for every output column, with a cache shared between the columns -- each column's leaves
    # must be what asking for that column alone gives
    all_cols = {form: _lineage_all(text, sources, dialect) for form, (text, sources) in fs.items() if form in ("derived", "cte", "sources")}
    calls += len(all_cols)
    for name, flow, feats in cols:
        if names.count(name) > 1:
            continue  # an ambiguous output name cannot be asked for by name
        fam = family(feats)
        qfam = family(query_feats(path, cols))
        want = {(t, c) for t, c in flow}
        got = {}
        for form, (text, sources) in fs.items():
            got[form] = _lineage(name, text, sources, dialect)
            calls += 1
        evals += 1
        d = got["derived"]
        inp = {"path": path, "column": name, "dialect": dialect}
        if d[0] == "exc":
            viol.append((f"c17:exception:{d[1]}:derived:{qfam}", f"lineage({name!r}, {fs['derived'][0]!r}) raised {d[1]}: {d[2]}", dict(inp, form="derived")))
        else:
            if want - d[1]:
                viol.append((f"c17:missing-leaf:{fam}", f"lineage({name!r}, {fs['derived'][0]!r}): leaves {_fmt(d[1])}, flow {_fmt(want)}", dict(inp, form="derived")))
            elif d[1] - want:
                viol.append((f"c17:extra-leaf:{fam}", f"lineage({name!r}, {fs['derived'][0]!r}): leaves {_fmt(d[1])}, flow {_fmt(want)}", dict(inp, form="derived")))
        for form, ac in all_cols.items():
            g = got[form]
            text, sources = fs[form]
            shown = text if not sources else f"{text} with sources={sources}"
            if ac[0] == "exc":
                if g[0] == "ok":
                    viol.append((f"c17:exception:{ac[1]}:all-columns:{qfam}", f"lineage(None, {shown!r}) raised {ac[1]}: {ac[2]}", dict(inp, form=form, all_columns=True)))
            elif g[0] == "ok" and ac[1].get(name) != g[1] and name in ac[1]:
                viol.append((f"c17:all-columns-differs:{fam}", f"lineage(None, {shown!r})[{name!r}]: leaves {_fmt(ac[1][name])}; lineage({name!r}, ...): {_fmt(g[1])}; flow {_fmt(want)}",
                             dict(inp, form=form, all_columns=True)))
        for form, clause in (("cte", "cte-form-differs"), ("sources", "sources-form-differs"), ("rename", "alias-renaming-differs")):
            g = got[form]
            text, sources = fs[form]
            shown = text if not sources else f"{text} with sources={sources}"
            if g[0] == "exc":
                viol.append((f"c17:exception:{g[1]}:{form}:{qfam}", f"lineage({name!r}, {shown!r}) raised {g[1]}: {g[2]}", dict(inp, form=form)))
            elif d[0] == "ok" and g[1] != d[1]:
                viol.append((f"c17:{clause}:{fam}", f"lineage({name!r}, {shown!r}): leaves {_fmt(g[1])}; derived-table form {fs['derived'][0]!r}: {_fmt(d[1])}; flow {_fmt(want)}",
                             dict(inp, form=form)))
    return evals, calls, viol, len(fs["derived"][0])


# Name shadowing between WITH clauses of different nesting levels: a sibling CTE of the inner WITH reads the INNER definition.
# (sql, sources, {output: {(table, column)}}); the model generator above never reuses a CTE name.
SHADOWING = [
    ("WITH base AS (SELECT a AS x FROM t) SELECT m.x AS o0, base.x AS o1 FROM (WITH base AS (SELECT d AS x FROM u), fin AS (SELECT x FROM base) SELECT x FROM fin) AS m CROSS JOIN base",
     None, {"o0": {("u", "d")}, "o1": {("t", "a")}}),
    ("WITH base AS (SELECT a AS x FROM t), outer2 AS (WITH base AS (SELECT d AS x FROM u), fin AS (SELECT x FROM base) SELECT x FROM fin) SELECT outer2.x AS o0, base.x AS o1 FROM outer2 CROSS JOIN base",
     None, {"o0": {("u", "d")}, "o1": {("t", "a")}}),
    ("WITH base AS (SELECT a AS x FROM t) SELECT (WITH base AS (SELECT d AS x FROM u), fin AS (SELECT MAX(x) AS x FROM base) SELECT x FROM fin) AS o0, base.x AS o1 FROM base",
     None, {"o0": {("u", "d")}, "o1": {("t", "a")}}),
    ("WITH base AS (SELECT a AS x FROM t) SELECT m.x AS o0, base.x AS o1 FROM model AS m CROSS JOIN base",
     {"model": "WITH base AS (SELECT d AS x FROM u), fin AS (SELECT x FROM base) SELECT x FROM fin"}, {"o0": {("u", "d")}, "o1": {("t", "a")}}),
    ("WITH c AS (SELECT a AS x FROM t), d AS (SELECT x FROM c) SELECT d.x AS o0 FROM (WITH c AS (SELECT d AS x FROM u), d AS (SELECT x FROM c) SELECT x FROM d) AS d",
     None, {"o0": {("u", "d")}}),
    # the inner WITH re-defines an outer CTE name and is read from a CHILD scope of the query that owns it (a derived table, a
    # scalar subquery, a set-operation operand)
    ("WITH c AS (SELECT a AS x FROM t) SELECT s.x AS o0 FROM (WITH c AS (SELECT d AS x FROM u) SELECT dd.x FROM (SELECT x FROM c) AS dd) AS s", None, {"o0": {("u", "d")}}),
    ("WITH c AS (SELECT a AS x FROM t) SELECT s.x AS o0 FROM (WITH c AS (SELECT d AS x FROM u) SELECT (SELECT MAX(x) FROM c) AS x FROM u) AS s", None, {"o0": {("u", "d")}}),
    ("WITH c AS (SELECT a AS x FROM t) SELECT s.x AS o0 FROM (WITH c AS (SELECT d AS x FROM u) SELECT x FROM c UNION ALL SELECT x FROM (SELECT x FROM c) AS e) AS s", None, {"o0": {("u", "d")}}),
    # dialect-specific presentations (5-tuples: + dialect, key suffix): set operations matched BY NAME, a CTE column list shorter
    # than the body's projection list
    ("SELECT a AS o0, b AS o1 FROM t UNION ALL BY NAME SELECT d AS o1, a AS o0 FROM u", None, {"o0": {("t", "a"), ("u", "a")}, "o1": {("t", "b"), ("u", "d")}}, "duckdb", "by-name"),
    ("SELECT a AS o0, b AS o1 FROM t UNION BY NAME SELECT d AS o1, a AS o0 FROM u UNION ALL BY NAME SELECT c AS o0, a AS o1 FROM t", None,
     {"o0": {("t", "a"), ("u", "a"), ("t", "c")}, "o1": {("t", "b"), ("u", "d"), ("t", "a")}}, "duckdb", "by-name"),
    ("WITH w(o0) AS (SELECT a, b FROM t) SELECT * FROM w", None, {"o0": {("t", "a")}, "b": {("t", "b")}}, "snowflake", "short-column-list"),
    ("WITH w(o0) AS (SELECT a, b FROM t) SELECT * FROM w", None, {"o0": {("t", "a")}, "b": {("t", "b")}}, "postgres", "short-column-list"),
    # a correlated outer column INSIDE the projection of a scalar subquery; a parenthesised root query
    ("SELECT (SELECT MAX(u.d + s.a) FROM u) AS o0 FROM (SELECT a FROM t) AS s", None, {"o0": {("u", "d"), ("t", "a")}}, None, "correlated-projection"),
    ("SELECT (SELECT MAX(u.d + t.a) FROM u) AS o0 FROM t", None, {"o0": {("u", "d"), ("t", "a")}}, None, "correlated-projection"),
    ("(SELECT a AS o0 FROM t) LIMIT 1", None, {"o0": {("t", "a")}}, None, "parenthesised-root"),
]


def check_shadowing(i):
    sql, sources, flows, *rest = SHADOWING[i]
    dialect, fam = (rest + [None, None])[:2] if rest else (None, None)
    fam = fam or "shadowing"
    viol, evals, calls = [], 0, 0
    for name, want in flows.items():
        g = _lineage(name, sql, sources, dialect)
        calls += 1
        evals += 1
        # dialect None in the record: these statements exist in one presentation only (no ".<dialect>-only" key suffix)
        inp = {"path": f"shadowing.{i}", "column": name, "dialect": None, "read": dialect, "form": "as-written"}
        shown = (sql if not sources else f"{sql} with sources={sources}") + (f" [{dialect}]" if dialect else "")
        if g[0] == "exc":
            viol.append((f"c17:exception:{g[1]}:{fam}", f"lineage({name!r}, {shown!r}) raised {g[1]}: {g[2]}", inp))
        elif g[1] != want:
            viol.append((f"c17:{'missing-leaf' if want - g[1] else 'extra-leaf'}:{fam}", f"lineage({name!r}, {shown!r}): leaves {_fmt(g[1])}, flow {_fmt(want)}", inp))
    return evals, calls, viol, len(sql)


def items_for(tier):
    qs = queries(tier)
    items = [(p, q, None) for p, q in qs]
    shallow = [(p, q) for p, q in qs if p.count(">") <= (1 if tier == "quick" else 2)]
    for d in DIALECTS:
        items += [(p, q, d) for p, q in shallow]
    return items


def run(tier, seed):
    items = items_for(tier)
    order = list(range(len(items)))
    if seed:
        import random

        random.Random(seed).shuffle(order)
    res = harness.pool_map(check, [items[i] for i in order])
    best, counts, raw = {}, {}, []
    evals = calls = 0
    res = list(res) + [check_shadowing(i) for i in range(len(SHADOWING))]
    order = list(order) + [None] * len(SHADOWING)
    for i, (e, c, viol, size) in zip(order, res):
        evals += e
        calls += c
        for key, what, inp in viol:
            raw.append((key, inp["dialect"], size, what, inp))
    # one defect, one key: a violation that also occurs in the default dialect is not repeated per dialect
    default_keys = {k for k, d, _, _, _ in raw if not d}
    for key, d, size, what, inp in raw:
        key = key if (not d or key in default_keys) else f"{key}.{d}-only"
        counts[key] = counts.get(key, 0) + 1
        cand = (bool(d), size, inp["path"], what, inp)
        if key not in best or cand[:3] < best[key][:3]:
            best[key] = cand
    violations = [{"key": k, "what": best[k][3], "input": best[k][4], "count": counts[k]} for k in sorted(best)]
    nq = len({p for p, _, _ in items})
    return {
        "evaluations": evals,
        "distinct_nontrivial": evals,
        "rule": "(query, dialect, output column) triples: every one compares the lineage leaves of four renderings with the constructed flow",
        "bound": f"tier={tier}: {nq} constructed queries (21 base shapes, 14 wrappers, derived-table depth <= {3 if tier == 'quick' else 4}; deepest level restricted to the wrappers "
                 f"{DEEP[:NDEEP]}) x default dialect, plus depth <= {1 if tier == 'quick' else 2} x {DIALECTS}; 4 forms per column",
        "exhaustive": True,
        "queries": nq,
        "samples": [forms(items[i][1])["derived"][0] for i in (0, len(items) // 5, len(items) // 2)],
        "violations": violations,
        "violation_counts": dict(sorted(counts.items())),
        "contract_evaluations": {"sqlglot.lineage.lineage": calls},
    }


def replay(entry):
    inp = entry["input"]
    match = [q for p, q in queries("thorough" if inp["path"].count(">") > 3 else "quick") if p == inp["path"]]
    if not match:
        match = [q for p, q in queries("thorough") if p == inp["path"]]
    if inp["path"].startswith("shadowing."):
        _, _, viol, _ = check_shadowing(int(inp["path"].split(".")[1]))
        hits = [(k, w) for k, w, i in viol if k == entry["key"] and i["column"] == inp["column"]]
        return {"violated": bool(hits), "observed": hits[0][1] if hits else "contract holds"}
    if not match:
        return {"violated": False, "observed": "path is not in the generated space"}
    _, _, viol, _ = check((inp["path"], match[0], inp.get("dialect")))
    base_key = entry["key"][: -len(f".{inp.get('dialect')}-only")] if entry["key"].endswith("-only") else entry["key"]
    hits = [(k, w) for k, w, i in viol if k == base_key and i["column"] == inp["column"] and i["form"] == inp["form"]]
    return {"violated": bool(hits), "observed": hits[0][1] if hits else f"contract holds for column {inp['column']} ({len(viol)} other violations on this query)"}


if __name__ == "__main__":
    harness.main(run, replay)
