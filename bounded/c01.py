"""C01 (bounded): parse -> generate is a normalisation: its output parses again and is a fixed point.
Runs under /venv/bin/python.

Property.  For every SQL text s of the core grammar and every dialect d in which s parses, generating SQL from the parse
of s in d yields text s1 that parses again in d, and generating from the parse of s1 yields s1 byte-for-byte.  In the
base dialect the two parses are also equal as syntax trees, and time-format strings inside format/parse-time functions
come back unchanged.

Contract, evaluated on the REAL pair Dialect.parse / Dialect.generate of ONE dialect object D = Dialect.get_or_raise(d)
(and, for single-statement inputs, once more through the public pair sqlglot.parse_one(s, read=d) / tree.sql(dialect=d)):

    trees = D.parse(s)                 ParseError / TokenError / UnsupportedError  => "s does not parse in d": skipped
    for every tree t0 of trees:
        s1 = D.generate(t0)
  (i)   reparse          D.parse(s1) returns exactly one tree t1 (no ParseError / TokenError)
  (ii)  fixpoint         s2 = D.generate(t1) == s1 byte for byte; also parse_one(s, read=d).sql(dialect=d) == s1
                         (the public entry points build the same text; cause class `api-paths-differ` otherwise)
  (iii) base-tree-equal  d == "" (base dialect):  t1 == t0   (Expression.__eq__)
  (iv)  time-format      dialects with a non-empty TIME_MAPPING; nodes of t0 of a class whose format the dialect's parser maps
                         through TIME_MAPPING (time_classes(d), found by probing) and whose format the dialect can express:
                         the format comes back in t1 -- see lost_formats() [sub-clause `tree`]; when only the texts differ
                         (s2 != s1) and the first difference between t0 and t1 lies in a `format` arg, the violation is
                         filed here (sub-clause `text`) rather than under (ii).
  (iv') format_time      sqlglot.time.format_time directly, per dialect with TIME_MAPPING M (trie TIME_TRIE) and
                         INVERSE_TIME_MAPPING M' (trie INVERSE_TIME_TRIE): for every f that is a concatenation of <= 2
                         (quick) / <= 3 (thorough) pieces, piece = key of M or one of LITERAL_PIECES:
                             format_time(format_time(f, M, TIME_TRIE), M', INVERSE_TIME_TRIE) == f
                         asserted only when M, extended by the identity on the literal pieces, is injective on the pieces
                         involved: no other key of M (or literal piece) has the same image as a key that format_time
                         actually used for f (read off format_time itself by running it with a tagging mapping over the
                         same trie) or as a literal piece of f.  Non-injective cases are counted, not asserted.

An input is SKIPPED (it belongs to C05, never flagged here) when any call raises something outside
{ParseError, TokenError, UnsupportedError} or does not return within ITEM_ALARM seconds.  A sqlglot error raised by
D.generate (default unsupported_level never raises) is counted as `ungenerable` and skipped as well.

Input space: see families() -- a pure function of the tier.

Keys:  c01:<reparse|fixpoint|base-tree-equal|time-format>:<dialect|base>:<cause class>
  reparse          cause = error class + first error description with digits / quoted text removed [+ class of the smallest
                           sub-tree of parse(s) that fails in isolation, see culprit()], or `statement-count`
  fixpoint         cause = first structural difference between t0 (which generated s1) and t1 (which generated s2), found
  base-tree-equal          top-down: `<Class>` (class replaced: `<ClassA>-><ClassB>`), `<Class>.<arg>` (arg present on one
                           side only / scalar differs / list length differs); `same-tree` if no structural difference
  time-format      cause = `<Class of the format-carrying node>` | `format_time:<inverse-not-left-inverse|rechunk>`
"""
import itertools
import logging
import os
import re
import signal
import sys

sys.path.insert(0, os.path.dirname(os.path.dirname(os.path.abspath(__file__))))

from bounded import harness
from bounded import corpus

import sqlglot
from sqlglot import exp
from sqlglot import errors as E
from sqlglot.dialects.dialect import Dialect
from sqlglot.expressions.core import Expr
from sqlglot.time import format_time
from sqlglot.tokens import TokenType

logging.getLogger("sqlglot").setLevel(logging.CRITICAL)

SQLGLOT_ERRORS = (E.ParseError, E.TokenError, E.UnsupportedError)
ITEM_ALARM = 10.0


class _Alarm(BaseException):
    """private: raised by the per-call wall-clock alarm (BaseException: the tokenizer wraps Exceptions)"""


def _on_alarm(signum, frame):
    raise _Alarm()


def _call(fn):
    """-> ("ok", value) | ("err", sqlglot error) | ("foreign", exception) | ("hang", None)"""
    signal.signal(signal.SIGALRM, _on_alarm)
    signal.setitimer(signal.ITIMER_REAL, ITEM_ALARM)
    try:
        try:
            v = fn()
        finally:
            signal.setitimer(signal.ITIMER_REAL, 0)
    except _Alarm:
        return ("hang", None)
    except SQLGLOT_ERRORS as e:
        return ("err", e)
    except Exception as e:  # not a sqlglot error: data for C05, skipped here
        return ("foreign", e)
    return ("ok", v)


def dname(d):
    return d or "base"


# ---------------------------------------------------------------------------------------------------
# structural first difference (only names the key; the verdicts are text equality and Expression.__eq__)
def _absent(v):
    return v is None or v is False or (isinstance(v, list) and not v)


def first_diff(a, b):
    """-> (cause, node_a) for the first structural difference top-down, or None if none.  cause has no input text."""
    if type(a) is not type(b):
        return (f"{type(a).__name__}->{type(b).__name__}", a)
    raw = getattr(a, "_hash_raw_args", False)
    keys = list(a.args) + [k for k in b.args if k not in a.args]
    for k in keys:
        va, vb = a.args.get(k), b.args.get(k)
        if _absent(va) and _absent(vb):
            continue
        if _absent(va) != _absent(vb):
            return (f"{type(a).__name__}.{k}", a)
        if isinstance(va, list) != isinstance(vb, list):
            return (f"{type(a).__name__}.{k}", a)
        la = va if isinstance(va, list) else [va]
        lb = vb if isinstance(vb, list) else [vb]
        if len(la) != len(lb):
            return (f"{type(a).__name__}.{k}", a)
        for x, y in zip(la, lb):
            if isinstance(x, Expr) and isinstance(y, Expr):
                r = first_diff(x, y)
                if r:
                    return r
            elif isinstance(x, Expr) or isinstance(y, Expr):
                return (f"{type(a).__name__}.{k}", a)
            else:
                if isinstance(x, str) and isinstance(y, str) and not raw:
                    x, y = x.lower(), y.lower()
                if x != y:
                    return (f"{type(a).__name__}.{k}", a)
    return None


def format_nodes(tree):
    """[(class name, format string)] for every node whose `format` arg is a string Literal, in walk order"""
    out = []
    for n in tree.walk():
        f = n.args.get("format")
        if isinstance(f, exp.Literal) and f.is_string:
            out.append((type(n).__name__, f.this))
    return out


def string_literals(tree):
    return [n.this for n in tree.find_all(exp.Literal) if n.is_string]


def lost_formats(D, tcls, t0, t1):
    """clause (iv), tree part.  P0 = formats p of the time-format-carrying nodes of t0 (class in tcls) that the dialect can
    express, i.e. p is a fixed point of format_time(format_time(., M', INVERSE_TIME_TRIE), M, TIME_TRIE) (precondition; a
    foreign strftime format such as '%m' in a dialect whose own form is '%mstrict' is normalised on the first round by
    design).  Each p of P0 must come back in t1: some string Literal q of t1 (each used once) has q == p, or is p in the
    dialect's own text (q == format_time(p, M')), or maps to it (format_time(q, M) == p): node classes that keep the
    dialect's text verbatim are a different representation of the same format, not a change of it.
    -> ([(class, p) not found], number of formats checked)"""
    M, Mi, trie, itrie = D.TIME_MAPPING, D.INVERSE_TIME_MAPPING, D.TIME_TRIE, D.INVERSE_TIME_TRIE
    P0 = []
    for cls, pfmt in format_nodes(t0):
        if cls in tcls and pfmt:
            text = format_time(pfmt, Mi, itrie)
            if text and format_time(text, M, trie) == pfmt:
                P0.append((cls, pfmt, text))
    if not P0:
        return [], 0
    pool = string_literals(t1)
    lost = []
    for cls, pfmt, text in P0:
        hit = next((q for q in pool if q == pfmt or q == text or (q and format_time(q, M, trie) == pfmt)), None)
        if hit is None:
            lost.append((cls, pfmt))
        else:
            pool.remove(hit)
    return lost, len(P0)


def _in_format_node(diff):
    """class name of the format-carrying node when the first difference is its `format` arg (or the Literal in it)"""
    cause, node = diff
    if isinstance(node, exp.Literal) and node.arg_key == "format" and node.parent is not None:
        return type(node.parent).__name__
    if cause.endswith(".format"):
        return type(node).__name__
    return None


_DIGITS = re.compile(r"\d+")
_QUOTED = re.compile(r"'[^']*'|\"[^\"]*\"|`[^`]*`|<[^>]*>")


def error_cause(e):
    desc = None
    errs = getattr(e, "errors", None)
    if errs:
        desc = errs[0].get("description")
    if not desc:
        desc = str(e).split("\n")[0]
        desc = re.sub(r"\. Line .*$", "", desc)
        desc = re.sub(r" at (line|index|position).*$", "", desc)
        desc = re.sub(r"^Error tokenizing .*$", "Error tokenizing", desc)
    desc = _QUOTED.sub("", desc)
    desc = _DIGITS.sub("", desc)
    desc = re.sub(r"[^A-Za-z_.()\[\]<>=,;+*/-]+", "_", desc).strip("_")
    return f"{type(e).__name__}:{desc[:60]}"


def _parses_single(D, text):
    st, r = _call(lambda: D.parse(text))
    return st == "ok" and len([x for x in r if x is not None]) == 1


def culprit(D, t0):
    """names the key of a reparse failure (never decides a verdict).
    1. the deepest sub-tree of t0 that fails in isolation: its own generated text, wrapped as `SELECT <text>` (conditions,
       sub-queries), `SELECT CAST(x AS <text>)` (data types) or bare (queries), does not parse;
    2. otherwise the deepest sub-tree whose replacement by a neutral leaf (a column) makes the whole output parse;
    None if neither exists."""
    nodes = [n for n in t0.walk() if n.parent is not None]
    nodes.sort(key=lambda n: -n.depth)
    nodes = nodes[:200]
    for n in nodes:
        if isinstance(n, exp.DataType):
            wrap = "SELECT CAST(x AS {})"
        elif isinstance(n, (exp.Condition, exp.Subquery)):
            wrap = "SELECT {}"
        elif isinstance(n, exp.Query):
            wrap = "{}"
        else:
            continue
        st, text = _call(lambda: D.generate(n))
        if st != "ok" or not text:
            continue
        if not _parses_single(D, wrap.format(text)):
            return type(n).__name__
    for n in nodes:
        t = t0.copy()
        twin = None
        for x, y in zip(t0.walk(), t.walk()):  # same node in the copy: walk order is deterministic
            if x is n:
                twin = y
                break
        if twin is None or twin.parent is None or isinstance(twin, exp.DataType):
            continue
        repl = exp.column("zz")
        st, _ = _call(lambda: twin.replace(repl))
        if st != "ok":
            continue
        st, text = _call(lambda: D.generate(t))
        if st == "ok" and _parses_single(D, text):
            return type(n).__name__
    return None


# ---------------------------------------------------------------------------------------------------
# the contract
def check_pair(item):
    """item = (family, s, d) -> dict(status, evals, calls, changed, viol=[(key, what, extra)])"""
    family, s, d = item
    D = Dialect.get_or_raise(d or None)
    res = {"status": None, "evals": 0, "parse": 0, "gen": 0, "changed": 0, "fmt": 0, "viol": []}
    if family.startswith("literal-contexts|"):
        # relative contract: IF the literal alone is a round-trip fixpoint in d THEN so is the literal in each context
        # (literal forms that are already not idempotent on their own are reported by the literals-casts family)
        family, lit = family.split("|", 1)
        alone = check_pair(("literals-casts", f"SELECT {lit}", d))
        res["parse"] += alone["parse"]
        res["gen"] += alone["gen"]
        if alone["status"] != "evaluated" or alone["viol"]:
            res["status"] = "precondition-literal-alone-not-a-fixpoint"
            return res
    inp = {"kind": "pair", "family": family, "sql": s, "dialect": d}
    # generator options: "pretty:<family>" runs the same contract with pretty=True (keys carry the option)
    gopts = {"pretty": True} if family.startswith("pretty:") else {}
    ksuf = "-pretty" if gopts else ""

    def V(clause, cause, what, **extra):
        res["viol"].append((f"c01:{clause}{ksuf}:{dname(d)}:{cause}", what, dict(inp, **extra)))

    st, trees = _call(lambda: D.parse(s))
    res["parse"] += 1
    if st != "ok":
        res["status"] = {"err": "unparsed", "foreign": "skipped-foreign", "hang": "skipped-hang"}[st]
        return res
    trees = [t for t in trees if t is not None]
    if not trees:
        res["status"] = "unparsed"
        return res
    has_time = bool(D.TIME_MAPPING)
    tcls = time_classes(d) if has_time else frozenset()
    for ti, t0 in enumerate(trees):
        st, s1 = _call(lambda: D.generate(t0, **gopts))
        res["gen"] += 1
        if st != "ok":
            res["status"] = {"err": "ungenerable", "foreign": "skipped-foreign", "hang": "skipped-hang"}[st]
            return res
        # (i)
        st, r1 = _call(lambda: D.parse(s1))
        res["parse"] += 1
        if st in ("foreign", "hang"):
            res["status"] = "skipped-" + st
            return res
        res["evals"] += 1
        if s1 != s:
            res["changed"] += 1
        if st == "err":
            cul = culprit(D, t0)
            V("reparse", error_cause(r1) + (":" + cul if cul else ""), f"generated text does not parse: {str(r1)[:120]}", s1=s1, tree=ti)
            continue
        r1 = [t for t in r1 if t is not None]
        if len(r1) != 1:
            V("reparse", "statement-count", f"generated text parses to {len(r1)} statements", s1=s1, tree=ti)
            continue
        t1 = r1[0]
        # (ii)
        st, s2 = _call(lambda: D.generate(t1, **gopts))
        res["gen"] += 1
        if st != "ok":
            res["status"] = {"err": "ungenerable", "foreign": "skipped-foreign", "hang": "skipped-hang"}[st]
            return res
        diff = None
        if s2 != s1 or (not d and not (t1 == t0)) or has_time:
            diff = first_diff(t0, t1)
        lost = []
        if has_time:
            lost, n_checked = lost_formats(D, tcls, t0, t1)
            if n_checked:
                res["fmt"] += 1
        fmt_cls = _in_format_node(diff) if (diff and has_time) else None
        tag = None

        def utag():
            # names the key only: the generator itself declares the text lossy (UnsupportedError under RAISE)
            nonlocal tag
            if tag is None:
                tag = "+unsupported" if any(
                    isinstance(_call(lambda: D.generate(t, unsupported_level=E.ErrorLevel.RAISE, **gopts))[1], E.UnsupportedError) for t in (t0, t1)
                ) else ""
            return tag

        fmt_tree_differs = bool(lost)
        diff_in_time_node = bool(diff) and (type(diff[1]).__name__ in tcls or fmt_cls is not None)
        if s2 != s1:
            if fmt_tree_differs and diff_in_time_node:
                pass  # one defect, one key: reported by (iv) below
            elif fmt_cls:
                V("time-format", f"{fmt_cls}{utag()}", "format text changes between first and second generation", s1=s1, s2=s2, tree=ti)
            else:
                cause = diff[0] if diff else "same-tree"
                V("fixpoint", cause + utag(), "second generation differs from the first", s1=s1, s2=s2, tree=ti)
        # (iii)
        if not d and not (t1 == t0):
            cause = diff[0] if diff else "same-structure"
            V("base-tree-equal", cause + utag(), "parse(s1) != parse(s) in the base dialect", s1=s1, tree=ti)
        # (iv)
        if fmt_tree_differs:
            cls, pfmt = lost[0]
            V("time-format", f"{cls}{utag()}", f"format {pfmt!r} of {cls} is not in parse(s1): its string literals are {string_literals(t1)[:4]}", s1=s1, s2=s2, tree=ti)
    # public API pair (single statement only: parse_one wraps several statements into a Block)
    if len(trees) == 1 and res["evals"] and not gopts:
        st, sa = _call(lambda: sqlglot.parse_one(s, read=d or None).sql(dialect=d or None))
        res["parse"] += 1
        res["gen"] += 1
        if st == "ok":
            st1, s1 = _call(lambda: D.generate(trees[0]))
            if st1 == "ok" and sa != s1:
                V("fixpoint", "api-paths-differ", "parse_one(s, read=d).sql(dialect=d) differs from D.generate(D.parse(s)[0])", s1=s1, s2=sa)
    res["status"] = "evaluated" if res["evals"] else "unparsed"
    return res


# ---------------------------------------------------------------------------------------------------
# (iv') format_time round trip
LITERAL_PIECES = ["-", " ", ":", "/", "T", ".", "x"]


def _used_keys(f, M, trie):
    """the chunks of f that format_time replaces through M: run the real function with a tagging mapping"""
    tag = {k: "\x00" + k + "\x01" for k in M}
    out = format_time(f, tag, trie) or ""
    return re.findall("\x00([^\x01]*)\x01", out)


def check_format_time(item):
    """item = ("ft", d, maxlen) -> dict(evals, skipped_noninjective, calls, viol)"""
    _, d, maxlen = item
    D = Dialect.get_or_raise(d or None)
    M, Mi = D.TIME_MAPPING, D.INVERSE_TIME_MAPPING
    trie, itrie = D.TIME_TRIE, D.INVERSE_TIME_TRIE
    res = {"evals": 0, "noninj": 0, "calls": 0, "viol": []}
    if not M:
        return res
    # extended mapping: a literal piece maps to itself; M is injective at a piece iff no other piece has the same image
    literals = [p for p in LITERAL_PIECES if p not in M]
    count = {}
    for v in list(M.values()) + literals:
        count[v] = count.get(v, 0) + 1
    inj = {k: count[v] == 1 for k, v in M.items()}
    inj_lit = {p: count[p] == 1 for p in literals}
    pieces = list(M) + literals
    single_ok = {}
    for n in range(1, maxlen + 1):
        for combo in itertools.product(pieces, repeat=n):
            f = "".join(combo)
            if not f:
                continue
            used = _used_keys(f, M, trie)
            res["calls"] += 1
            if not all(inj[k] for k in used) or not all(inj_lit.get(p, True) for p in combo):
                res["noninj"] += 1
                continue
            g = format_time(f, M, trie)
            h = format_time(g, Mi, itrie) if g else g
            res["calls"] += 2
            res["evals"] += 1
            if n == 1:
                single_ok[f] = h == f
            if h != f:
                cause = "rechunk" if all(single_ok.get(k, True) for k in used) else "inverse-not-left-inverse"
                if n > 1 and cause == "inverse-not-left-inverse":
                    continue  # already reported by the single key
                res["viol"].append((f"c01:time-format:{dname(d)}:format_time:{cause}",
                                    f"format_time round trip: {f!r} -> {g!r} -> {h!r}",
                                    {"kind": "format_time", "dialect": d, "f": f, "pieces": list(combo)}))
    return res


# ---------------------------------------------------------------------------------------------------
# input space
TASK_OPS = ["DIV", "<=>", "||", "::", "->", "->>", "#>", "#>>", "@>", "<@", "?", "~", "!~", "~*", "!~*", "ILIKE", "RLIKE", "GLOB",
            "XOR", "&&", "<<", ">>", "**", "//", "MOD", "NOT LIKE", "NOT ILIKE", "NOT RLIKE", "NOT GLOB", "IS NOT",
            "IS DISTINCT FROM", "IS NOT DISTINCT FROM", "SIMILAR TO", "NOT SIMILAR TO", "REGEXP", "OVERLAPS", "^@", "@@", "<->"]
_OP_TABLES = ("CONJUNCTION", "DISJUNCTION", "ASSIGNMENT", "EQUALITY", "COMPARISON", "BITWISE", "TERM", "FACTOR", "EXPONENT",
              "RANGE_PARSERS", "COLUMN_OPERATORS")
_NOT_OPS = set("()[]{},;'\"`$@:.\\") | {"/*+", "*/", "/*", "--"}


def dialect_ops(d):
    """operator texts of dialect d: every KEYWORDS / SINGLE_TOKENS entry of its tokenizer whose token type is a key of one
    of the parser's binary-operator tables, every purely symbolic KEYWORDS entry, and TASK_OPS (sorted, deterministic)"""
    D = Dialect.get_or_raise(d or None)
    T, P = D.tokenizer_class, D.parser_class
    tts = set()
    for tab in _OP_TABLES:
        tts |= set(getattr(P, tab, {}) or {})
    comment_starts = set()
    for c in getattr(T, "COMMENTS", []):
        comment_starts.add(c if isinstance(c, str) else c[0])
    ops = set(TASK_OPS)
    for k, v in list(T.KEYWORDS.items()) + list(T.SINGLE_TOKENS.items()):
        k = k.strip()
        if not k or k in comment_starts or k in _NOT_OPS:
            continue
        symbolic = not any(ch.isalnum() or ch == "_" or ch.isspace() for ch in k)
        if v in tts or symbolic:
            if any(ch in "()[]{},;'\"`\\" for ch in k):
                continue
            ops.add(k)
    return sorted(ops)


PARTNERS_QUICK = ["+", "AND", "=", "LIKE", "||"]
PARTNERS_THOROUGH = ["+", "*", "AND", "OR", "=", "<", "||", "IS", "LIKE", "&"]


def op_statements(d, tier):
    out = []
    partners = PARTNERS_QUICK if tier == "quick" else PARTNERS_THOROUGH
    for op in dialect_ops(d):
        out.append(f"SELECT a {op} b FROM t")
        out.append(f"SELECT a {op} b {op} c FROM t")
        out.append(f"SELECT (a {op} b) {op} c FROM t")
        out.append(f"SELECT a {op} (b {op} c) FROM t")
        out.append(f"SELECT NOT a {op} b, -a {op} b FROM t")
        for p in partners:
            if p == op:
                continue
            out.append(f"SELECT a {op} b {p} c, a {p} b {op} c FROM t")
            out.append(f"SELECT (a {op} b) {p} c, a {p} (b {op} c) FROM t")
            out.append(f"SELECT a {op} (b {p} c), (a {p} b) {op} c FROM t")
    return out


STRINGS = ["'abc'", "'it''s'", "''", "' '", "'a\"b'", "'a\\b'", "'a\\\\b'", "'a\\'b'", "'multi word'", "'%'", "'_'", "'a--b'", "'a/*b*/c'",
           "N'nat'", "E'a\\nb'", "'línea'", "\"dq\"", "`bt`", "'a\nb'", "'a\tb'", "'a' 'b'", "'{x}'", "'$1'", "$$dollar$$", "r'raw\\d'",
           "U&'d\\0061t'", "_utf8'abc'", "'''triple'''"]
# nested prefix operators: the generated text must not glue two operator characters into another token (--, ~~, !!)
UNARIES = ["~ ~a", "~ ~ ~a", "- ~a", "~ -a", "- - a", "- - - a", "NOT NOT a", "NOT ~a", "~ (a)", "-(~a)", "~(-a)", "- (- (a))", "~ ~ (a + 1)"]
MULTILINE_STRINGS = ["'line1\nline2'", "'a\n  b\n\nc'", "N'line1\nline2'", "U&'line1\nline2'", "E'line1\nline2'", "r'line1\nline2'", "$$line1\nline2$$", "b'line1\nline2'", "\"col\nname\"", "`col\nname`", "'''line1\nline2'''", "_utf8'line1\nline2'", "'tab\there\r\nnext'"]
NUMBERS = ["0", "1", "42", "1.5", "1.", ".5", "0.5", "1e10", "1E10", "1e-3", "1.5e+3", "1.5E-3", "0x1F", "0X1f", "0b101", "X'1F'", "x'1f'", "B'101'",
           "b'1'", "1_000", "9223372036854775808", "00012", "1.50", "-1", "+1", "- -1", "-(-1)", "- 1", "1D", "1L", "1.5F", "1BD", "100000000000000000000.0",
           "1e400", "NaN", "Infinity", "-.5", "0.", "1e+10"]
DATES = ["DATE '2020-01-01'", "TIMESTAMP '2020-01-01 00:00:00'", "TIME '12:00:00'", "TIMESTAMP WITH TIME ZONE '2020-01-01 00:00:00+00'",
         "TIMESTAMP '2020-01-01 00:00:00.123456'", "DATETIME '2020-01-01 00:00:00'", "TIMESTAMPTZ '2020-01-01'", "{d '2020-01-01'}",
         "{ts '2020-01-01 00:00:00'}", "DATE('2020-01-01')", "TIMESTAMP('2020-01-01')", "TIMESTAMP '2020-01-01' AT TIME ZONE 'UTC'",
         "CURRENT_DATE", "CURRENT_TIMESTAMP", "CURRENT_TIME", "CURRENT_TIMESTAMP(3)", "NOW()", "CURRENT_DATE()", "LOCALTIMESTAMP"]
INTERVALS = ["INTERVAL '1' DAY", "INTERVAL '1 day'", "INTERVAL 1 DAY", "INTERVAL '1-2' YEAR TO MONTH", "INTERVAL '1' HOUR", "INTERVAL '1' hour",
             "INTERVAL '2 hours 30 minutes'", "INTERVAL '1' DAY + INTERVAL '2' HOUR", "INTERVAL 5 MINUTE", "INTERVAL (a) DAY", "INTERVAL a DAY",
             "INTERVAL '1' DAYS", "INTERVAL '1.5' SECOND", "INTERVAL '1 02:03:04' DAY TO SECOND", "INTERVAL '-1' MONTH", "INTERVAL -1 DAY",
             "INTERVAL '1' WEEK", "INTERVAL '1 week'", "INTERVAL '1' QUARTER", "INTERVAL '1 year 2 months'", "INTERVAL '1' MILLISECOND",
             "d + INTERVAL '1' DAY", "d - INTERVAL 1 MONTH", "INTERVAL '1' DAY * 2", "INTERVAL 1 + 2 DAY", "INTERVAL '1d'", "INTERVAL 1 YEAR_MONTH"]
CONSTS = ["NULL", "TRUE", "FALSE", "null", "true", "False", "UNKNOWN", "DEFAULT", "NOT NULL", "NOT TRUE", "NULL IS NULL", "a IS UNKNOWN"]
ARRAYS = ["ARRAY[1, 2, 3]", "ARRAY[]", "ARRAY['a', 'b']", "[1, 2]", "[]", "ARRAY(1, 2)", "ARRAY[ARRAY[1], ARRAY[2]]", "(1, 2)", "ROW(1, 2)", "STRUCT(1 AS a)",
          "STRUCT(1, 'a')", "{'a': 1}", "MAP(ARRAY['a'], ARRAY[1])", "MAP('a', 1)", "ARRAY[1, 2][1]", "ARRAY(SELECT a FROM t)", "ARRAY<INT>[1, 2]",
          "[1, 2][0]", "x[1][2]", "x[1:2]", "x['k']", "x.y.z", "(1)", "((1))", "(a, b) = (1, 2)", "(SELECT 1)", "NAMED_STRUCT('a', 1)",
          # subscripts whose index is an expression of known integer type (the index offset between dialects is applied when reading AND when
          # writing, and must cancel), negative, computed or nested
          "x[LENGTH(s)]", "x[CAST(i AS INT)]", "x[CAST(i AS BIGINT) + 1]", "x[LENGTH(s) - 1]", "x[i + 1]", "x[-1]", "x[1 + 1]", "x[y[1]]", "x[ARRAY_LENGTH(x)]",
          "x[COUNT(*)]", "x[CASE WHEN a THEN 1 ELSE 2 END]", "x[1 + LENGTH(s) + 1]", "x[2 * CAST(i AS INT)]"]
TYPES = ["INT", "INTEGER", "BIGINT", "SMALLINT", "TINYINT", "FLOAT", "DOUBLE", "DOUBLE PRECISION", "REAL", "DECIMAL", "DECIMAL(10, 2)", "DECIMAL(10)",
         "NUMERIC(10)", "NUMERIC", "NUMBER", "NUMBER(10, 2)", "BOOLEAN", "BOOL", "VARCHAR", "VARCHAR(10)", "CHAR", "CHAR(1)", "TEXT", "STRING", "NVARCHAR(10)",
         "NCHAR(2)", "BINARY", "BINARY(4)", "VARBINARY", "VARBINARY(8)", "BLOB", "BYTEA", "BYTES", "DATE", "TIME", "TIMESTAMP", "TIMESTAMPTZ", "TIMESTAMPLTZ",
         "TIMESTAMPNTZ", "TIMESTAMP_NTZ", "TIMESTAMP WITH TIME ZONE", "TIMESTAMP WITHOUT TIME ZONE", "TIME WITH TIME ZONE", "DATETIME", "DATETIME2",
         "DATETIME(3)", "INTERVAL", "INTERVAL DAY", "JSON", "JSONB", "UUID", "VARIANT", "OBJECT", "ARRAY", "ARRAY<INT>", "ARRAY(INT)", "INT[]", "INT[3]", "INT ARRAY",
         "MAP<STRING, INT>", "MAP(VARCHAR, INT)", "STRUCT<a INT>", "STRUCT<a INT, b STRING>", "STRUCT(a INT)", "ROW(a INT)", "INT64", "FLOAT64", "INT8", "INT4", "INT2",
         "FLOAT4", "FLOAT8", "UINT8", "INT UNSIGNED", "BIGINT UNSIGNED", "UNSIGNED", "SIGNED", "TIMESTAMP(3)", "TIME(6)", "VARCHAR(MAX)", "LONG", "SHORT", "BYTE",
         "MEDIUMINT", "HUGEINT", "BIT", "BIT(3)", "MONEY", "SERIAL", "GEOGRAPHY", "GEOMETRY", "XML", "NULLABLE(INT)", "Nullable(String)", "LowCardinality(String)",
         "DECIMAL(38, 0)", "CHARACTER VARYING(10)", "NATIONAL CHAR(3)", "my_type", "sch.my_type", "NUMERIC(10, 2)[]", "ARRAY<ARRAY<INT>>", "DATE NOT NULL"]


def quote_mix_statements(tier):
    """every text over {', ", \\, a} up to a length, written once with single quotes (' doubled) and once with double quotes
    (" doubled): the generated literal (always the dialect's own quoting and escaping) must lex back to the same text
    whatever mixture of quote characters and backslashes it holds"""
    import itertools

    out = []
    for n in range(1, 4 if tier == "quick" else 5):
        for tup in itertools.product("'\"\\a", repeat=n):
            t = "".join(tup)
            out.append("SELECT '" + t.replace("'", "''") + "'")
            out.append('SELECT "' + t.replace('"', '""') + '"')
    return out


def literal_sequence_statements():
    """two literals of (possibly) different kinds in ONE statement: what the generator prints for the second must not
    depend on the first (shared escape tables, memoised escapes, ...)."""
    return [f"SELECT {a} AS x, {b} AS y" for a in STRINGS for b in STRINGS]


LITERAL_CONTEXTS = ["SELECT {} total", "SELECT {} AS x, 1", "SELECT d + {} > d2 FROM t", "SELECT {}, {} FROM t",
                    "SELECT SUM(b) OVER (ORDER BY d RANGE BETWEEN {} PRECEDING AND {} FOLLOWING) FROM t",
                    "SELECT a FROM t WHERE d BETWEEN {} AND {}", "SELECT CASE WHEN a THEN {} ELSE {} END FROM t"]


def literal_context_statements():
    """every interval / date / number literal form followed by each kind of neighbour (implicit alias word, AS, comma,
    operator, window-frame keyword): speculative look-ahead after a literal must be undone completely."""
    out = []
    for lit in INTERVALS + DATES + NUMBERS[:12]:
        for ctx in LITERAL_CONTEXTS:
            out.append((lit, ctx.replace("{}", lit)))
    return out


def literal_statements():
    out = []
    for lit in STRINGS + NUMBERS + DATES + INTERVALS + CONSTS + ARRAYS + UNARIES:
        out.append(f"SELECT {lit}")
        out.append(f"SELECT a FROM t WHERE b = {lit}")
    for ty in TYPES:
        out.append(f"SELECT CAST(a AS {ty}) FROM t")
        out.append(f"SELECT a::{ty} FROM t")
        out.append(f"SELECT TRY_CAST('1' AS {ty})")
        out.append(f"CREATE TABLE t (c {ty})")
    return out


# SELECT skeletons: a base SELECT decorated with up to 4 clause kinds
JOIN_VARIANTS = ["JOIN u", "JOIN u JOIN w ON u.a = w.a", "JOIN u ON t.a = u.a", "INNER JOIN u ON t.a = u.a", "LEFT JOIN u ON t.a = u.a", "RIGHT JOIN u ON t.a = u.a", "FULL JOIN u ON t.a = u.a",
                 "FULL OUTER JOIN u USING (a)", "CROSS JOIN u", "LEFT OUTER JOIN u ON t.a = u.a AND t.b > 1", "NATURAL JOIN u", ", u"]
SUBQ_VARIANTS = ["(SELECT a, b FROM t0 WHERE a > 0) AS t", "(SELECT * FROM t0) t", "((SELECT a, b FROM t0)) AS t"]
CTE_VARIANTS = ["WITH c AS (SELECT a FROM v)", "WITH c AS (SELECT a FROM v), c2 AS (SELECT a FROM c)", "WITH RECURSIVE c AS (SELECT 1 AS a UNION ALL SELECT a + 1 FROM c)",
                "WITH c (a) AS (SELECT 1)"]
SETOP_VARIANTS = ["UNION ALL SELECT a, b FROM w", "UNION SELECT a, b FROM w", "INTERSECT SELECT a, b FROM w", "EXCEPT SELECT a, b FROM w",
                  "UNION DISTINCT SELECT a, b FROM w", "UNION ALL SELECT a, b FROM w UNION ALL SELECT a, b FROM w2", "UNION (SELECT a, b FROM w)"]
WINDOW_VARIANTS = ["SUM(b) OVER (PARTITION BY a ORDER BY b) AS s", "ROW_NUMBER() OVER (ORDER BY a) AS s",
                   "SUM(b) OVER (ORDER BY a ROWS BETWEEN UNBOUNDED PRECEDING AND CURRENT ROW) AS s", "RANK() OVER (PARTITION BY a) AS s",
                   "SUM(b) OVER (ORDER BY a RANGE BETWEEN 1 PRECEDING AND 1 FOLLOWING) AS s", "COUNT(*) OVER () AS s", "SUM(b) OVER w AS s",
                   "LAG(b) OVER (PARTITION BY a ORDER BY b DESC NULLS LAST) AS s"]
GROUP_VARIANTS = ["GROUP BY a, b", "GROUP BY a, b HAVING COUNT(*) > 1", "GROUP BY 1, 2", "GROUP BY a, b HAVING SUM(b) > 1 AND MIN(a) < 5", "GROUP BY ALL"]
ORDER_VARIANTS = ["ORDER BY a", "ORDER BY a DESC NULLS FIRST", "ORDER BY a NULLS LAST", "ORDER BY a ASC, b DESC NULLS LAST", "ORDER BY a DESC", "ORDER BY a ASC NULLS FIRST",
                  "ORDER BY 1, 2 DESC", "ORDER BY a + b DESC NULLS LAST"]
LIMIT_VARIANTS = ["LIMIT 10", "LIMIT 10 OFFSET 5", "OFFSET 5", "LIMIT 10, 5", "FETCH FIRST 10 ROWS ONLY", "OFFSET 5 ROWS FETCH NEXT 10 ROWS ONLY"]
DISTINCT_VARIANTS = ["DISTINCT", "ALL", "DISTINCT ON (a)"]
KINDS = [("join", JOIN_VARIANTS), ("subq", SUBQ_VARIANTS), ("cte", CTE_VARIANTS), ("setop", SETOP_VARIANTS), ("window", WINDOW_VARIANTS),
         ("group", GROUP_VARIANTS), ("order", ORDER_VARIANTS), ("limit", LIMIT_VARIANTS), ("distinct", DISTINCT_VARIANTS)]


def build_select(choice):
    """choice: dict kind -> variant text"""
    head = "SELECT"
    if "distinct" in choice:
        head += " " + choice["distinct"]
    items = "a, b"
    if "window" in choice:
        items += ", " + choice["window"]
    frm = choice.get("subq", "t")
    sql = f"{head} {items} FROM {frm}"
    if "join" in choice:
        j = choice["join"]
        sql += j if j.startswith(",") else " " + j
    sql += " WHERE a > 1"
    if "group" in choice:
        sql += " " + choice["group"]
    if "window" in choice and choice["window"].endswith("OVER w AS s"):
        sql += " WINDOW w AS (PARTITION BY a)"
    if "setop" in choice:
        sql += " " + choice["setop"]
    if "order" in choice:
        sql += " " + choice["order"]
    if "limit" in choice:
        sql += " " + choice["limit"]
    if "cte" in choice:
        sql = choice["cte"] + " " + sql
    return sql


def skeleton_statements(tier):
    """every subset of <= 4 of the 9 clause kinds.  quick: 3 variant rotations per subset.  thorough: the full variant
    product for subsets of <= 2 kinds (<= 3 if the product is <= 200), otherwise 24 rotations."""
    out = []
    idx = 0
    for k in range(0, 5):
        for combo in itertools.combinations(range(len(KINDS)), k):
            names = [KINDS[ki][0] for ki in combo]
            nprod = 1
            for ki in combo:
                nprod *= len(KINDS[ki][1])
            if tier != "quick" and (k <= 2 or nprod <= 200):
                for vs in itertools.product(*[KINDS[ki][1] for ki in combo]):
                    out.append(build_select(dict(zip(names, vs))))
            else:
                for rot in range(3 if tier == "quick" else 24):
                    choice = {}
                    for pos, ki in enumerate(combo):
                        name, variants = KINDS[ki]
                        choice[name] = variants[(idx * 3 + rot * 5 + pos * 7 + rot * rot) % len(variants)]
                    out.append(build_select(choice))
                    if not combo:
                        break
            idx += 1
    return list(dict.fromkeys(out))


# time-format statements
FMT_TEMPLATES_FIXED = ["CAST(x AS DATE FORMAT {f})", "CAST(x AS TIMESTAMP FORMAT {f})"]
_FMT_CACHE = {}


def format_templates(d):
    """-> (templates, time_classes) of dialect d, found by probing every function name the dialect's parser knows, in the
    shapes NAME(x, {f}) / NAME({f}, x) / NAME(x, {f}, y), with one key k of the dialect's TIME_MAPPING M (M[k] != k):
      * a template whose parse carries the string `format` arg format_time(k, M) takes formats of the dialect (the parser
        maps them through TIME_MAPPING): mode "dialect"; the node's class joins time_classes(d);
      * a template whose `format` arg is k itself takes strftime-style formats as they are (sqlglot's canonical
        function names): mode "python"; kept only if its class is in time_classes(d), i.e. the dialect itself has a
        function of that class whose format it maps (so the format is known to be a time format there)."""
    if d in _FMT_CACHE:
        return _FMT_CACHE[d]
    D = Dialect.get_or_raise(d or None)
    M = D.TIME_MAPPING
    found, classes = [], set()
    if M:
        probe = next((k for k in sorted(M) if M[k] != k and "'" not in k and "\\" not in k and '"' not in k), None)
    if M and probe:
        lit = "'" + probe + "'"
        P = D.parser_class
        names = sorted(set(P.FUNCTIONS) | set(getattr(P, "FUNCTION_PARSERS", {})) | set(getattr(P, "NO_PAREN_FUNCTION_PARSERS", {})))
        shapes = [sh.replace("{n}", name) for name in names if re.fullmatch(r"[A-Za-z_][A-Za-z_0-9]*", name)
                  for sh in ("{n}(x, {f})", "{n}({f}, x)", "{n}(x, {f}, y)")] + FMT_TEMPLATES_FIXED
        for tpl in shapes:
            st, trees = _call(lambda: D.parse("SELECT " + tpl.replace("{f}", lit)))
            if st != "ok" or not trees or trees[0] is None:
                continue
            fn = format_nodes(trees[0])
            if len(fn) != 1:
                continue
            cls, val = fn[0]
            if val == probe:
                found.append((tpl, "python", cls))
            elif val == format_time(probe, M, D.TIME_TRIE):
                classes.add(cls)
                found.append((tpl, "dialect", cls))
            # else: the function uses some other format language (its own mapping): not part of this space
    out = ([(tpl, mode) for tpl, mode, cls in found if mode == "dialect" or cls in classes], frozenset(classes))
    _FMT_CACHE[d] = out
    return out


def time_classes(d):
    return format_templates(d)[1]


def _sql_str(v):
    return "'" + v.replace("'", "''") + "'"


def _composites(keys, text_of):
    """separator-joined triples of consecutive keys; plus triples joined with NO separator, built only from keys whose
    texts in the dialect's own format language have pairwise disjoint (case-folded) character sets, so that the adjacency
    itself is not ambiguous (yyyyMMdd style)"""
    out = []
    for sep in ("-", " ", ":", "/"):
        for i in range(0, len(keys), 3):
            out.append(sep.join(keys[i:i + 3]))
    rest = list(keys)
    while rest:
        group, chars, left = [], set(), []
        for k in rest:
            cs = set((text_of(k) or "").lower()) - {"%"}
            if len(group) < 3 and cs and not (cs & chars):
                group.append(k)
                chars |= cs
            else:
                left.append(k)
        if len(group) < 2:
            break
        out.append("".join(group))
        rest = left
    return list(dict.fromkeys(out))


def timefmt_statements(job):
    """job = (d, tier) -> (statements, templates, time classes)   (run in a worker: ~2000 probing parses per dialect)"""
    d, tier = job
    D = Dialect.get_or_raise(d or None)
    tpls, classes = format_templates(d)
    out = []
    for mode in ("dialect", "python"):
        ts = [t for t, m in tpls if m == mode]
        if not ts:
            continue
        if mode == "dialect":
            keys = [k for k in D.TIME_MAPPING if "\\" not in k]
            comps = _composites(keys, lambda k: k)
        else:
            keys = list(dict.fromkeys(v for v in D.TIME_MAPPING.values() if "\\" not in v))
            comps = _composites(keys, lambda v: format_time(v, D.INVERSE_TIME_MAPPING, D.INVERSE_TIME_TRIE))
        # formats holding the characters a string literal has to escape (Java-style patterns quote literal text with ', e.g. 'T')
        if len(keys) >= 2:
            k1, k2 = keys[0], keys[1]
            special = [k1 + "'T'" + k2, k1 + "\\" + k2, k1 + '"' + k2, "'at' " + k1]
            esc = D.tokenizer_class.STRING_ESCAPES
            for tpl in ts:
                for c in special:
                    out.append("SELECT " + tpl.replace("{f}", _sql_str(c)))  # quote doubled (adjacent literals where '' is no escape)
                    if "'" not in esc and "\\" in esc:
                        out.append("SELECT " + tpl.replace("{f}", "'" + c.replace("\\", "\\\\").replace("'", "\\'") + "'"))  # backslash-escaped
        if tier == "quick":
            for i, tpl in enumerate(ts):
                for c in comps[i % 5::5]:
                    out.append("SELECT " + tpl.replace("{f}", _sql_str(c)))
            for j, k in enumerate(keys):
                for r in range(3):
                    tpl = ts[(j + r * 7) % len(ts)]
                    out.append("SELECT " + tpl.replace("{f}", _sql_str(k)))
        else:
            for tpl in ts:
                for f in keys + comps:
                    out.append("SELECT " + tpl.replace("{f}", _sql_str(f)))
    return list(dict.fromkeys(out)), tpls, classes


def families(tier):
    """-> (items, stats); items = [(family, s, d)] + [("ft", d, maxlen)]"""
    ds = corpus.dialects()
    others = [d for d in ds if d != ""]
    items, stats = [], {}

    def add(fam, pairs):
        pairs = list(pairs)
        stats[fam] = len(pairs)
        items.extend((fam, s, d) for s, d in pairs)

    add("statements", ((s, d) for s in corpus.STATEMENTS for d in ds))
    exprs = corpus.expr_statements(depth=2)
    if tier == "quick":
        add("expr-depth2", ((s, d) for g, s in enumerate(exprs) for d in [""] + others[g % 3::3]))
    else:
        add("expr-depth2", ((s, d) for s in exprs for d in ds))
    add("dialect-operators", ((s, d) for d in ds for s in op_statements(d, tier)))
    lits = literal_statements()
    add("literals-casts", ((s, d) for s in lits for d in ds))
    lseq = literal_sequence_statements()
    if tier == "quick":
        add("literal-sequences", ((s, d) for g, s in enumerate(lseq) for d in [""] + others[g % 2::2]))
    else:
        add("literal-sequences", ((s, d) for s in lseq for d in ds))
    add("quote-mix", ((s, d) for s in quote_mix_statements(tier) for d in ds))
    # generator option pretty=True: multi-line literals of every kind (their inside must not be re-indented), and the statement corpus
    ml = [f"SELECT {lit}" for lit in STRINGS + MULTILINE_STRINGS] + [f"SELECT a FROM t WHERE b = {lit} AND c IN ({lit}, 'x')" for lit in MULTILINE_STRINGS]
    add("pretty:literals", ((s, d) for s in ml for d in ds))
    if tier == "quick":
        add("pretty:statements", ((s, d) for g, s in enumerate(corpus.STATEMENTS) for d in [""] + others[g % 4::4]))
    else:
        add("pretty:statements", ((s, d) for s in corpus.STATEMENTS for d in ds))
    lctx = literal_context_statements()
    stats["literal-contexts"] = len(lctx) * len(ds)
    items.extend((f"literal-contexts|{lit}", s, d) for lit, s in lctx for d in ds)
    sk = skeleton_statements(tier)
    add("select-skeletons", ((s, d) for s in sk for d in ds))
    tf = harness.pool_map(timefmt_statements, [(d, tier) for d in ds], chunksize=1)
    for d, (ss, tpls, classes) in zip(ds, tf):
        _FMT_CACHE[d] = (tpls, classes)  # inherited by the forked workers: check_pair needs time_classes(d)
    add("time-format-functions", ((s, d) for d, (ss, _, _) in zip(ds, tf) for s in ss))
    stats["time-format-templates"] = sum(len(t) for _, t, _ in tf)
    ft = [("ft", d, 2 if tier == "quick" else 3) for d in ds if Dialect.get_or_raise(d or None).TIME_MAPPING]
    stats["format_time-dialects"] = len(ft)
    return items, ft, stats


# ---------------------------------------------------------------------------------------------------
def _job(item):
    if item[0] == "ft":
        return check_format_time(item)
    return check_pair(item)


def run(tier, seed):
    items, ft, stats = families(tier)
    seen = set()
    uniq = []
    for it in items:
        k = (it[1], it[2])
        if k not in seen:
            seen.add(k)
            uniq.append(it)
    stats["distinct_pairs"] = len(uniq)
    order = list(range(len(uniq)))
    if seed:
        import random

        random.Random(seed).shuffle(order)
    else:
        order.sort(key=lambda i: (i * 2654435761) & 0xFFFFFFFF)  # spread slow families over the shards
    work = [uniq[i] for i in order]
    res = harness.pool_map(_job, work, chunksize=max(1, len(work) // (harness.WORKERS * 24)))
    ft_res = harness.pool_map(_job, ft, chunksize=1)

    status, by_key, counts = {}, {}, {}
    fam_eval = {}
    evals = changed = fmt_pairs = 0
    calls = {"Dialect.parse": 0, "Dialect.generate": 0, "sqlglot.time.format_time": 0}
    nontrivial = 0

    def note(key, what, inp, size):
        counts[key] = counts.get(key, 0) + 1
        lst = by_key.setdefault(key, [])
        lst.append((size, str(inp.get("sql", inp.get("f"))), what, inp))
        lst.sort(key=lambda x: x[:2])
        del lst[3:]

    skipped_examples = []
    for it, r in zip(work, res):
        status[r["status"]] = status.get(r["status"], 0) + 1
        if r["status"].startswith("skipped") and len(skipped_examples) < 5:
            skipped_examples.append([r["status"], it[1], it[2]])
        evals += r["evals"]
        changed += r["changed"]
        fmt_pairs += r["fmt"]
        calls["Dialect.parse"] += r["parse"]
        calls["Dialect.generate"] += r["gen"]
        if r["evals"]:
            nontrivial += 1
            fam_eval[it[0]] = fam_eval.get(it[0], 0) + 1
        for key, what, inp in r["viol"]:
            note(key, what, inp, len(inp["sql"]))
    ft_evals = ft_noninj = 0
    for it, r in zip(ft, ft_res):
        ft_evals += r["evals"]
        ft_noninj += r["noninj"]
        calls["sqlglot.time.format_time"] += r["calls"]
        for key, what, inp in r["viol"]:
            note(key, what, inp, len(inp["f"]))
    violations = []
    for key in sorted(by_key):
        for _, _, what, inp in by_key[key]:
            violations.append({"key": key, "what": what, "input": inp, "count": counts[key]})
    return {
        "evaluations": evals + ft_evals,
        "distinct_nontrivial": nontrivial,
        "rule": "distinct (s, d) pairs where s parsed in d and s1 = generate(parse(s)) was produced, so that clauses (i)/(ii) "
        "[and (iii) in base, (iv) with TIME_MAPPING] were evaluated; format_time round trips are counted separately in "
        "`format_time_roundtrips_asserted`",
        "bound": f"tier={tier}: {stats}; STATEMENTS x all dialects; expr_statements(depth=2) x (base + rotating third of the dialects in quick / "
        "all in thorough); per-dialect operator texts (tokenizer KEYWORDS/SINGLE_TOKENS whose type is in a parser operator table, "
        "symbolic keywords, a fixed list) in a OP b OP c with all parenthesisations and mixed with partner operators; literals / "
        "casts over a fixed type list; SELECT skeletons with <= 4 of 9 clause kinds; format-carrying functions found by probing x "
        "TIME_MAPPING keys and composites; format_time over concatenations of <= 2 (quick) / 3 (thorough) pieces",
        "exhaustive": True,
        "inputs": len(uniq),
        "input_families": stats,
        "evaluated_pairs_per_family": fam_eval,
        "status": status,
        "skipped_examples_belonging_to_C05": skipped_examples,
        "pair_evaluations": evals,
        "pairs_where_s1_differs_from_s": changed,
        "pairs_with_format_nodes": fmt_pairs,
        "format_time_roundtrips_asserted": ft_evals,
        "format_time_skipped_noninjective": ft_noninj,
        "samples": [list(uniq[i]) for i in (0, len(uniq) // 3, len(uniq) // 2, len(uniq) - 1)],
        "violations": violations,
        "violation_counts": dict(sorted(counts.items())),
        "contract_evaluations": calls,
    }


def replay(entry):
    inp = entry["input"]
    if inp.get("kind") == "format_time":
        D = Dialect.get_or_raise(inp["dialect"] or None)
        n = len(inp.get("pieces") or [1])
        r = check_format_time(("ft", inp["dialect"], n))
        hits = [(k, w) for k, w, i in r["viol"] if i["f"] == inp["f"]]
    else:
        r = check_pair((inp.get("family", "replay"), inp["sql"], inp.get("dialect", "")))
        hits = [(k, w) for k, w, i in r["viol"]]
        if not hits and r["status"] != "evaluated":
            return {"violated": False, "observed": f"status {r['status']}", "keys": []}
    keys = [k for k, _ in hits]
    return {"violated": entry["key"] in keys, "observed": "; ".join(f"{k} [{w}]" for k, w in hits) or "contract holds", "keys": keys}


if __name__ == "__main__":
    harness.main(run, replay)
