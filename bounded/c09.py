"""C09 (bounded): non-destructive functions leave their argument trees untouched; copies are independent.

Property: generating SQL from a tree (any dialect, default copy behaviour), optimizing it, qualifying or annotating
a copy, diffing it, computing lineage, and every builder or transform call made with copy=True leave the argument
tree structurally and textually identical to what it was before.  A copy of a tree is equal to the original and
shares no node with it, so editing either never affects the other.

Contract:  fingerprint(arg) is unchanged by the call (bounded/treecheck.fingerprint: per node class, args, scalar
values, node identity, (parent, arg_key, index), comments, type, meta, plus the generated SQL text), and
hash_ok(arg) == [] afterwards -- for EVERY tree handed to the function, including the tree from which a node passed
to a builder was taken (its node must still have its old parent).  Cached hashes being *evicted* is not a change.
For a whole tree passed as a builder argument the root's own parent pointer is left out (composition adopts it).

Copy clause: c = tree.copy(): c == tree, no node object in common, wf(c) == []; replacing any node of c / appending
to any comments list / writing any meta dict / editing any type of c leaves fingerprint(tree) unchanged, and vice versa.
"""
import logging
import os
import sys

if __package__ in (None, ""):
    sys.path.insert(0, os.path.dirname(os.path.dirname(os.path.abspath(__file__))))
from bounded import harness  # noqa: E402
from bounded import corpus  # noqa: E402
from bounded.treecheck import wf, hash_ok, fingerprint, fp_diff, canon, nodes, children  # noqa: E402

import sqlglot  # noqa: E402
from sqlglot import exp, parse_one  # noqa: E402
from sqlglot.errors import SqlglotError  # noqa: E402
from sqlglot.expressions.core import Expr  # noqa: E402
from sqlglot.optimizer import optimize  # noqa: E402
from sqlglot.optimizer import optimizer as _opt  # noqa: E402
from sqlglot.optimizer.qualify import qualify  # noqa: E402
from sqlglot.optimizer.annotate_types import annotate_types  # noqa: E402
from sqlglot.lineage import lineage  # noqa: E402
from sqlglot.optimizer.scope import build_scope  # noqa: E402
from sqlglot.schema import ensure_schema  # noqa: E402

logging.getLogger("sqlglot").setLevel(logging.CRITICAL)

SCHEMA = {
    name: {c: "INT" for c in ("a", "b", "c", "d", "x", "id", "n")} | {"s": "VARCHAR", "d": "DATE"}
    for name in ("t", "u", "v", "s", "t1", "t2")
}

DIALECT_SPECIFIC = [
    ("bigquery", "SELECT `a`, SAFE_CAST(b AS INT64) FROM `p.d.t` WHERE c IN UNNEST([1, 2])"),
    ("snowflake", "SELECT a:b::INT, IFF(c, 1, 2) FROM t QUALIFY ROW_NUMBER() OVER (ORDER BY a) = 1"),
    ("tsql", "SELECT TOP 3 [a], ISNULL(b, 0) FROM [t] WITH (NOLOCK)"),
    ("mysql", "SELECT `a`, IFNULL(b, 0) FROM t LIMIT 2, 3"),
    ("postgres", "SELECT a::INT, b ->> 'k', ARRAY[1, 2] FROM t WHERE c ILIKE 'x%'"),
    ("duckdb", "SELECT a, LIST_VALUE(1, 2), STRUCT_PACK(x := 1) FROM t"),
    ("spark", "SELECT a, EXPLODE(b) FROM t LATERAL VIEW EXPLODE(c) tt AS d"),
    ("oracle", "SELECT a, NVL(b, 0) FROM t WHERE ROWNUM < 3"),
    ("clickhouse", "SELECT a, toDate(b) FROM t FINAL WHERE c GLOBAL IN (1, 2)"),
    ("hive", "SELECT a, COLLECT_LIST(b) FROM t GROUP BY a"),
    ("presto", "SELECT a, TRY_CAST(b AS BIGINT), APPROX_DISTINCT(c) FROM t"),
    ("sqlite", "SELECT a, IFNULL(b, 0) FROM t LIMIT 3 OFFSET 1"),
]


# ---------------------------------------------------------------------------------------------------
class Stats:
    def __init__(self):
        self.evals = 0
        self.nontrivial = 0
        self.viol = []
        self.skips = {}
        self.calls = {}

    def skip(self, what):
        self.skips[what] = self.skips.get(what, 0) + 1

    def result(self):
        seen, counts = {}, {}
        for x in self.viol:
            counts[x["key"]] = counts.get(x["key"], 0) + 1
            old = seen.get(x["key"])
            if old is None or _rank(x) < _rank(old):
                seen[x["key"]] = x
        return {
            "evals": self.evals,
            "nontrivial": self.nontrivial,
            "viol": list(seen.values()),
            "viol_counts": counts,
            "skips": self.skips,
            "calls": self.calls,
        }


def _rank(x):
    i = x["input"]
    return (bool(i.get("prehash")), len(repr(i)))


def _ids(t):
    return {id(n) for n, *_ in nodes(t)}


def guarded(st, function, site, args, call, inp, root_parent=None, result_must_be_fresh=False):
    """contract evaluation: `args` (label -> tree) must be untouched by call().

    root_parent: set of labels for which the root's own parent pointer is part of the snapshot (default: all)."""
    before = {}
    for label, t in args.items():
        rp = True if root_parent is None else (label in root_parent)
        before[label] = (fingerprint(t, root_parent=rp), rp)
    result = None
    raised = None
    try:
        result = call()
    except SqlglotError as e:
        raised = e
        st.skip(f"{function}:{type(e).__name__}")
    except harness_errors:
        raise
    except Exception as e:  # raised inside sqlglot: data; the argument must still be untouched
        raised = e
        st.skip(f"{function}:{type(e).__name__}")
    st.evals += 1
    st.calls[function] = st.calls.get(function, 0) + 1
    if raised is None:
        st.nontrivial += 1
    for label, t in args.items():
        fp0, rp = before[label]
        d = fp_diff(fp0, fingerprint(t, root_parent=rp))
        if d:
            kind, what, cls = d
            st.viol.append(
                {
                    "key": f"c09:{function}:{kind}:{site(cls) if callable(site) else site}" + (f"/{label}" if len(args) > 1 else ""),
                    "what": f"[{label}] {what}" + (f" (call raised {type(raised).__name__})" if raised else ""),
                    "input": inp,
                }
            )
            continue
        for clause, what, cls in hash_ok(t):
            if clause == "unhashable":
                continue
            st.viol.append(
                {
                    "key": f"c09:{function}:hash:{site(cls) if callable(site) else site}" + (f"/{label}" if len(args) > 1 else ""),
                    "what": f"[{label}] {what}",
                    "input": inp,
                }
            )
            break
    if function == "builder" and isinstance(result, Expr) and not result_must_be_fresh:
        # a builder called with copy=True may adopt nodes it is given as children (known family), but what it RETURNS is a new
        # object: if the result is itself a node of an argument tree, editing the result edits the argument
        for label, t in args.items():
            if label != "instance" and id(result) in _ids(t):
                st.viol.append(
                    {
                        "key": f"c09:{function}:result-is-argument-node:{site('') if callable(site) else site}/{label}",
                        "what": f"[{label}] the builder returned a node of the argument tree itself ({type(result).__name__})",
                        "input": inp,
                    }
                )
                break
    if result_must_be_fresh and isinstance(result, Expr):
        rid = _ids(result)
        for label, t in args.items():
            if rid & _ids(t):
                st.viol.append(
                    {
                        "key": f"c09:{function}:shared-node:{site('') if callable(site) else site}" + (f"/{label}" if len(args) > 1 else ""),
                        "what": f"[{label}] the result shares node objects with the argument",
                        "input": inp,
                    }
                )
    return result


class HarnessError(Exception):
    pass


harness_errors = (HarnessError,)


def _parse_all(sql, read):
    try:
        return [t for t in sqlglot.parse(sql, read=read or None) if t is not None]
    except SqlglotError:
        return None


# ---------------------------------------------------------------------------------------------------
# (1) sql() in every dialect
def work_sql(item):
    _, sql, read, targets, prehash, opts = item
    st = Stats()
    trees = _parse_all(sql, read)
    if trees is None:
        st.skip("parse")
        return st.result()
    for tree in trees:
        if prehash:
            try:
                hash(tree)
            except TypeError:
                st.skip("unhashable")
        for d in targets:
            inp = {"kind": "sql", "sql": sql, "read": read, "write": d, "prehash": prehash, "opts": opts}
            guarded(st, "sql", (lambda cls, d=d: f"{d or 'base'}+{cls}"), {"tree": tree}, lambda: tree.sql(dialect=d or None, **opts), inp)
    return st.result()


# ---------------------------------------------------------------------------------------------------
# (2) optimizer / qualify / annotate / lineage / expand / replace_* / transform / diff
def _fn_catalogue(tree, other, read):
    """name -> (args dict, thunk).  `other` is a second, independent tree (diff target / expand source)."""
    dialect = read or None
    cat = {}
    cat["optimize"] = ({"tree": tree}, lambda: optimize(tree, schema=SCHEMA, dialect=dialect))
    cat["optimize-noschema"] = ({"tree": tree}, lambda: optimize(tree, dialect=dialect))

    def on_copy(fn):
        def run():
            c = tree.copy()
            return fn(c)

        return run

    cat["qualify-copy"] = ({"tree": tree}, on_copy(lambda c: qualify(c, schema=SCHEMA, dialect=dialect)))
    cat["qualify-copy-noschema"] = ({"tree": tree}, on_copy(lambda c: qualify(c, dialect=dialect)))
    cat["annotate-copy"] = ({"tree": tree}, on_copy(lambda c: annotate_types(c, schema=SCHEMA, dialect=dialect)))

    def chain(c):
        schema = ensure_schema(None, dialect=dialect)
        possible = {"db": None, "catalog": None, "schema": schema, "dialect": dialect, "sql": None, "isolate_tables": True, "quote_identifiers": False}
        import inspect

        for rule in _opt.RULES:
            params = inspect.getfullargspec(rule).args
            c = rule(c, **{p: possible[p] for p in params if p in possible})
        return c

    cat["rules-on-copy"] = ({"tree": tree}, on_copy(chain))
    cat["transform-id"] = ({"tree": tree}, lambda: tree.transform(lambda n: n))
    cat["transform-kind"] = ({"tree": tree}, lambda: tree.transform(lambda n: exp.Literal.number(7) if isinstance(n, exp.Column) else n))
    cat["transform-wrap"] = ({"tree": tree}, lambda: tree.transform(lambda n: exp.Paren(this=n) if isinstance(n, exp.Column) else n))
    cat["transform-drop"] = ({"tree": tree}, lambda: tree.transform(lambda n: None if isinstance(n, exp.Where) else n))
    src = parse_one("SELECT a, b, x, id, i FROM zsrc WHERE a > 0")  # does not mention t / u: no self-reference
    cat["expand"] = ({"tree": tree, "source": src}, lambda: exp.expand(tree, {"t": src, "u": (lambda: src)}, dialect=dialect))
    cat["replace_tables"] = ({"tree": tree}, lambda: exp.replace_tables(tree, {"t": "db.t9", "u": "u9"}, dialect=dialect))
    donor = parse_one("SELECT zz FROM dd")
    dn = donor.expressions[0]
    di = donor.args["from_"].this.this
    cat["replace_placeholders"] = (
        {"tree": tree, "donor": donor},
        lambda: exp.replace_placeholders(tree, dn, "lit", name=di),
    )
    cat["diff"] = ({"a": tree, "b": other}, lambda: sqlglot.diff(tree, other))
    cat["diff-delta"] = ({"a": tree, "b": other}, lambda: sqlglot.diff(other, tree, delta_only=True))
    cat["diff-self"] = ({"a": tree}, lambda: sqlglot.diff(tree, tree))
    sub = [c for _, _, c in children(tree)]
    if sub:
        s0 = sub[-1]
        cat["diff-subtree"] = ({"a": tree}, lambda: sqlglot.diff(tree, s0, delta_only=True))
        cat["diff-subtree-rev"] = ({"a": tree}, lambda: sqlglot.diff(s0, tree))
    tc = tree.copy()
    cat["diff-matchings"] = ({"a": tree, "b": tc}, lambda: sqlglot.diff(tree, tc, matchings=[(tree, tc)]))
    if isinstance(tree, exp.Query):
        names = []
        try:
            names = [s.alias_or_name for s in tree.selects if s.alias_or_name and s.alias_or_name != "*"]
        except Exception:
            names = []
        for nm in names[:2]:
            cat[f"lineage:{nm}"] = ({"tree": tree}, lambda nm=nm: lineage(nm, tree, dialect=dialect))
            cat[f"lineage-schema:{nm}"] = ({"tree": tree}, lambda nm=nm: lineage(nm, tree, schema=SCHEMA, dialect=dialect))
            cat[f"lineage-sources:{nm}"] = (
                {"tree": tree, "source": src},
                lambda nm=nm: lineage(nm, tree, sources={"t": src}, dialect=dialect),
            )
        cat["lineage-all"] = ({"tree": tree}, lambda: lineage(None, tree, dialect=dialect))
        for nm in names[:1]:
            # the column given as a node (spelled in upper case: lineage normalises the name it looks for)
            coln = exp.column(nm.upper())
            cat[f"lineage-colnode:{nm}"] = ({"tree": tree, "column": coln}, lambda coln=coln: lineage(coln, tree, dialect=dialect))

            # a caller-built scope of an already qualified tree
            def with_scope(nm=nm):
                return lineage(nm, tree, scope=build_scope(tree), dialect=dialect)

            cat[f"lineage-scope:{nm}"] = ({"tree": tree}, with_scope)
    # db / catalog given as identifier nodes
    dbn, catn = exp.to_identifier("MyDb"), exp.to_identifier("MyCat")
    cat["optimize-dbnodes"] = ({"tree": tree, "db": dbn, "catalog": catn}, lambda: optimize(tree, db=dbn, catalog=catn, dialect=dialect))
    cat["qualify-copy-dbnodes"] = ({"tree": tree, "db": dbn, "catalog": catn}, on_copy(lambda c: qualify(c, db=dbn, catalog=catn, dialect=dialect)))
    return cat


FRESH = {"transform-id", "transform-kind", "transform-wrap", "transform-drop", "optimize", "optimize-noschema", "replace_tables"}


def _fname(name):
    return name.split(":")[0]


def work_fn(item):
    _, sql, read, other_sql, names, prehash = item
    st = Stats()
    trees = _parse_all(sql, read)
    if not trees:
        st.skip("parse")
        return st.result()
    probe = _fn_catalogue(trees[0], parse_one(other_sql), read)
    todo = [n for n in probe if (names is None or _fname(n) in names)]
    for name in todo:
        # fresh trees per function: one function's damage must not be blamed on the next
        tree = _parse_all(sql, read)[0]
        other = parse_one(other_sql)
        if prehash:
            try:
                hash(tree)
                hash(other)
            except TypeError:
                st.skip("unhashable")
        cat = _fn_catalogue(tree, other, read)
        if name not in cat:
            continue
        args, thunk = cat[name]
        inp = {"kind": "fn", "sql": sql, "read": read, "other": other_sql, "fn": name, "prehash": prehash}
        guarded(st, _fname(name), (lambda cls: cls or "tree"), args, thunk, inp, result_must_be_fresh=_fname(name) in FRESH)
    return st.result()


def work_pair(item):
    _, sql, read, other_sql, f, g = item
    st = Stats()
    trees = _parse_all(sql, read)
    if not trees:
        st.skip("parse")
        return st.result()
    tree = trees[0]
    other = parse_one(other_sql)
    cat = _fn_catalogue(tree, other, read)
    if f not in cat or g not in cat:
        st.skip("not-applicable")
        return st.result()
    inp = {"kind": "pair", "sql": sql, "read": read, "other": other_sql, "fns": [f, g]}
    for name in (f, g):
        args, thunk = cat[name]
        guarded(st, _fname(name), (lambda cls, f=f, g=g: f"{cls or 'tree'}@{_fname(f)}+{_fname(g)}"), args, thunk, inp)
    return st.result()


# ---------------------------------------------------------------------------------------------------
# (3) builders
DONOR_SQL = (
    "WITH c AS (SELECT 1 AS q) SELECT a AS x, b, 'lit' FROM t AS tt JOIN u ON tt.i = u.i WHERE a = 1 AND b = 2 "
    "GROUP BY a HAVING SUM(b) > 1 ORDER BY a DESC LIMIT 5"
)
DONOR2_SQL = "SELECT CAST(q AS INT) AS ci FROM (SELECT 1 AS q) AS s"
DONOR3 = ("hive", "SELECT x FROM tbl LATERAL VIEW OUTER EXPLODE(y) tbl2 AS z")
INSTANCES = [
    "<fresh>",
    "SELECT b",
    "SELECT a, b FROM t WHERE x = 1",
    DONOR_SQL,
    "SELECT a FROM t JOIN u ON t.i = u.i GROUP BY a ORDER BY a LIMIT 1",
]
COND_INSTANCES = ["x = 1", "x = 1 AND y = 2", "x = 1 OR y", "NOT x", "x"]


class D:
    """donor nodes (all inner nodes of self.tree / self.tree2, or the whole trees)."""

    def __init__(self):
        t = self.tree = parse_one(DONOR_SQL)
        self.tree2 = parse_one(DONOR2_SQL)
        self.whole = parse_one("SELECT 9 AS nine")
        self.alias = t.expressions[0]
        self.col = t.expressions[1]
        self.lit = t.expressions[2]
        self.from_ = t.args["from_"]
        self.table = self.from_.this
        self.ident = t.args["joins"][0].this.this
        self.where = t.args["where"]
        self.cond = self.where.this
        self.eq = self.cond.this
        self.eq2 = self.cond.expression
        self.join = t.args["joins"][0]
        self.jointable = self.join.this
        self.joinon = self.join.args["on"]
        self.group = t.args["group"]
        self.groupexpr = self.group.expressions[0]
        self.having = t.args["having"]
        self.havingcond = self.having.this
        self.order = t.args["order"]
        self.ordered = self.order.expressions[0]
        self.limit = t.args["limit"]
        self.limitexpr = self.limit.expression
        self.with_ = t.args["with_"]
        self.cte = self.with_.expressions[0]
        self.ctequery = self.cte.this
        self.ctealias = self.cte.args["alias"]
        self.subq = self.tree2.args["from_"].this
        self.subsel = self.subq.this
        self.col2 = self.eq.this  # Column a inside the WHERE
        self.cast = self.tree2.expressions[0].this
        self.dtype = self.cast.args["to"]
        self.tree3 = parse_one(DONOR3[1], read=DONOR3[0])
        self.lateral = self.tree3.args["laterals"][0]
        # instances of non-Select builders
        self.case = parse_one("CASE WHEN a THEN b END")
        self.insert = parse_one("INSERT INTO t SELECT 1")
        self.delete = parse_one("DELETE FROM t")
        self.update = parse_one("UPDATE t SET a = 1")
        self.union = parse_one("SELECT 1 AS a UNION SELECT 2 AS a")
        self.crossq = parse_one("SELECT * FROM a CROSS JOIN b")
        self.cross = self.crossq.args["joins"][0]

    def trees(self):
        return {
            "donor": self.tree,
            "donor2": self.tree2,
            "donor3": self.tree3,
            "whole": self.whole,
            "case": self.case,
            "insert": self.insert,
            "delete": self.delete,
            "update": self.update,
            "union": self.union,
            "crossq": self.crossq,
        }


SELECT_BUILDERS = {
    # string arguments
    "select(str)": lambda s, d: s.select("zz"),
    "select(str,append=False)": lambda s, d: s.select("zz", append=False),
    "from_(str)": lambda s, d: s.from_("t9"),
    "where(str)": lambda s, d: s.where("zz = 1"),
    "where(str,append=False)": lambda s, d: s.where("zz = 1", append=False),
    "join(str,on=str)": lambda s, d: s.join("j", on="j.a = zz"),
    "join(str,using=[str])": lambda s, d: s.join("j", using=["a", "b"]),
    "join(str,join_type)": lambda s, d: s.join("j", on="j.a = zz", join_type="left outer"),
    "join(select-str)": lambda s, d: s.join("SELECT 1 AS a", on="TRUE", join_alias="sq"),
    "group_by(str)": lambda s, d: s.group_by("zz"),
    "order_by(str)": lambda s, d: s.order_by("zz DESC"),
    "sort_by(str)": lambda s, d: s.sort_by("zz"),
    "cluster_by(str)": lambda s, d: s.cluster_by("zz"),
    "limit(int)": lambda s, d: s.limit(3),
    "offset(int)": lambda s, d: s.offset(2),
    "with_(str,str)": lambda s, d: s.with_("cte2", as_="SELECT 1 AS q"),
    "with_(recursive)": lambda s, d: s.with_("cte2", as_="SELECT 1 AS q", recursive=True),
    "having(str)": lambda s, d: s.having("zz > 1"),
    "qualify(str)": lambda s, d: s.qualify("zz = 1"),
    "window(str)": lambda s, d: s.window("w AS (PARTITION BY zz)"),
    "lateral(str)": lambda s, d: s.lateral("OUTER explode(y) tbl2 AS z"),
    "distinct(str)": lambda s, d: s.distinct("zz"),
    "distinct()": lambda s, d: s.distinct(),
    "hint(str)": lambda s, d: s.hint("BROADCAST(y)"),
    "subquery(str)": lambda s, d: s.subquery("sq"),
    "union(str)": lambda s, d: s.union("SELECT 2"),
    "intersect(str)": lambda s, d: s.intersect("SELECT 2"),
    "except_(str)": lambda s, d: s.except_("SELECT 2"),
    "ctas(str)": lambda s, d: s.ctas("newt"),
    "lock()": lambda s, d: s.lock(),
    # node arguments taken from ANOTHER tree (d.tree / d.tree2)
    "select(node)": lambda s, d: s.select(d.col),
    "select(alias-node)": lambda s, d: s.select(d.alias),
    "from_(table-node)": lambda s, d: s.from_(d.table),
    "from_(from-node)": lambda s, d: s.from_(d.from_),
    "from_(subquery-node)": lambda s, d: s.from_(d.subq),
    "where(node)": lambda s, d: s.where(d.eq),
    "where(and-node)": lambda s, d: s.where(d.cond),
    "where(where-node)": lambda s, d: s.where(d.where),
    "join(join-node)": lambda s, d: s.join(d.join),
    "join(join-node,on=str)": lambda s, d: s.join(d.join, on="q = 1"),
    "join(join-node,join_type)": lambda s, d: s.join(d.join, join_type="left"),
    "join(join-node,join_alias)": lambda s, d: s.join(d.join, join_alias="ja"),
    "join(table-node,on=node)": lambda s, d: s.join(d.jointable, on=d.joinon),
    "join(str,on=node)": lambda s, d: s.join("j", on=d.eq),
    "join(str,using=[ident-node])": lambda s, d: s.join("j", using=[d.ident]),
    "join(select-node)": lambda s, d: s.join(d.subsel, on="TRUE"),
    "group_by(node)": lambda s, d: s.group_by(d.groupexpr),
    "group_by(group-node)": lambda s, d: s.group_by(d.group),
    "order_by(ordered-node)": lambda s, d: s.order_by(d.ordered),
    "order_by(order-node)": lambda s, d: s.order_by(d.order),
    "sort_by(node)": lambda s, d: s.sort_by(d.col),
    "cluster_by(node)": lambda s, d: s.cluster_by(d.col),
    "limit(limit-node)": lambda s, d: s.limit(d.limit),
    "limit(node)": lambda s, d: s.limit(d.limitexpr),
    "offset(node)": lambda s, d: s.offset(d.limitexpr),
    "with_(str,as_=node)": lambda s, d: s.with_("cte2", as_=d.ctequery),
    "with_(alias-node,as_=str)": lambda s, d: s.with_(d.ctealias, as_="SELECT 1 AS q"),
    "having(node)": lambda s, d: s.having(d.havingcond),
    "qualify(node)": lambda s, d: s.qualify(d.eq),
    "distinct(node)": lambda s, d: s.distinct(d.col),
    "hint(node)": lambda s, d: s.hint(d.col),
    "lateral(node)": lambda s, d: s.lateral(d.lateral),
    "subquery(alias-node)": lambda s, d: s.subquery(d.ctealias),
    "union(select-node)": lambda s, d: s.union(d.subsel),
    "ctas(table-node)": lambda s, d: s.ctas(d.table),
    # whole trees as arguments
    "from_(whole-tree)": lambda s, d: s.from_(d.whole.subquery("w")),
    "union(whole-tree)": lambda s, d: s.union(d.whole),
    "with_(str,as_=whole-tree)": lambda s, d: s.with_("cte2", as_=d.whole),
    "where(whole-cond)": lambda s, d: s.where(parse_one("q = 1")),
}

COND_BUILDERS = {
    "and_(str)": lambda c, d: c.and_("zz = 1"),
    "or_(str)": lambda c, d: c.or_("zz = 1"),
    "not_()": lambda c, d: c.not_(),
    "and_(node)": lambda c, d: c.and_(d.eq),
    "or_(node)": lambda c, d: c.or_(d.eq),
    "and_(node,node)": lambda c, d: c.and_(d.eq, d.eq2),
    "and_(node,wrap=False)": lambda c, d: c.and_(d.eq, wrap=False),
    "exp.and_(inst,node)": lambda c, d: exp.and_(c, d.eq),
    "exp.or_(inst,node)": lambda c, d: exp.or_(c, d.cond),
    "exp.xor(inst,node)": lambda c, d: exp.xor(c, d.eq),
    "exp.not_(node)": lambda c, d: exp.not_(d.eq),
    "exp.not_(inst)": lambda c, d: exp.not_(c),
    "condition(inst).and_(node)": lambda c, d: exp.condition(c).and_(d.eq),
    "condition(str).and_(node)": lambda c, d: exp.condition("x=1").and_(d.eq),
    "condition(node)": lambda c, d: exp.condition(d.eq),
    "paren(node)": lambda c, d: exp.paren(d.eq),
    "alias_(node,str)": lambda c, d: exp.alias_(d.col, "al"),
    "alias_(node,ident-node)": lambda c, d: exp.alias_(d.col, d.ident),
    "alias_(table-node,table=True)": lambda c, d: exp.alias_(d.jointable, "al", table=True),
    "as_(str)": lambda c, d: d.col.as_("al"),
    "inst.as_(str)": lambda c, d: c.as_("al"),
    "cast(node,str)": lambda c, d: exp.cast(d.col, "int"),
    "func(name,node)": lambda c, d: exp.func("COALESCE", d.col, 1),
    "func(anon,node)": lambda c, d: exp.func("MY_UDF", d.col, d.lit),
    "case().when(node,node).else_(node)": lambda c, d: exp.case().when(d.eq, d.col).else_(d.lit),
    "case(node)": lambda c, d: exp.case(d.col).when("1", "2"),
    "column(ident-node)": lambda c, d: exp.column(d.ident),
    "column(str,table=ident-node)": lambda c, d: exp.column("cc", table=d.ident),
    "table_(ident-node)": lambda c, d: exp.table_(d.ident),
    "to_identifier(ident-node)": lambda c, d: exp.to_identifier(d.ident),
    "to_table(table-node)": lambda c, d: exp.to_table(d.table),
    "to_column(col-node)": lambda c, d: exp.to_column(d.col),
    "tuple_(node,int)": lambda c, d: exp.tuple_(d.col, 1),
    "array(node)": lambda c, d: exp.array(d.col, d.lit),
    "subquery(select-node)": lambda c, d: exp.subquery(d.subsel, "al"),
    "exp.union(node,node)": lambda c, d: exp.union(d.subsel, d.ctequery),
    "exp.select(node)": lambda c, d: exp.select(d.col),
    "exp.from_(table-node)": lambda c, d: exp.from_(d.table),
    "exp.select(str).from_(table-node)": lambda c, d: exp.select("b").from_(d.table),
    "update(str,{k:node},where=node)": lambda c, d: exp.update("t", {"a": d.col}, where=d.eq),
    "update(table-node,from_=from-node)": lambda c, d: exp.update(d.table, {"a": 1}, from_=d.from_),
    "delete(table-node,where=node)": lambda c, d: exp.delete(d.table, where=d.eq),
    "delete(str,where=where-node)": lambda c, d: exp.delete("t", where=d.where),
    "insert(select-node,table-node)": lambda c, d: exp.insert(d.subsel, d.table),
    "insert(str,str,columns=[ident-node])": lambda c, d: exp.insert("SELECT 1", "t", columns=[d.ident]),
    "merge(when-str,into=table-node,on=node)": lambda c, d: exp.merge("WHEN MATCHED THEN DELETE", into=d.table, using="s", on=d.eq),
    "values([(node,)])": lambda c, d: exp.values([(d.lit, 1)], alias="v", columns=["a", "b"]),
    "binop(node+node)": lambda c, d: d.col + d.lit,
    "binop(inst+int)": lambda c, d: c + 1,
    "binop(int-inst)": lambda c, d: 1 - c,
    "and-op(inst&node)": lambda c, d: c & d.eq,
    "neg(node)": lambda c, d: -d.col,
    "invert(node)": lambda c, d: ~d.eq,
    "isin(node,node)": lambda c, d: d.col.isin(d.lit, 1),
    "isin(query=select-node)": lambda c, d: d.col.isin(query=d.subsel),
    "between(node,node)": lambda c, d: d.col.between(d.lit, 5),
    "like(node)": lambda c, d: d.col.like(d.lit),
    "eq(node)": lambda c, d: d.col.eq(d.lit),
    "is_(node)": lambda c, d: d.col.is_(exp.null()),
    "getitem(node)": lambda c, d: d.col[d.lit],
    "asc()": lambda c, d: d.col.asc(),
    "desc()": lambda c, d: d.col.desc(),
    "div(node)": lambda c, d: d.col.div(d.lit),
    "to_interval(node)": lambda c, d: exp.to_interval(d.lit),
    "var(node)": lambda c, d: exp.var(d.col),
    "rename_table(table-node,str)": lambda c, d: exp.rename_table(d.table, "nn"),
    "Table.to_column()": lambda c, d: d.table.to_column(),
    "Column.to_dot()": lambda c, d: d.joinon.this.to_dot(),
    "Join.on(node)": lambda c, d: d.join.on(d.eq),
    "Join.on(str)": lambda c, d: d.join.on("q = 1"),
    "Join.using(str)": lambda c, d: d.join.using("q"),
    "Join.on(None)": lambda c, d: d.join.on(None),
    "Join.on(None)/cross": lambda c, d: d.cross.on(None),
    "Join.on(str)/cross": lambda c, d: d.cross.on("q = 1"),
    "Select.where(None)": lambda c, d: d.tree.where(None),
    "Select.having(None)": lambda c, d: d.tree.having(None),
    "Join.using(None)": lambda c, d: d.join.using(None),
    "Union.select(node)": lambda c, d: d.union.select(d.col),
    "Subquery.select(str)": lambda c, d: d.subq.select("zz"),
    "Union.select(str)": lambda c, d: d.union.select("zz"),
    "Union.limit(int)": lambda c, d: d.union.limit(1),
    "Union.order_by(node)": lambda c, d: d.union.order_by(d.ordered),
    "Subquery.where(node)": lambda c, d: d.subq.where(d.eq),
    "Subquery.limit(node)": lambda c, d: d.subq.limit(d.limitexpr),
    "Case.when(node,node)": lambda c, d: d.case.when(d.eq, d.col),
    "Case.else_(node)": lambda c, d: d.case.else_(d.col),
    "Insert.with_(str,as_=node)": lambda c, d: d.insert.with_("c2", as_=d.ctequery),
    "Delete.where(node)": lambda c, d: d.delete.where(d.eq),
    "Delete.delete(table-node)": lambda c, d: d.delete.delete(d.table),
    "Update.set_(node)": lambda c, d: d.update.set_(d.eq),
    "Update.where(node)": lambda c, d: d.update.where(d.eq),
    "Update.from_(table-node)": lambda c, d: d.update.from_(d.table),
    "DataType.build(dtype-node)": lambda c, d: exp.DataType.build(d.dtype),
    "cast(node,dtype-node)": lambda c, d: exp.cast(d.col, d.dtype),
    "cast(cast-node,same-type)": lambda c, d: exp.cast(d.cast, d.dtype.sql()),
    "cast(cast-node,same-type,dialect)": lambda c, d: exp.cast(d.cast, d.dtype.sql(), dialect="postgres"),
    "cast(cast-node,other-type)": lambda c, d: exp.cast(d.cast, "text"),
    "try_cast-like: cast(cast-node,dtype-node)": lambda c, d: exp.cast(d.cast, d.dtype),
}


def work_builder(item):
    _, which, name, inst_sql = item
    st = Stats()
    d = D()
    if which == "select":
        inst = exp.Select() if inst_sql == "<fresh>" else parse_one(inst_sql)
        fn = SELECT_BUILDERS[name]
    else:
        inst = parse_one(inst_sql)
        fn = COND_BUILDERS[name]
    for prehash in (False, True):
        d = D()
        if which == "select":
            inst = exp.Select() if inst_sql == "<fresh>" else parse_one(inst_sql)
        else:
            inst = parse_one(inst_sql)
        if prehash:
            for t in [inst] + list(d.trees().values()):
                try:
                    hash(t)
                except (TypeError, AssertionError):
                    pass
        args = {"instance": inst}
        args.update(d.trees())
        inp = {"kind": "builder", "which": which, "builder": name, "instance": inst_sql, "prehash": prehash}
        # the roots of whole trees handed over as arguments are adopted by the new parent: not part of the snapshot
        site = ("Select." if which == "select" else "") + name.split("(")[0]
        guarded(st, "builder", site, args, lambda: fn(inst, d), inp, root_parent=set(args) - {"whole"})
    return st.result()


# ---------------------------------------------------------------------------------------------------
# (4) copy clause
def _mutations(c):
    """deterministic edit thunks over every position of tree c: (description, thunk)."""
    out = []
    for p, (n, holder, k, i) in enumerate(nodes(c)):
        if holder is not None:
            out.append((f"replace#{p}", lambda n=n: n.replace(exp.column("mm"))))
            out.append((f"pop#{p}", lambda n=n: n.pop()))
        for ak, av in list(n.args.items()):
            if isinstance(av, str):
                out.append((f"set-str#{p}.{ak}", lambda n=n, ak=ak: n.set(ak, "MUT")))
            elif type(av) is list:
                out.append((f"append#{p}.{ak}", lambda n=n, ak=ak: n.append(ak, exp.column("mm"))))
                out.append((f"inplace-list-append#{p}.{ak}", lambda av=av: av.append(exp.column("mm"))))
            elif isinstance(av, bool):
                out.append((f"set-bool#{p}.{ak}", lambda n=n, ak=ak, av=av: n.set(ak, not av)))
        out.append((f"args-dict#{p}", lambda n=n: n.args.__setitem__("zzz", "MUT")))
        if n.comments is not None:
            out.append((f"comments-append#{p}", lambda n=n: n.comments.append("MUT")))
        out.append((f"add-comments#{p}", lambda n=n: n.add_comments(["MUT"])))
        if n._meta is not None:
            out.append((f"meta-set#{p}", lambda n=n: n.meta.__setitem__("mut", "MUT")))
            for mk, mv in list(n._meta.items()):
                if isinstance(mv, list):
                    out.append((f"meta-inner-list#{p}", lambda mv=mv: mv.append("MUT")))
                elif isinstance(mv, dict):
                    out.append((f"meta-inner-dict#{p}", lambda mv=mv: mv.__setitem__("mut", "MUT")))
        if n._type is not None and isinstance(n._type, Expr):
            out.append((f"type-edit#{p}", lambda n=n: n._type.set("nullable", True)))
            out.append((f"type-args#{p}", lambda n=n: n._type.append("expressions", exp.DataType.build("int"))))
    return out


def _decorate(tree):
    """attach comments / meta (with nested mutable values) to some nodes so that sharing of those is observable."""
    for p, (n, *_r) in enumerate(nodes(tree)):
        if p % 3 == 0:
            n.add_comments([f"c{p}"])
        if p % 4 == 0:
            n.meta["k"] = {"inner": [p]}
            n.meta["l"] = [p, "x"]
    return tree


def work_copy(item):
    _, sql, read, annotate = item
    st = Stats()
    trees = _parse_all(sql, read)
    if not trees:
        st.skip("parse")
        return st.result()
    tree = trees[0]
    _decorate(tree)
    if annotate:
        try:
            tree = annotate_types(tree, schema=SCHEMA, dialect=read or None)
        except Exception as e:
            st.skip(f"annotate:{type(e).__name__}")
            return st.result()
    inp0 = {"kind": "copy", "sql": sql, "read": read, "annotate": annotate}

    def viol(kind, site, what, extra=None):
        st.viol.append({"key": f"c09:copy:{kind}:{site}", "what": what, "input": dict(inp0, edit=extra)})

    for prehash in (False, True):
        if prehash:
            try:
                hash(tree)
            except TypeError:
                st.skip("unhashable")
                break
        fp_tree = fingerprint(tree)
        c = tree.copy()
        st.evals += 1
        st.calls["copy"] = st.calls.get("copy", 0) + 1
        try:
            eq = c == tree
        except TypeError:
            eq = None
            st.skip("unhashable")
        if eq is False:
            viol("structure", "not-equal", "tree.copy() != tree")
        if canon(c) != canon(tree):
            viol("structure", "canon", "tree.copy() differs structurally from tree")
        fc = fingerprint(c, ids=False)
        if fc != fingerprint(tree, ids=False):
            d = fp_diff(fingerprint(tree, ids=False), fc)
            viol(d[0], d[2] or "tree", f"copy differs from the original: {d[1]}")
        shared = _ids(c) & _ids(tree)
        if shared:
            viol("shared-node", "node", "copy shares node objects with the original")
        # non-node sharing: comments lists, meta dicts, type objects
        for (a, *_x), (b, *_y) in zip(nodes(tree), nodes(c)):
            if a.comments is not None and a.comments is b.comments:
                viol("shared-node", "comments-list", "copy shares a comments list with the original")
            if a._meta is not None and a._meta is b._meta:
                viol("shared-node", "meta-dict", "copy shares a meta dict with the original")
            if a._type is not None and a._type is b._type:
                viol("shared-node", "type", "copy shares a type object with the original")
            for ak, av in a.args.items():
                if type(av) is list and av is b.args.get(ak):
                    viol("shared-node", "arg-list", f"copy shares the list object of arg {ak!r} of a {type(a).__name__} with the original")
        for clause, what, site in wf(c, root_detached=True):
            viol("parent", f"wf-{clause}", what)
        for clause, what, site in hash_ok(c):
            if clause != "unhashable":
                viol("hash", site, what)
        if fingerprint(tree) != fp_tree:
            viol("structure", "copy-changed-original", "copy() changed the original")
        # edit the copy at every position: original untouched; and the other way round
        n_edits = len(_mutations(c))
        for direction in ("edit-copy", "edit-original"):
            for j in range(n_edits):
                orig = tree.copy()  # stands for "the original" (we need a fresh one per edit)
                if prehash:
                    hash(orig)
                cp = orig.copy()
                victim, witness = (cp, orig) if direction == "edit-copy" else (orig, cp)
                muts = _mutations(victim)
                if j >= len(muts):
                    viol("structure", "edit-list-differs", "copies of the same tree offer different edit positions")
                    continue
                desc, thunk = muts[j]
                before = fingerprint(witness)
                try:
                    thunk()
                except Exception as e:
                    st.skip(f"edit:{type(e).__name__}")
                st.evals += 1
                d = fp_diff(before, fingerprint(witness))
                if d:
                    viol(d[0], f"{direction}:{desc.split('#')[0]}", f"{direction} {desc}: {d[1]}", extra=[direction, desc])
                else:
                    for clause, what, site in hash_ok(witness):
                        if clause != "unhashable":
                            viol("hash", f"{direction}:{desc.split('#')[0]}", what, extra=[direction, desc])
                            break
        st.nontrivial += 1
    return st.result()


# ---------------------------------------------------------------------------------------------------
WORK = {"sql": work_sql, "fn": work_fn, "pair": work_pair, "builder": work_builder, "copy": work_copy}


def work(item):
    return WORK[item[0]](item)


EMPTY_LIST_ARG_STATEMENTS = ["SELECT f(a, b), g() FROM t", "SELECT FOO(), COUNT(), ARRAY() FROM t", "SELECT STRUCT() AS s FROM t WHERE h()"]

PAIR_FNS = ["optimize", "qualify-copy", "annotate-copy", "transform-id", "diff", "diff-self", "expand", "replace_tables", "lineage-all", "rules-on-copy"]


def _plan(tier):
    ds = corpus.dialects()
    items = []
    stm = corpus.STATEMENTS
    # (4) copy clause (heaviest items first: better load balance)
    copy_stm = stm if tier == "thorough" else stm[:40]
    for sql in copy_stm:
        for annotate in (False, True):
            items.append(("copy", sql, "", annotate))
    for read, sql in DIALECT_SPECIFIC:
        items.append(("copy", sql, read, False))
    # nodes whose list-valued args are EMPTY (zero-argument calls, empty constructors): a shared empty list is invisible
    # until someone appends to it
    for sql in EMPTY_LIST_ARG_STATEMENTS:
        if sql not in copy_stm:
            items.append(("copy", sql, "", False))
    # (1) sql
    if tier == "quick":
        reads = [""]
        opt_sets = [{}]
    else:
        reads = ds
        opt_sets = [{}, {"pretty": True}, {"identify": True}, {"normalize": True, "pad": 4}, {"comments": False}, {"unsupported_level": sqlglot.ErrorLevel.IGNORE}]
    for read in reads:
        for sql in stm:
            for prehash in (False, True):
                for opts in opt_sets:
                    items.append(("sql", sql, read, ds, prehash, opts))
    for read, sql in DIALECT_SPECIFIC:
        for prehash in (False, True):
            items.append(("sql", sql, read, ds, prehash, {}))
    if tier == "quick":
        for sql in stm[:24]:
            items.append(("sql", sql, "", ds, False, {"pretty": True, "identify": True}))
    # (2) functions
    fn_reads = [""] if tier == "quick" else ["", "bigquery", "snowflake", "tsql", "mysql", "postgres", "duckdb", "spark"]
    for read in fn_reads:
        for i, sql in enumerate(stm):
            other = stm[(i + 1) % len(stm)] if ";" not in stm[(i + 1) % len(stm)] else stm[0]
            for prehash in (False, True):
                items.append(("fn", sql, read, other, None, prehash))
    for read, sql in DIALECT_SPECIFIC:
        items.append(("fn", sql, read, "SELECT a FROM t", None, False))
    # pairs
    pair_stm = stm[:12] if tier == "quick" else stm[:40]
    for sql in pair_stm:
        for f in PAIR_FNS:
            for g in PAIR_FNS:
                if f != g:
                    items.append(("pair", sql, "", "SELECT a FROM t WHERE a > 1", f, g))
    # (3) builders
    for name in SELECT_BUILDERS:
        for inst in INSTANCES:
            items.append(("builder", "select", name, inst))
    for name in COND_BUILDERS:
        for inst in COND_INSTANCES:
            items.append(("builder", "cond", name, inst))
    return items


def run(tier, seed):
    from sqlglot.dialects.dialect import Dialect

    for _d in corpus.dialects():  # import every dialect module once, before the pool forks
        Dialect.get_or_raise(_d or None)
    plan = _plan(tier)
    order = list(range(len(plan)))
    if seed:
        import random

        random.Random(seed).shuffle(order)
    res = harness.pool_map(work, [plan[i] for i in order], chunksize=2)
    evals = sum(r["evals"] for r in res)
    nontrivial = sum(r["nontrivial"] for r in res)
    calls, skips, viol, counts = {}, {}, {}, {}
    for r in res:
        for k, v in r["calls"].items():
            calls[k] = calls.get(k, 0) + v
        for k, v in r["skips"].items():
            skips[k] = skips.get(k, 0) + v
        for k, v in r["viol_counts"].items():
            counts[k] = counts.get(k, 0) + v
        for x in r["viol"]:
            old = viol.get(x["key"])
            if old is None or _rank(x) < _rank(old):
                viol[x["key"]] = x
    violations = []
    for k in sorted(viol):
        x = dict(viol[k])
        x["count"] = counts[k]
        violations.append(x)
    kinds = {}
    for it in plan:
        kinds[it[0]] = kinds.get(it[0], 0) + 1
    return {
        "evaluations": evals,
        "distinct_nontrivial": nontrivial,
        "rule": "calls that completed without raising (the argument snapshot is compared in every case); copy clause: one per (tree, prehash)",
        "bound": f"work items by kind {kinds}; sql(): {len(corpus.STATEMENTS)} statements x {len(corpus.dialects())} target dialects (+{len(DIALECT_SPECIFIC)} dialect-specific parses); "
        f"{len(SELECT_BUILDERS)} Select builder calls x {len(INSTANCES)} instances, {len(COND_BUILDERS)} other builder calls x {len(COND_INSTANCES)} instances, each with and without populated hash caches; "
        "copy clause: every edit position of every tree, both directions",
        "exhaustive": True,
        "skips": skips,
        "samples": [plan[0][:3], plan[len(plan) // 2][:4], plan[-1][:3]],
        "violations": violations,
        "contract_evaluations": calls,
    }


def replay(entry):
    inp = entry["input"]
    k = inp["kind"]
    if k == "sql":
        item = ("sql", inp["sql"], inp["read"], [inp["write"]], inp["prehash"], inp["opts"])
    elif k == "fn":
        item = ("fn", inp["sql"], inp["read"], inp["other"], {_fname(inp["fn"])}, inp["prehash"])
    elif k == "pair":
        item = ("pair", inp["sql"], inp["read"], inp["other"], inp["fns"][0], inp["fns"][1])
    elif k == "builder":
        item = ("builder", inp["which"], inp["builder"], inp["instance"])
    elif k == "copy":
        item = ("copy", inp["sql"], inp["read"], inp["annotate"])
    else:
        return {"violated": None, "observed": f"unknown kind {k}"}
    r = work(item)
    hit = [x for x in r["viol"] if x["key"] == entry["key"]]
    return {"violated": bool(hit), "observed": hit[0]["what"] if hit else f"keys now: {sorted(r['viol_counts'])}"}


if __name__ == "__main__":
    harness.main(run, replay)
