"""C02 (bounded): transpilation between SQLite and DuckDB preserves query results on the real engines.
Runs under /venv/bin/python (sqlite3 from the standard library = SQLite 3.40, duckdb wheel installed in /venv).

Property.  For every query of the common fragment and every database instance, running the query on its source engine
and running the transpiled text on the target engine return the same rows (same multiset; same sequence where ORDER BY
makes the order total), for SQLite->DuckDB, DuckDB->SQLite and both identity directions.

Contract, evaluated on the REAL sqlglot.transpile and the REAL engines:

    out  = sqlglot.transpile(q, read=src, write=dst, unsupported_level=RAISE)     (one statement in, one out)
    for every database instance D of the bound:
        R_src = rows of q   on the src engine loaded with D         (an error here: q is outside the fragment -> skipped)
        R_dst = rows of out on the dst engine loaded with D
  (i)   error   the dst engine accepts `out` whenever the src engine accepted q on D      (not for the families of
                dialect-specific functions / syntax LENIENT_ERRORS: those are outside the common fragment, the construct
                may have no counterpart in the other engine; (ii) and (iii) apply to them whenever both engines answer)
  (ii)  rows    multiset(R_dst) == multiset(R_src)
  (iii) order   R_dst == R_src as sequences when the query is marked totally ordered (its last sort key is a key of
                the result)
  values are compared after: bool -> int, Decimal -> float, float rounded to 9 places (3 == 3.0), date/time -> ISO text.
  A query for which transpile raises UnsupportedError is skipped (sqlglot said it cannot translate it); any other
  exception from transpile is violation (i) with cause `transpile`.

Additionally, for the ORDER BY families without query-level alias references, the pairs SQLite->MySQL and DuckDB->MySQL are
evaluated with the MySQL text run on DuckDB configured to sort NULLs as MySQL does (see EMULATED_PAIRS): this exercises
the CASE simulation of NULLS FIRST / LAST, which is never generated for the four real pairs.

Bound.  The fixed databases DBS below (two tables t(id, a, b, s, d), u(id, a, c); NULL-bearing integer / text /
timestamp columns; 3 instances; thorough: + 2 grid instances holding every pair of a 5-value domain, and every direction
/ sort key in the window and multi-key ORDER BY families) x the enumerated query families of queries() x 4 dialect pairs.  Exhaustive over that
product, nothing sampled.  `seed` is unused.

Keys:  c02:<src>-<dst>:<family>:<shape>:<error|rows|order>     (shape = the construction tag of the query, not its text)
"""
import datetime
import decimal
import itertools
import os
import sys

sys.path.insert(0, os.path.dirname(os.path.dirname(os.path.abspath(__file__))))

from bounded import harness

import sqlglot
from sqlglot import errors as E

# families of dialect-specific constructs beyond the common fragment: the target engine rejecting the output is not a
# violation there (the construct may have no counterpart); a result that differs still is
LENIENT_ERRORS = {"expr-duckdb", "expr-sqlite", "sqlite-side", "duckdb-extra"}
PAIRS = [("sqlite", "duckdb"), ("duckdb", "sqlite"), ("sqlite", "sqlite"), ("duckdb", "duckdb")]
# The CASE simulation of NULLS FIRST / LAST (Generator.ordered_sql, the mechanism C02 is anchored in) is only generated
# for targets without the clause (MySQL, T-SQL).  No such engine is installed; MySQL's sort order for NULLs (smallest
# value) is reproduced by DuckDB with default_null_order = nulls_first_on_asc_last_on_desc, and the MySQL text of the
# families below is plain SQL DuckDB runs as is.  Only families where name resolution cannot differ between MySQL and
# DuckDB are used (no select-list alias is referenced at query level).
EMULATED_PAIRS = [("sqlite", "mysql"), ("duckdb", "mysql")]
EMULATED_FAMILIES = {"order-top", "order-limit", "order-two", "order-window", "order-window-shadow", "order-group", "order-join", "distinct-on", "qualify", "order-qualified-shadow"}

T_COLS = "id INTEGER, a INTEGER, b INTEGER, s {text}, d {ts}"
U_COLS = "id INTEGER, a INTEGER, c {text}"
DBS = [
    {"t": [(1, 1, 2, "ab", "2020-01-02 03:04:05"), (2, None, 2, None, None), (3, 7, None, "x", "2021-12-31 23:59:59"),
           (4, 3, 1, "Ab", "2020-01-02 00:00:00"), (5, None, None, "", None), (6, 3, 2, "abc", "1999-07-15 12:30:00")],
     "u": [(1, 1, "p"), (2, 3, "q"), (3, None, "r"), (4, 3, None), (5, 8, "p")]},
    {"t": [(1, 0, 0, "b", "2000-02-29 00:00:01"), (2, -2, 3, "B", "2010-10-10 10:10:10"), (3, None, 1, "a ", None), (4, 5, -1, None, "2024-03-01 18:00:00")],
     "u": [(1, 0, "x"), (2, None, None), (3, -2, "y")]},
    {"t": [(1, 2, 1, "m", "2022-06-05 04:03:02"), (2, 1, 2, "n", "2022-06-05 04:03:02"), (3, 2, 2, "m", "2023-01-01 00:00:00")],
     "u": [(1, 2, "k"), (2, 4, "l")]},
]


def _grid_db(values, strings, dates):
    """every pair (a, b) over `values` as one row of t; s and d cycle through the given lists; u holds every value once"""
    t = []
    for i, (a, b) in enumerate(itertools.product(values, repeat=2), 1):
        t.append((i, a, b, strings[i % len(strings)], dates[i % len(dates)]))
    u = [(i, v, strings[(i * 2) % len(strings)]) for i, v in enumerate(values + [values[1]], 1)]
    return {"t": t, "u": u}


# thorough: two larger instances with every combination of a small value domain (NULL, negative, zero, duplicates)
DBS_THOROUGH = DBS + [
    _grid_db([None, 0, 1, 2, -1], [None, "", "a", "A", "ab", "b ", "%"], [None, "2020-02-29 23:59:59", "1970-01-01 00:00:00", "2021-03-04 05:06:07"]),
    _grid_db([None, 3, 7, 3, 10], ["x", None, "X", "xy", "10", "9"], ["2000-01-01 00:00:00", None, "2038-01-19 03:14:07"]),
]
ACTIVE_DBS = DBS


# ---------------------------------------------------------------------------------------------------- queries
def Q(family, shape, sql, ordered=True):
    """sql: one text valid in both dialects, or {"sqlite": text | None, "duckdb": text | None}"""
    return {"family": family, "shape": shape, "sql": sql, "ordered": ordered}


def H(text):
    """stable shape tag of a hand-listed expression / query: a short digest, so editing the list does not renumber the rest"""
    import hashlib

    return hashlib.sha1(text.encode()).hexdigest()[:8]


DIRS = [("", "nodir"), (" ASC", "asc"), (" DESC", "desc")]
NULLS = [("", "dflt"), (" NULLS FIRST", "nf"), (" NULLS LAST", "nl")]
ORDER_KEYS = [("a", "a"), ("b", "b"), ("s", "s"), ("sum", "a + b"), ("neg", "-a"), ("cmp", "a > 2"), ("eq", "(a = b)"), ("notbetween", "NOT b BETWEEN 2 AND 3"),
              ("coalesce", "COALESCE(a, 0)"), ("coalesce-nullif", "COALESCE(a, NULLIF(b, 2))"), ("coalesce-arith", "COALESCE(a, b * 2)"), ("ifnull-col", "IFNULL(a, b)"), ("case", "CASE WHEN a > 2 THEN NULL ELSE b END"), ("len", "LENGTH(s)"), ("isnull", "a IS NULL"), ("in", "a IN (1, 3)")]
SHORT_KEYS = [k for k in ORDER_KEYS if k[0] in ("a", "cmp", "neg")]
WINDOW_FNS = [("rownum", "ROW_NUMBER()"), ("rank", "RANK()"), ("denserank", "DENSE_RANK()"), ("sum", "SUM(b)"), ("count", "COUNT(*)"), ("lag", "LAG(id)"),
              ("first", "FIRST_VALUE(id)"), ("last", "LAST_VALUE(id)")]


def order_queries(tier="quick"):
    out = []
    dirs2 = DIRS[::2] if tier == "quick" else DIRS
    wkeys = SHORT_KEYS if tier == "quick" else ORDER_KEYS
    for (kt, k), (d, dt), (n, nt) in itertools.product(ORDER_KEYS, DIRS, NULLS):
        out.append(Q("order-top", f"{kt}.{dt}.{nt}", f"SELECT id, a, b FROM t ORDER BY {k}{d}{n}, id"))
    for (kt, k), (d, dt), (n, nt) in itertools.product(SHORT_KEYS, dirs2, NULLS):
        for lt, lim in (("l2", "LIMIT 2"), ("l2o1", "LIMIT 2 OFFSET 1"), ("l3o2", "LIMIT 3 OFFSET 2")):
            out.append(Q("order-limit", f"{kt}.{dt}.{nt}.{lt}", f"SELECT id FROM t ORDER BY {k}{d}{n}, id {lim}"))
    for (d1, dt1), (n1, nt1), (d2, dt2), (n2, nt2) in itertools.product(dirs2, NULLS, dirs2, NULLS):
        out.append(Q("order-two", f"b.{dt1}.{nt1}.a.{dt2}.{nt2}", f"SELECT id FROM t ORDER BY b{d1}{n1}, a{d2}{n2}, id"))
    for (d, dt), (n, nt) in itertools.product(dirs2, NULLS):
        out.append(Q("order-alias", f"alias.{dt}.{nt}", f"SELECT id, a + b AS k FROM t ORDER BY k{d}{n}, id"))
        out.append(Q("order-alias", f"position.{dt}.{nt}", f"SELECT id, a + b AS k FROM t ORDER BY 2{d}{n}, 1"))
        out.append(Q("order-alias", f"shadow-coalesce.{dt}.{nt}", f"SELECT id, COALESCE(a, 0) AS a FROM t ORDER BY a{d}{n}, id"))
        out.append(Q("order-alias", f"shadow-neg.{dt}.{nt}", f"SELECT id, -a AS a FROM t ORDER BY a{d}{n}, id"))
        out.append(Q("order-alias", f"shadow-null.{dt}.{nt}", f"SELECT id, CASE WHEN a = 3 THEN NULL ELSE 1 END AS a FROM t ORDER BY a{d}{n}, id"))
        # a table-qualified sort key whose name is also a select-list alias of another expression: the key is the column
        out.append(Q("order-qualified-shadow", f"coalesce.{dt}.{nt}", f"SELECT t.id, COALESCE(t.a, 0) AS a FROM t ORDER BY t.a{d}{n}, t.id"))
        out.append(Q("order-qualified-shadow", f"swapped.{dt}.{nt}", f"SELECT t.id, t.b AS a, t.a AS b FROM t ORDER BY t.a{d}{n}, t.b{d}{n}, t.id"))
        out.append(Q("order-qualified-shadow", f"neg.{dt}.{nt}", f"SELECT t.id, -t.a AS a FROM t ORDER BY t.a{d}{n}, t.id"))
        out.append(Q("order-derived", f"derived-limit.{dt}.{nt}", f"SELECT id FROM (SELECT id, a FROM t ORDER BY a{d}{n}, id LIMIT 3) AS x ORDER BY id"))
        out.append(Q("order-derived", f"cte-limit.{dt}.{nt}", f"WITH c AS (SELECT id, a FROM t ORDER BY a{d}{n}, id LIMIT 2) SELECT id, a FROM c ORDER BY id"))
        out.append(Q("order-derived", f"in-subquery-limit.{dt}.{nt}", f"SELECT id FROM t WHERE id IN (SELECT id FROM t ORDER BY b{d}{n}, id LIMIT 2) ORDER BY id"))
        out.append(Q("order-setop", f"union.{dt}.{nt}", f"SELECT a FROM t UNION SELECT a FROM u ORDER BY a{d}{n}"))
        out.append(Q("order-setop", f"union-position-limit.{dt}.{nt}", f"SELECT a FROM t UNION SELECT a FROM u ORDER BY 1{d}{n} LIMIT 2"))
        out.append(Q("order-setop", f"unionall-two-keys.{dt}.{nt}", f"SELECT a, id FROM t UNION ALL SELECT a, id + 10 FROM u ORDER BY a{d}{n}, 2"))
        out.append(Q("order-group", f"group-key.{dt}.{nt}", f"SELECT b, COUNT(*) AS n FROM t GROUP BY b ORDER BY b{d}{n}"))
        out.append(Q("order-group", f"agg-key.{dt}.{nt}", f"SELECT b, SUM(a) AS n FROM t GROUP BY b ORDER BY SUM(a){d}{n}, b"))
        out.append(Q("order-group", f"agg-alias.{dt}.{nt}", f"SELECT b, MAX(a) AS n FROM t GROUP BY b ORDER BY n{d}{n}, b"))
        out.append(Q("order-join", f"join-key.{dt}.{nt}", f"SELECT t.id, u.id FROM t LEFT JOIN u ON t.a = u.a ORDER BY u.a{d}{n}, t.id, u.id"))
    for (ft, fn), (kt, k), (d, dt), (n, nt) in itertools.product(WINDOW_FNS, wkeys, dirs2, NULLS):
        out.append(Q("order-window", f"{ft}.{kt}.{dt}.{nt}", f"SELECT id, {fn} OVER (ORDER BY {k}{d}{n}, id) AS w FROM t ORDER BY id"))
    for (ft, fn), (d, dt), (n, nt) in itertools.product(WINDOW_FNS[:5], dirs2, NULLS):
        out.append(Q("order-window", f"{ft}.partition.{dt}.{nt}", f"SELECT id, {fn} OVER (PARTITION BY b ORDER BY a{d}{n}, id) AS w FROM t ORDER BY id"))
        out.append(Q("order-window", f"{ft}.rows-frame.{dt}.{nt}",
                     f"SELECT id, {fn} OVER (ORDER BY a{d}{n}, id ROWS BETWEEN 1 PRECEDING AND CURRENT ROW) AS w FROM t ORDER BY id"))
    for (d, dt), (n, nt) in itertools.product(dirs2, NULLS):
        # a select-list alias has the name of a column used as a window sort key: the window sees the column
        out.append(Q("order-window-shadow", f"coalesce.{dt}.{nt}", f"SELECT id, COALESCE(a, 0) AS a, ROW_NUMBER() OVER (ORDER BY a{d}{n}, id) AS rn FROM t ORDER BY id"))
        out.append(Q("order-window-shadow", f"neg.{dt}.{nt}", f"SELECT id, -a AS a, RANK() OVER (ORDER BY a{d}{n}) AS rn FROM t ORDER BY id"))
        out.append(Q("order-window-shadow", f"other-column.{dt}.{nt}", f"SELECT id, b AS a, SUM(id) OVER (ORDER BY a{d}{n}, id) AS w FROM t ORDER BY id"))
        out.append(Q("order-window-shadow", f"partition.{dt}.{nt}", f"SELECT id, COALESCE(b, 9) AS b, ROW_NUMBER() OVER (PARTITION BY b ORDER BY b{d}{n}, a{d}{n}, id) AS rn FROM t ORDER BY id"))
        out.append(Q("order-window-shadow", f"named-window.{dt}.{nt}", f"SELECT id, COALESCE(a, 0) AS a, ROW_NUMBER() OVER w AS rn FROM t WINDOW w AS (ORDER BY a{d}{n}, id) ORDER BY id"))
    return out


ARITH = ["+", "-", "*", "/", "%"]
OPN = {"+": "add", "-": "sub", "*": "mul", "/": "div", "%": "mod"}


def expr_queries():
    out = []

    def add(family, shape, e):
        if isinstance(e, dict):
            sql = {k: (f"SELECT id, {v} AS v FROM t ORDER BY id" if v else None) for k, v in e.items()}
        else:
            sql = f"SELECT id, {e} AS v FROM t ORDER BY id"
        out.append(Q(family, shape, sql))

    for o1, o2 in itertools.product(ARITH, repeat=2):
        for (x, y, z), vt in ((("a", "b", "2"), "ab2"), (("b", "3", "a"), "b3a")):
            add("expr-arith", f"{OPN[o1]}.{OPN[o2]}.flat.{vt}", f"{x} {o1} {y} {o2} {z}")
            add("expr-arith", f"{OPN[o1]}.{OPN[o2]}.left.{vt}", f"({x} {o1} {y}) {o2} {z}")
            add("expr-arith", f"{OPN[o1]}.{OPN[o2]}.right.{vt}", f"{x} {o1} ({y} {o2} {z})")
    for i, e in enumerate(["-a + b", "-(a + b)", "- a * b", "-a - -b", "+a - b", "a - (b - 1)", "a - b - 1", "a / b / 2", "a / (b / 2)", "a * (b + 1) - a % (b + 1)",
                           "a / 2", "a / 2.0", "a * 1.5", "7 / 2", "-7 / 2", "-7 % 3", "7 % -3", "a / 0", "a % 0", "1.0 * a / b", "(a + b) / 2", "a * b / 2 * 2"]):
        add("expr-arith-misc", H(e), e)
    for i, e in enumerate(["a || b", "s || a", "s || s || 'x'", "a || b || s", "-a || b", "a || b = '12'", "s || 'x' = 'abx'", "s || a IS NULL", "a || b IN ('12', '32')",
                           "a || b BETWEEN '10' AND '40'", "s || NULL", "COALESCE(s, '') || '-' || COALESCE(a, 0)", "a || 'x' || b", "s || 'x' LIKE 'a%'", "NOT s || 'x' = 'abx'",
                           "LENGTH(s || 'x') + 1", "s || 'x' || a < 'b'", "CASE WHEN a > 1 THEN s || 'p' ELSE 'q' || s END"]):
        add("expr-concat", H(e), e)
    # || next to arithmetic: well typed in DuckDB only (int || int -> text), where || binds looser than + - * / %
    for i, e in enumerate(["a + b || 2", "a || b + 2", "a * b || 2", "a || b * 2", "a - b || 1", "a % b || 1", "'x' || a + 1", "a // b || 1", "(a || b) || 2 * 3", "a || (b + 2)", "-a + b || s"]):
        add("expr-concat-arith", H(e), {"sqlite": None, "duckdb": e})
    for i, e in enumerate(["a < b", "a <= b", "a = b", "a <> b", "a != b", "a > 1 AND b > 1", "a > 1 OR b > 1", "NOT a > 1", "NOT a > 1 AND b > 1", "NOT (a > 1 AND b > 1)",
                           "a > 1 OR b > 1 AND a < 5", "(a > 1 OR b > 1) AND a < 5", "a IS NULL", "a IS NOT NULL", "a IS NULL OR b IS NULL", "a BETWEEN 1 AND 3",
                           "a NOT BETWEEN b AND 3", "a BETWEEN b AND b + 2 AND b > 0", "a IN (1, 3)", "a IN (1, NULL)", "a NOT IN (1, NULL)", "a NOT IN (1, 3)", "a IN (b, 3)",
                           "s LIKE 'a%'", "s NOT LIKE '%b'", "s LIKE 'A%'", "s LIKE '_b%'", "a + 1 > b * 2", "a & b", "a | b", "~a",
                           "NOT a IS NULL", "a IS NULL = b IS NULL", "NOT a = b OR a < b", "a <> 3 AND NOT b IN (1, 2)", "a > b IS NULL", "NOT NOT a > 1", "a = 1 OR NULL",
                           "a > 1 AND NULL", "s = 'ab' OR s = ''", "s < 'b'", "s > 'B'", "s BETWEEN 'a' AND 'b'"]):
        add("expr-logic", H(e), e)
    add("expr-logic", "is-column", {"sqlite": "a IS b", "duckdb": "a IS NOT DISTINCT FROM b"})
    add("expr-logic", "is-not-column", {"sqlite": "a IS NOT b", "duckdb": "a IS DISTINCT FROM b"})
    add("expr-logic", "double-equals", {"sqlite": "a == b", "duckdb": "a == b"})
    add("expr-logic", "glob", {"sqlite": "s GLOB 'a*'", "duckdb": "s GLOB 'a*'"})
    for i, e in enumerate(["CASE WHEN a > b THEN 'gt' WHEN a = b THEN 'eq' ELSE 'other' END", "CASE a WHEN 1 THEN 'one' WHEN 3 THEN 'three' END", "CASE WHEN a IS NULL THEN b ELSE a END",
                           "CASE b WHEN NULL THEN 1 ELSE 0 END", "CASE WHEN a > 1 THEN a END + 1", "CASE WHEN a THEN 'y' ELSE 'n' END", "CASE WHEN s = '' THEN NULL ELSE s END"]):
        add("expr-case", H(e), e)
    fns = ["COALESCE(a, b, 0)", "COALESCE(a, b)", "NULLIF(a, b)", "NULLIF(a, 3)", "IFNULL(a, 0)", "ABS(a)", "ABS(a - 4)", "LENGTH(s)", "UPPER(s)", "LOWER(s)", "SUBSTR(s, 2)",
           "SUBSTR(s, 1, 2)", "SUBSTR(s, 0, 2)", "SUBSTR(s, -1)", "SUBSTR(s, 2, 10)", "TRIM(s)", "LTRIM(s)", "RTRIM(s)", "REPLACE(s, 'a', 'zz')", "INSTR(s, 'b')", "ROUND(a / 2.0)", "ROUND(a * 1.25, 1)",
           "ROUND(2.5)", "ROUND(-2.5)", "CAST(a AS TEXT)", "CAST(a AS TEXT) || 'x'", "CAST('12' AS INTEGER) + a", "CAST(a AS REAL) / 2", "CAST(a / 2.0 AS INTEGER)", "CAST(-a / 2.0 AS INTEGER)",
           "LENGTH(s) + LENGTH(COALESCE(s, 'zz'))", "COALESCE(NULLIF(s, ''), 'empty')", "UPPER(SUBSTR(s, 1, 1)) || LOWER(SUBSTR(s, 2))",
           "SIGN(a)", "IIF(a > 2, 'big', 'small')", "TRIM(s, 'a')", "a IS TRUE", "a IS NOT FALSE", "(a > 1) IS TRUE", "NOT a", "a AND b", "a OR b"]
    for i, e in enumerate(fns):
        add("expr-func", H(e), e)
    dd = ["a << 1", "a >> 1", "GREATEST(a, b)", "LEAST(a, b)", "a // b", "a ** 2", "LEN(s)", "s[1:2]", "CONCAT(s, a)", "CONCAT_WS('-', s, a, b)", "STRPOS(s, 'b')", "LEFT(s, 2)", "RIGHT(s, 1)", "REVERSE(s)", "REPEAT(s, 2)",
          "a::VARCHAR || 'x'", "s::INTEGER", "IF(a > 2, 'big', 'small')", "s ILIKE 'a%'", "s SIMILAR TO 'a.*'", "LIST_VALUE(a, b)[1]", "STARTS_WITH(s, 'a')", "CONTAINS(s, 'b')",
          "LPAD(s, 4, '*')", "a BETWEEN SYMMETRIC 3 AND 1", "XOR(a, b)", "BIT_COUNT(a)", "EVEN(a)", "a IN (SELECT a FROM u)", "FLOOR(a / 2)", "CEIL(a / 2)", "TRUNC(a / 2)", "a / 2 * 2", "FDIV(a, 2)", "a % 2 = 1",
          "ISNULL(a)", "a NOTNULL", "DATE_PART('year', d)", "YEAR(d) + MONTH(d)", "DATE_TRUNC('month', d)::VARCHAR", "CAST(d AS DATE)::VARCHAR", "d + INTERVAL 1 DAY > TIMESTAMP '2020-01-02 12:00:00'",
          "DATE_DIFF('day', d, TIMESTAMP '2022-01-01 00:00:00')", "EPOCH(d)", "DAYOFWEEK(d)", "d::DATE = DATE '2020-01-02'", "COUNT(*) OVER ()", "a IS NOT DISTINCT FROM NULL"]
    for i, e in enumerate(dd):
        add("expr-duckdb", H(e), {"sqlite": None, "duckdb": e})
    ss = ["a << 1", "a >> 1", "a = b = 1", "CAST(s AS INTEGER)", "MAX(a, b)", "MIN(a, b)", "MAX(a, b, 2)", "(a > 1) + (b > 1)", "(a || b) * 2", "a + b || 2", "a || b * 2", "a * b || 2", "a || b + 2", "'x' || a + 1", "a < b || 2",
          "a / b * 1.0", "IFNULL(s, 'n') || IFNULL(a, 'n')", "DATE(d)", "TIME(d)", "DATETIME(d)", "DATE(d, '+1 day')", "DATE(d, 'start of month')", "JULIANDAY(d) > 2459000", "UNIXEPOCH(d)",
          "SUBSTRING(s, 2)", "s REGEXP 'a'", "TOTAL(a) OVER ()", "a NOT NULL", "a ISNULL", "a NOTNULL", "'1' + a", "s + 0", "'3' > a", "a = '1'", "+s", "-s",
          "LENGTH(a)", "SUBSTR(a, 1, 1)", "a || ''", "CAST(d AS TEXT)", "d < '2020-06-01'", "d BETWEEN '2020-01-01' AND '2020-12-31'", "s COLLATE NOCASE = 'AB'", "LIKELY(a > 1)", "RANDOM() IS NOT NULL",
          "ROUND(a / 2)", "a / 2 + a % 2", "(a + b) / 2.0", "MAX(a, 0) - MIN(b, 0)", "NULLIF(a / b, 0)", "COALESCE(a / b, -1)", "a * 1.0 / b", "SUM(a) OVER (ORDER BY id) / 2", "AVG(a) OVER ()"]
    for i, e in enumerate(ss):
        add("expr-sqlite", H(e), {"sqlite": e, "duckdb": None})
    for f, ft in [("%Y", "Y"), ("%m", "m"), ("%d", "d"), ("%H", "H"), ("%M", "M"), ("%S", "S"), ("%Y-%m-%d", "ymd"), ("%H:%M:%S", "hms"), ("%j", "j"), ("%w", "w"), ("%Y-%m-%dT%H:%M", "iso"),
                  ("%%", "pct"), ("%s", "epoch"), ("%f", "frac"), ("%W", "W"), ("%Y%m%d %H%M%S", "compact")]:
        add("expr-strftime", ft, {"sqlite": f"STRFTIME('{f}', d)", "duckdb": f"STRFTIME(d, '{f}')"})
    return out


def struct_queries():
    out = []

    def add(family, shape, sql, ordered=False):
        out.append(Q(family, shape, sql, ordered))

    J = [("inner", "JOIN", " ON t.a = u.a"), ("left", "LEFT JOIN", " ON t.a = u.a"), ("cross", "CROSS JOIN", ""), ("comma", ",", ""), ("left-or-null", "LEFT JOIN", " ON t.a = u.a OR u.a IS NULL"),
         ("inner-ineq", "JOIN", " ON t.a < u.a"), ("using", "JOIN", " USING (a)"), ("left-using", "LEFT JOIN", " USING (id)"), ("natural", "NATURAL JOIN", ""), ("full", "FULL JOIN", " ON t.a = u.a"),
         ("right", "RIGHT JOIN", " ON t.a = u.a")]
    for jt, j, c in J:
        add("join", jt, f"SELECT t.id, u.id FROM t {j} u{c} ORDER BY t.id, u.id", True)
        add("join", jt + ".where", f"SELECT t.id, u.c FROM t {j} u{c} WHERE t.b > 1 OR u.c IS NULL")
        add("join", jt + ".agg", f"SELECT COUNT(*), COUNT(u.a), SUM(t.a) FROM t {j} u{c}")
    add("join", "star-using", "SELECT * FROM t JOIN u USING (a)")
    add("join", "three", "SELECT t.id, u.id, v.id FROM t JOIN u ON t.a = u.a LEFT JOIN t AS v ON v.b = u.id ORDER BY 1, 2, 3", True)
    add("join", "self", "SELECT x.id, y.id FROM t AS x JOIN t AS y ON x.a = y.b ORDER BY x.id, y.id", True)
    for i, q in enumerate([
        "SELECT DISTINCT a FROM t", "SELECT DISTINCT a, b FROM t", "SELECT DISTINCT a + b FROM t", "SELECT COUNT(DISTINCT a) FROM t", "SELECT DISTINCT s FROM t ORDER BY s",
        "SELECT b, COUNT(*) FROM t GROUP BY b", "SELECT b, COUNT(a), SUM(a), MIN(a), MAX(a) FROM t GROUP BY b", "SELECT b, AVG(a) FROM t GROUP BY b", "SELECT COUNT(*), SUM(a), AVG(a), MIN(s), MAX(s) FROM t",
        "SELECT SUM(a) FROM t WHERE a > 100", "SELECT COUNT(a) FROM t WHERE a > 100", "SELECT b, SUM(a) FROM t GROUP BY b HAVING SUM(a) > 2", "SELECT b FROM t GROUP BY b HAVING COUNT(*) > 1",
        "SELECT a + b AS k, COUNT(*) FROM t GROUP BY a + b", "SELECT a + b AS k, COUNT(*) FROM t GROUP BY k", "SELECT a + b AS k, COUNT(*) FROM t GROUP BY 1", "SELECT b, a, COUNT(*) FROM t GROUP BY b, a",
        "SELECT COALESCE(b, 0) AS b, COUNT(*) FROM t GROUP BY COALESCE(b, 0)", "SELECT a > 2, COUNT(*) FROM t GROUP BY a > 2", "SELECT LENGTH(s), MAX(id) FROM t GROUP BY LENGTH(s)",
        "SELECT b, SUM(a) / COUNT(*) FROM t GROUP BY b", "SELECT b, SUM(a) * 1.0 / COUNT(a) FROM t GROUP BY b", "SELECT SUM(a) / 2 FROM t", "SELECT SUM(a + b), SUM(a) + SUM(b) FROM t",
        "SELECT b, COUNT(*) FILTER (WHERE a > 1) FROM t GROUP BY b", "SELECT SUM(a) FILTER (WHERE b = 2), COUNT(*) FILTER (WHERE s IS NULL) FROM t", "SELECT COUNT(*) FROM t GROUP BY b",
        "SELECT MAX(a) - MIN(a) FROM t GROUP BY b HAVING MAX(a) IS NOT NULL", "SELECT b, SUM(DISTINCT a) FROM t GROUP BY b", "SELECT MIN(d), MAX(s) FROM t WHERE d IS NOT NULL AND 1 = 0",
    ]):
        add("group", H(q), q)
    ops = [("union", "UNION"), ("unionall", "UNION ALL"), ("intersect", "INTERSECT"), ("except", "EXCEPT")]
    A, B, C = "SELECT a FROM t", "SELECT a FROM u", "SELECT b FROM t"
    for (t1, o1) in ops:
        add("setop", t1, f"{A} {o1} {B}")
        add("setop", t1 + ".two-columns", f"SELECT a, b FROM t {o1} SELECT a, id FROM u")
        add("setop", t1 + ".derived", f"SELECT COUNT(*), SUM(a) FROM ({A} {o1} {B}) AS x")
        add("setop", t1 + ".where", f"{A} WHERE b > 1 {o1} {B} WHERE c IS NOT NULL")
        add("setop", t1 + ".limit", f"SELECT a FROM ({A} {o1} {B}) AS x ORDER BY a LIMIT 2", True)
        for (t2, o2) in ops:
            add("setop3", f"{t1}.{t2}.flat", f"{A} {o1} {B} {o2} {C}")
            add("setop3", f"{t1}.{t2}.left", {"sqlite": f"SELECT * FROM ({A} {o1} {B}) {o2} {C}", "duckdb": f"({A} {o1} {B}) {o2} {C}"})
            add("setop3", f"{t1}.{t2}.right", {"sqlite": f"{A} {o1} SELECT * FROM ({B} {o2} {C})", "duckdb": f"{A} {o1} ({B} {o2} {C})"})
    for i, q in enumerate([
        "SELECT id FROM t WHERE a IN (SELECT a FROM u)", "SELECT id FROM t WHERE a NOT IN (SELECT a FROM u)", "SELECT id FROM t WHERE a NOT IN (SELECT a FROM u WHERE a IS NOT NULL)",
        "SELECT id FROM t WHERE EXISTS (SELECT 1 FROM u WHERE u.a = t.a)", "SELECT id FROM t WHERE NOT EXISTS (SELECT 1 FROM u WHERE u.a = t.a)", "SELECT id, (SELECT MAX(u.id) FROM u WHERE u.a = t.a) FROM t",
        "SELECT id, (SELECT COUNT(*) FROM u WHERE u.a = t.a) FROM t", "SELECT id FROM t WHERE a > (SELECT MIN(a) FROM u)", "SELECT id FROM t WHERE a = (SELECT a FROM u WHERE id = 99)",
        "SELECT id, a IN (SELECT a FROM u) FROM t", "SELECT id, EXISTS (SELECT 1 FROM u WHERE u.id = t.b) FROM t", "SELECT x.k FROM (SELECT a + b AS k FROM t) AS x WHERE x.k > 3",
        "SELECT * FROM (SELECT id, a FROM t WHERE a IS NOT NULL) AS x JOIN (SELECT a, COUNT(*) AS n FROM u GROUP BY a) AS y ON x.a = y.a", "WITH c AS (SELECT a, b FROM t WHERE a > 1) SELECT * FROM c",
        "WITH c AS (SELECT a FROM t), e AS (SELECT a FROM c WHERE a > 1) SELECT c.a, e.a FROM c LEFT JOIN e ON c.a = e.a", "WITH c(x, y) AS (SELECT a, b FROM t) SELECT y, x FROM c WHERE x > y",
        "WITH c AS (SELECT a FROM t UNION SELECT a FROM u) SELECT COUNT(*) FROM c AS p, c AS q WHERE p.a < q.a", "SELECT (SELECT SUM(a) FROM t) - (SELECT SUM(a) FROM u)",
        "SELECT id FROM t WHERE (a, b) IN (SELECT a, id FROM u)", "SELECT id FROM t WHERE b IN (SELECT id FROM u WHERE c IN (SELECT c FROM u WHERE a > 1))",
        "WITH RECURSIVE r(n) AS (SELECT 1 UNION ALL SELECT n + 1 FROM r WHERE n < 4) SELECT n, (SELECT COUNT(*) FROM t WHERE a >= n) FROM r",
        "SELECT 1 WHERE EXISTS (SELECT * FROM t WHERE a IS NULL)", "SELECT id, a FROM t WHERE a IS NULL OR a IN (SELECT MAX(a) FROM t)", "SELECT * FROM t", "SELECT t.*, u.c FROM t JOIN u ON t.id = u.id",
        "SELECT id AS \"Id\", a AS \"select\" FROM t WHERE \"a\" > 1", "SELECT `id`, `a` FROM t", "VALUES (1, 'a'), (2, NULL)", "SELECT * FROM (VALUES (1, 'a'), (2, NULL)) AS v",
        "SELECT 1, 2.5, 'x', NULL, TRUE, FALSE, 1e2, .5, 0x10, 'it''s', X'41'", "SELECT id FROM t LIMIT 0", "SELECT COUNT(*) FROM (SELECT id FROM t ORDER BY id LIMIT 2 OFFSET 5) AS x",
        "SELECT id FROM t ORDER BY id LIMIT 2, 3", "SELECT id FROM t ORDER BY id DESC LIMIT 1 + 1",
    ]):
        add("subquery", H(q), q)
    for i, q in enumerate([
        "SELECT id FROM t QUALIFY ROW_NUMBER() OVER (PARTITION BY b ORDER BY a, id) = 1", "SELECT id, RANK() OVER (ORDER BY a DESC) AS r FROM t QUALIFY r <= 2",
        "SELECT id FROM t WHERE a IS NOT NULL QUALIFY SUM(a) OVER (PARTITION BY b) > 3", "SELECT b, COUNT(*) AS n FROM t GROUP BY b QUALIFY ROW_NUMBER() OVER (ORDER BY COUNT(*) DESC, b) = 1",
        "SELECT DISTINCT ON (b) id, b, a FROM t ORDER BY b, a, id", "SELECT DISTINCT ON (b) id FROM t ORDER BY b, a DESC NULLS LAST, id", "SELECT DISTINCT ON (a, b) id FROM t ORDER BY a, b, id DESC",
        "SELECT DISTINCT ON (b) b, a AS x FROM t WHERE a > 0 ORDER BY b DESC, x", "SELECT t.id FROM t SEMI JOIN u ON t.a = u.a", "SELECT t.id FROM t ANTI JOIN u ON t.a = u.a",
        "SELECT t.id FROM t SEMI JOIN u ON t.a = u.a AND u.c = 'p'", "SELECT t.id FROM t ANTI JOIN u ON t.a = u.a WHERE t.b = 2", "SELECT t.id, t.a FROM t SEMI JOIN u USING (a)",
        "SELECT * EXCLUDE (d, s) FROM t", "SELECT * REPLACE (a + 1 AS a) FROM t", "SELECT id, a FROM t ORDER BY ALL", "SELECT b, SUM(a) FROM t GROUP BY ALL", "FROM t SELECT id WHERE a > 1",
        "SELECT id FROM t WHERE a > 1 LIMIT 50%", "SELECT ARG_MAX(id, a), ARG_MIN(id, a) FROM t", "SELECT STRING_AGG(s, ',' ORDER BY id) FROM t", "SELECT LIST(a ORDER BY a DESC NULLS LAST)::VARCHAR FROM t",
        "SELECT b, BOOL_AND(a > 1), BOOL_OR(a > 1) FROM t GROUP BY b", "SELECT MEDIAN(a), MODE(b) FROM t", "SELECT id, a FROM t t1 WHERE a = (SELECT MAX(a) FROM t t2 WHERE t2.b = t1.b)",
        "SELECT id, SUM(a) OVER (ORDER BY id ROWS BETWEEN UNBOUNDED PRECEDING AND CURRENT ROW) FROM t", "SELECT id, LEAD(a, 1, -1) OVER (ORDER BY id) FROM t", "SELECT id, NTILE(2) OVER (ORDER BY id) FROM t",
        "SELECT id FROM t WHERE a > ALL (SELECT a FROM u WHERE a < 3)", "SELECT id FROM t WHERE a = ANY (SELECT a FROM u)",
        "SELECT id, a, PERCENT_RANK() OVER (ORDER BY a NULLS FIRST, id) FROM t", "SELECT id, COUNT(a) OVER (PARTITION BY b), MAX(a) OVER (PARTITION BY b ORDER BY id) FROM t",
    ]):
        # the first 13 are the DuckDB-side constructs the property names (QUALIFY, DISTINCT ON, SEMI / ANTI joins)
        out.append(Q("duckdb-side" if i < 13 else "duckdb-extra", H(q), {"sqlite": None, "duckdb": q}, False))
    # DISTINCT ON keeps the first row of each group in ORDER BY order: the NULL placement of every sort key decides which
    for (d1, dt1), (n1, nt1), (d2, dt2), (n2, nt2) in itertools.product(DIRS[::2], NULLS, DIRS[::2], NULLS):
        tag = f"{dt1}.{nt1}.{dt2}.{nt2}"
        out.append(Q("distinct-on", "alias-is-column." + tag, {"sqlite": None, "duckdb": f"SELECT DISTINCT ON (t.b) t.b AS b, t.a AS a, t.id AS id FROM t ORDER BY b{d1}{n1}, a{d2}{n2}, id"}, False))
        out.append(Q("distinct-on", "plain." + tag, {"sqlite": None, "duckdb": f"SELECT DISTINCT ON (b) id, a, b FROM t ORDER BY b{d1}{n1}, a{d2}{n2}, id"}, False))
        out.append(Q("distinct-on", "qualified." + tag, {"sqlite": None, "duckdb": f"SELECT DISTINCT ON (t.b) t.id, t.a FROM t ORDER BY t.b{d1}{n1}, t.a{d2}{n2}, t.id"}, False))
        out.append(Q("distinct-on", "expression." + tag, {"sqlite": None, "duckdb": f"SELECT DISTINCT ON (b) id, a + 1 AS k FROM t ORDER BY b{d1}{n1}, a + 1{d2}{n2}, id"}, False))
        out.append(Q("distinct-on", "join." + tag, {"sqlite": None, "duckdb": f"SELECT DISTINCT ON (t.b) t.id, u.c AS c FROM t LEFT JOIN u ON t.a = u.a ORDER BY t.b{d1}{n1}, c{d2}{n2}, t.id, u.id"}, False))
        out.append(Q("qualify", "rownum." + tag, {"sqlite": None, "duckdb": f"SELECT id, a FROM t QUALIFY ROW_NUMBER() OVER (PARTITION BY b ORDER BY a{d1}{n1}, s{d2}{n2}, id) = 1"}, False))
    for i, q in enumerate([
        "SELECT id, SUM(a) OVER (ORDER BY id ROWS BETWEEN UNBOUNDED PRECEDING AND CURRENT ROW) FROM t", "SELECT id, LEAD(a, 1, -1) OVER (ORDER BY id) FROM t", "SELECT id, NTILE(2) OVER (ORDER BY id) FROM t",
        "SELECT id, COUNT(a) OVER (PARTITION BY b), MAX(a) OVER (PARTITION BY b ORDER BY id) FROM t", "SELECT id, SUM(a) OVER (ORDER BY b) FROM t", "SELECT id, SUM(a) OVER (ORDER BY b RANGE BETWEEN 1 PRECEDING AND CURRENT ROW) FROM t",
        "SELECT id, SUM(a) OVER w, COUNT(*) OVER w FROM t WINDOW w AS (PARTITION BY b ORDER BY id)", "SELECT GROUP_CONCAT(s) FROM (SELECT s FROM t ORDER BY id) AS x", "SELECT b, GROUP_CONCAT(a, '-') FROM (SELECT * FROM t ORDER BY id) AS x GROUP BY b",
        "SELECT TOTAL(a), TOTAL(b) FROM t WHERE a > 100", "SELECT id, a FROM t GROUP BY b HAVING id = MIN(id)", "SELECT b, MAX(a), id FROM t GROUP BY b", "SELECT id FROM t WHERE a", "SELECT id FROM t WHERE NOT b",
        "SELECT id FROM t WHERE s", "SELECT id, a FROM t WHERE a BETWEEN '1' AND '5'", "SELECT COUNT(*) FROM t WHERE d > '2020'", "SELECT id FROM t INDEXED BY i WHERE a = 1", "SELECT id FROM t NOT INDEXED WHERE a = 1",
        "SELECT id FROM t ORDER BY id LIMIT -1 OFFSET 2", "SELECT id FROM t WHERE a IS 3", "SELECT id FROM t WHERE a IS NOT 3", "SELECT id, a FROM t ORDER BY a COLLATE NOCASE, id", "SELECT s FROM t ORDER BY s COLLATE NOCASE DESC, id",
        "SELECT id FROM t ORDER BY s, id", "SELECT s, COUNT(*) FROM t GROUP BY s COLLATE NOCASE", "SELECT DISTINCT LOWER(s) FROM t", "REPLACE INTO u SELECT 9, 9, 'z'", "SELECT CAST(a AS BOOLEAN), CAST(s AS NUMERIC) FROM t",
    ]):
        out.append(Q("sqlite-side", H(q), {"sqlite": q, "duckdb": None}, False))
    return out


def queries(tier):
    return order_queries(tier) + expr_queries() + struct_queries()


# ---------------------------------------------------------------------------------------------------- engines
_ENG = {}


def engines():
    """per process: {dialect: [one loaded connection per database instance]}"""
    if _ENG.get("pid") != os.getpid():
        import sqlite3
        import duckdb

        _ENG.clear()
        _ENG["pid"] = os.getpid()
        lite, duck, mysql = [], [], []
        for db in ACTIVE_DBS:
            s = sqlite3.connect(":memory:")
            d = duckdb.connect(":memory:")
            m = duckdb.connect(":memory:")  # a separate database: the setting is per database instance
            d.execute("SET threads = 1")
            m.execute("SET threads = 1")
            m.execute("SET default_null_order = 'nulls_first_on_asc_last_on_desc'")
            for con, text, ts in ((s, "TEXT", "TEXT"), (d, "VARCHAR", "TIMESTAMP"), (m, "VARCHAR", "TIMESTAMP")):
                con.execute(f"CREATE TABLE t ({T_COLS.format(text=text, ts=ts)})")
                con.execute(f"CREATE TABLE u ({U_COLS.format(text=text)})")
                for row in db["t"]:
                    con.execute("INSERT INTO t VALUES (?, ?, ?, ?, ?)", row)
                for row in db["u"]:
                    con.execute("INSERT INTO u VALUES (?, ?, ?)", row)
            s.commit()
            lite.append(s)
            duck.append(d)
            mysql.append(m)
        _ENG["sqlite"], _ENG["duckdb"], _ENG["mysql"] = lite, duck, mysql
    return _ENG


def norm(v):
    if isinstance(v, bool):
        return int(v)
    if isinstance(v, decimal.Decimal):
        v = float(v)
    if isinstance(v, float):
        if v != v:
            return "NaN"
        if v in (float("inf"), float("-inf")):
            return "Inf" if v > 0 else "-Inf"
        r = round(v, 9)
        return int(r) if r == int(r) else r
    if isinstance(v, datetime.datetime):
        return v.isoformat(sep=" ")
    if isinstance(v, (datetime.date, datetime.time)):
        return v.isoformat()
    if isinstance(v, (bytes, bytearray, memoryview)):
        return "blob:" + bytes(v).hex()
    if isinstance(v, (list, tuple)):
        return "list:" + repr([norm(x) for x in v])
    return v


def _rank(v):
    return (0, 0) if v is None else (1, v) if isinstance(v, (int, float)) else (2, str(v))


def execute(dialect, k, sql):
    """-> ("ok", [normalised row tuples]) | ("err", "<class>: message")"""
    con = engines()[dialect][k]
    try:
        if dialect == "sqlite":
            cur = con.execute(sql)
            rows = cur.fetchall()
            con.rollback()
        else:
            con.execute("BEGIN")
            try:
                rows = con.execute(sql).fetchall()
            finally:
                con.execute("ROLLBACK")
    except Exception as e:  # engine errors are data
        if dialect == "sqlite":
            con.rollback()
        return "err", f"{type(e).__name__}: {str(e).splitlines()[0][:200]}"
    return "ok", [tuple(norm(v) for v in r) for r in rows]


def multiset(rows):
    return sorted(rows, key=lambda r: tuple(_rank(v) for v in r))


def transpile(sql, src, dst):
    """-> ("ok", text) | ("unsupported", msg) | ("err", msg)"""
    try:
        out = sqlglot.transpile(sql, read=src, write=dst, unsupported_level=E.ErrorLevel.RAISE)
    except E.UnsupportedError as e:
        return "unsupported", str(e)[:200]
    except E.SqlglotError as e:
        return "err", f"{type(e).__name__}: {str(e).splitlines()[0][:200]}"
    if len(out) != 1:
        return "err", f"{len(out)} statements"
    return "ok", out[0]


def check_item(item):
    q, (src, dst) = item
    if src == "athena~trino":
        res = {"status": "evaluated", "violations": [], "evals": 1, "nontrivial": 1}
        import logging as _lg

        _lg.getLogger("sqlglot").setLevel(_lg.CRITICAL)
        outs = {}
        for r in ("athena", "trino"):
            try:
                outs[r] = sqlglot.transpile(q["sql"], read=r, write=dst)
            except E.SqlglotError as e:
                outs[r] = f"{type(e).__name__}"
        if outs["athena"] != outs["trino"]:
            res["violations"].append({"key": f"c02:athena-vs-trino-{dst}:{q['family']}:{q['shape']}:text",
                                      "what": f"{q['sql']!r} read as athena -> {outs['athena']!r}, read as trino -> {outs['trino']!r}",
                                      "input": {"sql": q["sql"], "src": "athena~trino", "dst": dst, "db": 0, "ordered": q["ordered"]}})
        return res
    sql = q["sql"][src] if isinstance(q["sql"], dict) else q["sql"]
    res = {"status": "evaluated", "violations": [], "evals": 0, "nontrivial": 0}
    base = f"c02:{src}-{dst}:{q['family']}:{q['shape']}"
    st, out = transpile(sql, src, dst)
    res["evals"] += 1
    if st == "unsupported":
        res["status"] = "unsupported"
        return res
    # which instances the source engine accepts
    src_rows = [execute(src, k, sql) for k in range(len(ACTIVE_DBS))]
    if all(s == "err" for s, _ in src_rows):
        res["status"] = "outside-fragment"
        res["note"] = src_rows[0][1]
        return res
    if st == "err" and q["family"] in LENIENT_ERRORS:
        res["status"] = "outside-fragment"
        return res
    if st == "err":
        res["violations"].append({"key": base + ":error", "what": f"transpile raised {out} for a query the {src} engine runs",
                                  "input": {"sql": sql, "src": src, "dst": dst, "db": 0, "ordered": q["ordered"]}})
        return res
    seen = set()
    ordered = q["ordered"]
    if q["family"] == "distinct-on":
        # DISTINCT ON ... ORDER BY returns one row per group IN ORDER BY ORDER (the queries of this family end their sort keys with
        # the group key's tie-breakers, so that order is total).  The rewrite for targets without DISTINCT ON moves the ORDER BY
        # into a window: if the translation orders its output at all, that order must be the source's; if it does not, the
        # order is lost (one syntactic finding per pair, not an engine-dependent row order).
        try:
            has_order = sqlglot.parse_one(out, read=dst).args.get("order") is not None
        except E.SqlglotError:
            has_order = False
        if has_order:
            ordered = True
        else:
            res["violations"].append({"key": f"c02:{src}-{dst}:distinct-on:order-dropped",
                                      "what": f"{sql!r} -> {out!r}: the source orders its result, the translation has no top-level ORDER BY",
                                      "input": {"sql": sql, "src": src, "dst": dst, "db": 0, "ordered": False, "order_dropped": True}})
    for k, (s, rows) in enumerate(src_rows):
        if s == "err":
            continue
        res["evals"] += 1
        res["nontrivial"] += bool(rows)
        s2, rows2 = execute(dst, k, out)
        inp = {"sql": sql, "src": src, "dst": dst, "db": k, "ordered": ordered, "out": out}
        if s2 == "err" and q["family"] in LENIENT_ERRORS:
            res["lenient_errors"] = res.get("lenient_errors", 0) + 1
            continue
        if s2 == "err":
            kind, what = "error", f"{dst} rejects the transpiled text: {rows2}"
        elif multiset(rows) != multiset(rows2):
            kind, what = "rows", f"rows differ: {src} {str(rows)[:150]} vs {dst} {str(rows2)[:150]}"
        elif ordered and rows != rows2:
            kind, what = "order", f"row order differs: {src} {str(rows)[:150]} vs {dst} {str(rows2)[:150]}"
        else:
            continue
        if kind not in seen:
            seen.add(kind)
            res["violations"].append({"key": f"{base}:{kind}", "what": f"{sql!r} -> {out!r}: {what}", "input": inp})
    return res


def items_for(tier):
    out = []
    for q in queries(tier):
        for pair in PAIRS + (EMULATED_PAIRS if q["family"] in EMULATED_FAMILIES else []):
            sql = q["sql"][pair[0]] if isinstance(q["sql"], dict) else q["sql"]
            if sql:
                out.append((q, pair))
        # Athena runs its queries on Trino (sqlglot's Athena dialect itself hands SELECTs to its Trino parser): read as athena, a
        # query must translate exactly as when it is read as trino, into every target
        if isinstance(q["sql"], str) and q["family"].startswith("order"):
            for w in ("sqlite", "duckdb", "mysql", "postgres"):
                out.append((q, ("athena~trino", w)))
    return out


def run(tier, seed):
    global ACTIVE_DBS
    ACTIVE_DBS = DBS if tier == "quick" else DBS_THOROUGH
    _ENG.clear()
    items = items_for(tier)
    results = harness.pool_map(check_item, items)
    status, fam, viol, evals, nontrivial = {}, {}, [], 0, 0
    for (q, pair), r in zip(items, results):
        status[r["status"]] = status.get(r["status"], 0) + 1
        fam[q["family"]] = fam.get(q["family"], 0) + 1
        viol += r["violations"]
        evals += r["evals"]
        nontrivial += r["nontrivial"]
    counts = {}
    for v in viol:
        k = ":".join(v["key"].split(":")[:3] + v["key"].split(":")[-1:])
        counts[k] = counts.get(k, 0) + 1
    return {
        "evaluations": evals,
        "distinct_nontrivial": nontrivial,
        "rule": "(query, dialect pair, database instance) triples where the source engine ran the query and returned at least one row, so the comparison had content; "
                "`evaluations` also counts the transpile call and the instances with an empty source result",
        "bound": f"tier={tier}: {len(queries(tier))} enumerated queries in {len(fam)} families x {len(PAIRS)} dialect pairs (a query is used for a pair when it has a text in the "
                 f"source dialect) x {len(ACTIVE_DBS)} fixed database instances (tables t: {[len(d['t']) for d in ACTIVE_DBS]} rows, u: {[len(d['u']) for d in ACTIVE_DBS]} rows); SQLite {_sqlite_version()}, DuckDB {_duckdb_version()}",
        "exhaustive": True,
        "inputs": len(items),
        "input_families": fam,
        "status": status,
        "samples": [dict(sql=(q["sql"][p[0]] if isinstance(q["sql"], dict) else q["sql"]), pair=p) for q, p in items[:: max(1, len(items) // 8)]][:8],
        "violations": viol,
        "violation_counts": counts,
        "contract_evaluations": {"sqlglot.transpile": len(items)},
    }


def _sqlite_version():
    import sqlite3

    return sqlite3.sqlite_version


def _duckdb_version():
    import duckdb

    return duckdb.__version__


def replay(entry):
    global ACTIVE_DBS
    ACTIVE_DBS = DBS_THOROUGH  # DBS is a prefix of it, so instance numbers of either tier resolve
    _ENG.clear()
    i = entry["input"] if "input" in entry else entry
    if i["src"] == "athena~trino":
        a, b = (sqlglot.transpile(i["sql"], read=r, write=i["dst"]) for r in ("athena", "trino"))
        return {"violated": a != b, "observed": f"read as athena -> {a!r}; read as trino -> {b!r}"}
    st, out = transpile(i["sql"], i["src"], i["dst"])
    if st == "unsupported":
        return {"violated": False, "observed": "unsupported: " + out}
    s1, r1 = execute(i["src"], i["db"], i["sql"])
    if st == "err":
        return {"violated": s1 == "ok", "observed": f"transpile: {out}"}
    if i.get("order_dropped"):
        dropped = sqlglot.parse_one(out, read=i["dst"]).args.get("order") is None
        return {"violated": dropped, "observed": f"{i['sql']!r} -> {out!r}: top-level ORDER BY {'missing' if dropped else 'present'}"}
    s2, r2 = execute(i["dst"], i["db"], out)
    bad = s1 == "ok" and (s2 == "err" or multiset(r1) != multiset(r2) or (i.get("ordered") and r1 != r2))
    return {"violated": bool(bad), "observed": f"{i['src']}: {i['sql']!r} -> {r1!r}; {i['dst']}: {out!r} -> {r2!r}"}


if __name__ == "__main__":
    harness.main(run, replay)
