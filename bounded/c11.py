"""C11 (bounded, operator kernels only): NULL handling of the Python executor against SQL bag semantics.
Runs under /venv/bin/python.

Contract.  For every query q of the grammar below and every database db of the small scope,
    sqlglot.executor.execute(q, schema=S, tables=db)
returns rows equal to the evaluation of the same query STRUCTURE by spec/bag.py (trusted, cross-checked against sqlite3 by
`python -m spec.bag --selftest`), or raises sqlglot.errors.ExecuteError (counted as rejected).  Equality is
  * multiset equality of rows when the query has no ORDER BY and no LIMIT/OFFSET;
  * with ORDER BY and no LIMIT: multiset equality, and the sequence of sort-key tuples of the returned rows equals the
    sequence of sort-key tuples of the spec ordering (rows that tie on every key may come in any order);
  * with ORDER BY on every output column (total up to identical rows) and LIMIT/OFFSET: sequence equality;
  * with LIMIT/OFFSET and no ORDER BY (SQL leaves the choice open): the result is a sub-multiset of the unlimited spec
    result and has exactly min(limit, max(0, n - offset)) rows.
Every query is a (structure, sql text) pair produced by one constructor; the spec never parses SQL.

Derived from /repo/sqlglot/executor/python.py: scan/_project_and_filter (WHERE keeps truthy rows), join (hash_join iff
eliminate_joins.join_condition extracts equality keys from the ON conjunction, else nested_loop_join; the residual
condition must evaluate `is True`), _append_unmatched_join_rows, aggregate (sort by group key, set_range + ENV aggregates
wrapped in filter_nulls), sort (ORDERED(value, desc, nulls_first)), set_operation (Counter-based ALL variants are
implemented), _subquery_exists/_subquery_scalar/_subquery_comparison (IN / ANY / ALL fold with saw_null), env.py
(sql_and/sql_or/sql_not/sql_in, null_if_any comparisons) and planner.py (Step.from_expression).

Planning (optimize + Plan) costs ~12 ms and is independent of the data, so run() plans once per query exactly as
execute() does (optimize(sql, schema, leave_tables_isolated=True); Plan(...)) and runs PythonExecutor(tables).execute(plan)
per database.  Every reported example is re-run through the real execute() (up to NATIVE_TRIES times), the first and last
database of every work item are always run through execute() as well, and replay() uses execute() only.  The executor
walks its plan through id()-hashed sets, so the same query on the same data can give different rows in different runs
(observed: nested set operations); a violation on either path counts, violations whose outcome was seen to differ
between runs carry "outcome_differed_between_runs": true (not part of the key), and an example that execute() never
reproduced in NATIVE_TRIES runs gets a key ending in ".unconfirmed-through-execute" (none on the pinned tree).

Tiers: quick runs the core subset of the grammar (all single-table queries; every join kind x 16 ON conditions, a 3 x 2
sample of the ON x WHERE grid; half of the subquery predicates in WHERE form, all in projection form; ALL-variants of the
composite set-operation shapes left out), thorough the whole grid; data scopes as in databases().  Measured: ~1 ms per
executor run, i.e. quick ~1100 CPU s (about 70-90 s wall on 16 idle cores), thorough ~11000 CPU s.

Exceptions: ExecuteError -> rejected (the contract allows it; data-dependent rejections are listed under
"observations", not as violations).  Any exception while optimizing/planning -> the query is rejected-at-plan and
counted.  An exception other than ExecuteError escaping PythonExecutor.execute -> violation exception:<Class>.

Keys: c11:<family>:<discrepancy>:<cause>   cause = <static tag of the query shape>.<data condition>, the data condition
being what ALL failing databases of that query have in common: empty-input (some referenced table is empty), null (some
NULL present), any (fails even on NULL-free non-empty data).
"""
import itertools
import os
import sys
from collections import Counter

sys.path.insert(0, os.path.dirname(os.path.dirname(os.path.abspath(__file__))))

from bounded import harness  # noqa: E402
from spec import bag  # noqa: E402

from sqlglot.errors import ExecuteError  # noqa: E402
from sqlglot.executor import execute  # noqa: E402
from sqlglot.executor.python import PythonExecutor  # noqa: E402
from sqlglot.executor.table import Table, Tables  # noqa: E402
from sqlglot.optimizer import optimize  # noqa: E402
from sqlglot.planner import Plan  # noqa: E402
from sqlglot.schema import ensure_schema  # noqa: E402

SCHEMA = {"t": {"a": "int", "b": "int"}, "u": {"a": "int", "b": "int"}}
VALUES = (None, 1, 2)
ROWS = [(x, y) for x in VALUES for y in VALUES]


# ---------------------------------------------------------------------------------------------------- structures
def C(name):
    return ("col", name)


def L(v):
    return ("lit", v)


TA, TB, UA, UB = C("t.a"), C("t.b"), C("u.a"), C("u.b")


def sel(src, items, where=None, group=None, having=None, distinct=False, order=None, limit=None, offset=None):
    """items: [(expr, alias)]; group: [expr] | None; order: [(output index, desc, nulls_first | None)]"""
    return {"k": "select", "src": src, "items": items, "where": where, "group": group, "having": having,
            "distinct": distinct, "order": order, "limit": limit, "offset": offset}


def setop(op, all_, left, right, order=None, limit=None, offset=None):
    return {"k": "setop", "op": op, "all": all_, "left": left, "right": right, "order": order, "limit": limit,
            "offset": offset}


def tbl(name):
    return ("tbl", name)


def sub(q, alias):
    return ("sub", q, alias)


def join(kind, left, right, on=None):
    return ("join", kind, left, right, on)


def agg(fn, arg=None):
    return ("agg", fn, arg)


def out_aliases(q):
    return [al for _, al in q["items"]] if q["k"] == "select" else out_aliases(q["left"])


# ---------------------------------------------------------------------------------------------------- SQL text
def e_sql(e):
    return bag.to_sql(e, _ext_sql)


def _ext_sql(e):
    op = e[0]
    if op == "agg":
        if e[1] == "COUNT_STAR":
            return "COUNT(*)"
        if e[1] == "COUNT_DISTINCT":
            return f"COUNT(DISTINCT {e_sql(e[2])})"
        return f"{e[1]}({e_sql(e[2])})"
    if op == "exists":
        return f"EXISTS ({q_sql(e[1])})"
    if op in ("insub", "notinsub"):
        return f"({e_sql(e[1])} {'NOT ' if op == 'notinsub' else ''}IN ({q_sql(e[2])}))"
    if op == "scalar":
        return f"({q_sql(e[1])})"
    if op == "quant":  # ("quant", cmp, ALL|ANY, x, q)
        return f"({e_sql(e[3])} {bag._SYM[e[1]]} {e[2]} ({q_sql(e[4])}))"
    raise ValueError(op)


def src_sql(src):
    if src[0] == "tbl":
        return src[1]
    if src[0] == "sub":
        return f"({q_sql(src[1])}) AS {src[2]}"
    _, kind, left, right, on = src
    text = f"{src_sql(left)} {kind} JOIN {src_sql(right)}"
    return text if on is None else f"{text} ON {e_sql(on)}"


def _tail_sql(q):
    parts = []
    if q["order"]:
        names = out_aliases(q)
        keys = []
        for idx, desc, nf in q["order"]:
            keys.append(names[idx] + (" DESC" if desc else " ASC") + ("" if nf is None else " NULLS FIRST" if nf else " NULLS LAST"))
        parts.append("ORDER BY " + ", ".join(keys))
    if q["limit"] is not None:
        parts.append(f"LIMIT {q['limit']}")
    elif q["offset"] is not None and SQLITE[0]:
        parts.append("LIMIT -1")
    if q["offset"] is not None:
        parts.append(f"OFFSET {q['offset']}")
    return (" " + " ".join(parts)) if parts else ""


SQLITE = [False]  # rendering mode of the self-check (sqlite has no parenthesised compound operands, no bare OFFSET)


def _operand_sql(q):
    if q["k"] != "setop":
        return q_sql(q)
    return f"SELECT * FROM ({q_sql(q)})" if SQLITE[0] else f"({q_sql(q)})"


def q_sql(q):
    if q["k"] == "setop":
        return f"{_operand_sql(q['left'])} {q['op']}{' ALL' if q['all'] else ''} {_operand_sql(q['right'])}" + _tail_sql(q)
    parts = ["SELECT " + ("DISTINCT " if q["distinct"] else "") + ", ".join(f"{e_sql(e)} AS {al}" for e, al in q["items"])]
    parts.append("FROM " + src_sql(q["src"]))
    if q["where"] is not None:
        parts.append("WHERE " + e_sql(q["where"]))
    if q["group"]:
        parts.append("GROUP BY " + ", ".join(e_sql(e) for e in q["group"]))
    if q["having"] is not None:
        parts.append("HAVING " + e_sql(q["having"]))
    return " ".join(parts) + _tail_sql(q)


# ---------------------------------------------------------------------------------------------------- spec evaluation
def src_names(src):
    if src[0] == "tbl":
        return [f"{src[1]}.a", f"{src[1]}.b"]
    if src[0] == "sub":
        return [f"{src[2]}.{al}" for al in out_aliases(src[1])]
    return src_names(src[2]) + src_names(src[3])


def _has_agg(e):
    if isinstance(e, tuple):
        if e and e[0] == "agg":
            return True
        if e and e[0] in ("exists", "insub", "notinsub", "scalar", "quant"):  # aggregates inside belong to the subquery
            return any(_has_agg(x) for x in e[1:] if not isinstance(x, dict))
        return any(_has_agg(x) for x in e)
    if isinstance(e, list):
        return any(_has_agg(x) for x in e)
    return False


def _subst_aggs(e, value_of):
    """replace every ("agg", ...) node of this query level by ("lit", value)"""
    if isinstance(e, tuple):
        if e and e[0] == "agg":
            return ("lit", value_of(e))
        return tuple(_subst_aggs(x, value_of) for x in e)
    if isinstance(e, list):
        return [_subst_aggs(x, value_of) for x in e]
    return e


def make_ev(db):
    def ext(e, env):
        op = e[0]
        if op == "exists":
            return len(q_eval(e[1], db, env)) > 0
        if op in ("insub", "notinsub"):
            vals = [("lit", r[0]) for r in q_eval(e[2], db, env)]
            return bag.ev(("in" if op == "insub" else "notin", ("lit", EV(e[1], env)), vals), {})
        if op == "scalar":
            rows = q_eval(e[1], db, env)
            if len(rows) > 1:
                raise AssertionError("grammar must not produce scalar subqueries with more than one row")
            return rows[0][0] if rows else None
        if op == "quant":
            x = EV(e[3], env)
            acc = e[2] == "ALL"
            for r in q_eval(e[4], db, env):
                c = bag.ev((e[1], ("lit", x), ("lit", r[0])), {})
                acc = bag.t_and(acc, c) if e[2] == "ALL" else bag.t_or(acc, c)
            return acc
        raise ValueError(op)

    def EV(e, env):
        return bag.ev(e, env, ext)

    return EV


def src_eval(src, db, outer):
    if src[0] == "tbl":
        return [tuple(r) for r in db[("t", "u").index(src[1])]]
    if src[0] == "sub":
        return q_eval(src[1], db, outer)
    _, kind, left, right, on = src
    ln, rn = src_names(left), src_names(right)
    names = ln + rn
    EV = make_ev(db)
    cond = None if on is None else (lambda row: EV(on, {**outer, **dict(zip(names, row))}))
    return bag.join(src_eval(left, db, outer), src_eval(right, db, outer), cond, kind, len(ln), len(rn))


def _order_keys(q):
    keys = []
    for idx, desc, nf in q["order"]:
        nulls_first = (not desc) if nf is None else nf  # base dialect NULL_ORDERING = "nulls_are_small" (as sqlite)
        keys.append((lambda r, i=idx: r[i], desc, nulls_first))
    return keys


def q_eval(q, db, outer=None, tail=True):
    """rows of q on db (ordered when q has ORDER BY); tail=False leaves out LIMIT/OFFSET"""
    outer = outer or {}
    if q["k"] == "setop":
        rows = bag.setop(q["op"], q["all"], q_eval(q["left"], db, outer), q_eval(q["right"], db, outer))
    else:
        EV = make_ev(db)
        names = src_names(q["src"])
        env = lambda row: {**outer, **dict(zip(names, row))}  # noqa: E731
        rows = src_eval(q["src"], db, outer)
        if q["where"] is not None:
            rows = bag.select(rows, lambda r: EV(q["where"], env(r)))
        grouped = bool(q["group"])
        if grouped or q["having"] is not None or any(_has_agg(e) for e, _ in q["items"]):
            groups = bag.group_by(rows, (lambda r: tuple(EV(g, env(r)) for g in q["group"])) if grouped else None, grouped)
            out = []
            for _, members in groups:
                genv = env(members[0]) if members else dict(outer)  # non-aggregated columns are grouping columns

                def value_of(a, members=members):
                    vals = [1 if a[1] == "COUNT_STAR" else EV(a[2], env(r)) for r in members]
                    return bag.aggregate(a[1], vals)

                if q["having"] is not None and EV(_subst_aggs(q["having"], value_of), genv) is not True:
                    continue
                out.append(tuple(EV(_subst_aggs(e, value_of), genv) for e, _ in q["items"]))
            rows = out
        else:
            rows = [tuple(EV(e, env(r)) for e, _ in q["items"]) for r in rows]
        if q["distinct"]:
            rows = bag.distinct(rows)
    if q["order"]:
        rows = bag.order_by(rows, _order_keys(q))
    if tail and (q["limit"] is not None or q["offset"] is not None):
        rows = bag.limit_offset(rows, q["limit"], q["offset"] or 0)
    return rows


# ---------------------------------------------------------------------------------------------------- comparison
def _norm(rows):
    return [tuple(float(v) if isinstance(v, float) else v for v in r) for r in rows]


def compare(q, actual, db):
    """None when the contract holds, else the discrepancy kind"""
    actual = _norm([tuple(r) for r in actual])
    has_tail = q["limit"] is not None or q["offset"] is not None
    full = _norm(q_eval(q, db, tail=False))
    if has_tail and not q["order"]:
        want = len(bag.limit_offset(full, q["limit"], q["offset"] or 0))
        if Counter(actual) - Counter(full):
            return "extra-rows" if len(actual) >= want else "wrong-value"
        if len(actual) != want:
            return "missing-rows" if len(actual) < want else "extra-rows"
        return None
    expected = bag.limit_offset(full, q["limit"], q["offset"] or 0) if has_tail else full
    ca, ce = Counter(actual), Counter(expected)
    if ca != ce:
        missing, extra = sum((ce - ca).values()), sum((ca - ce).values())
        if missing and extra and missing == extra:
            if has_tail and Counter(actual) - Counter(full) == Counter():
                return "wrong-order"  # right rows exist, the wrong ones were cut
            unbool = lambda rows: Counter(tuple(None if v is False else v for v in r) for r in rows)  # noqa: E731
            return "null-vs-false" if unbool(actual) == unbool(expected) else "wrong-value"
        return "missing-rows" if missing > extra else "extra-rows"
    if q["order"]:
        if has_tail:
            return None if actual == expected else "wrong-order"
        key = lambda r: tuple(r[i] for i, _, _ in q["order"])  # noqa: E731
        if [key(r) for r in actual] != [key(r) for r in expected]:
            return "wrong-order"
    return None


# ---------------------------------------------------------------------------------------------------- grammar
def atoms():
    """3VL predicates over t.a, t.b and literals: (tag, expr)"""
    A = []
    for op in ("eq", "neq", "lt", "le", "gt", "ge"):
        A.append(("cmp", (op, TA, TB)))
        A.append(("cmp", (op, TA, L(1))))
    A += [("cmp-null-literal", ("eq", TA, L(None))), ("cmp-null-literal", ("neq", TA, L(None))),
          ("cmp-null-literal", ("eq", L(None), L(None))), ("cmp-null-literal", ("lt", L(None), TB))]
    A += [("is-null", ("isnull", TA)), ("is-null", ("notnull", TB)), ("is-null", ("isnull", L(None))),
          ("is-null", ("isnull", ("add", TA, TB)))]
    A += [("in-list", ("in", TA, [L(1), L(2)])), ("in-list-null", ("in", TA, [L(1), L(None)])),
          ("in-list-null", ("in", TA, [L(None)])), ("in-list-null", ("in", TA, [TB, L(None)])),
          ("in-list", ("in", TA, [TB])), ("in-list", ("in", TA, [TB, L(1)])),
          ("not-in-list", ("notin", TA, [L(1), L(2)])), ("not-in-list-null", ("notin", TA, [L(1), L(None)])),
          ("not-in-list-null", ("notin", TA, [L(None)])), ("not-in-list", ("notin", TA, [TB])),
          ("not-in-list-null", ("notin", TA, [TB, L(None)])), ("in-list-null", ("in", L(None), [TA, TB]))]
    A += [("between", ("between", TA, L(1), TB)), ("between", ("between", TA, TB, L(2))),
          ("between", ("between", TA, L(None), L(2))), ("between", ("not", ("between", TA, L(1), TB))),
          ("between", ("between", L(1), TA, TB))]
    A += [("case", ("eq", ("case", [(("eq", TA, L(1)), L(1))], L(0)), L(1))),
          ("case", ("isnull", ("case", [(("eq", TA, L(1)), TB)], L(None)))),
          ("case", ("eq", ("case", [(("eq", TA, TB), L(1)), (("isnull", TA), L(2))], TB), L(2))),
          ("case", ("eq", ("case", [(("not", ("eq", TA, TB)), L(1))], L(0)), L(0))),
          ("coalesce", ("eq", ("coalesce", [TA, TB]), L(1))), ("coalesce", ("eq", ("coalesce", [TA, L(0)]), L(0))),
          ("coalesce", ("isnull", ("coalesce", [TA, TB]))), ("coalesce", ("lt", ("coalesce", [TA, TB, L(2)]), L(2)))]
    return A


def gen_filter():
    out = []
    A = atoms()
    preds = list(A)
    base = [A[0], A[1], A[2], A[5], A[8], A[12], A[16], A[17], A[21], A[27], A[32]]
    for tag, p in A:
        preds.append((tag + "-not", ("not", p)))
    for (t1, p), (t2, r) in itertools.combinations(base, 2):
        preds.append(("and", ("and", p, r)))
        preds.append(("or", ("or", p, r)))
        preds.append(("not-and", ("not", ("and", p, r))))
        preds.append(("not-or", ("not", ("or", p, r))))
        preds.append(("and-not", ("and", p, ("not", r))))
        preds.append(("or-not", ("or", ("not", p), r)))
    for t1, p in base[:6]:
        preds.append(("and-null-literal", ("and", p, L(None))))
        preds.append(("or-null-literal", ("or", p, L(None))))
        preds.append(("not-null-literal", ("or", p, ("not", L(None)))))
        preds.append(("and-true", ("and", p, L(True))))
        preds.append(("or-false", ("or", p, L(False))))
    for tag, p in preds:
        out.append(("filter", tag, sel(tbl("t"), [(TA, "c0"), (TB, "c1")], where=p), 1))
        out.append(("filter", tag, sel(tbl("t"), [(TA, "c0"), (TB, "c1"), (p, "c2")]), 1))
    # non-boolean projections
    for tag, e in [("coalesce", ("coalesce", [TA, TB])), ("coalesce", ("coalesce", [TA, L(None), L(0)])),
                   ("case", ("case", [(("eq", TA, TB), L(1)), (("isnull", TA), L(2))], L(None))),
                   ("case", ("case", [(("lt", TA, TB), TA)], TB)), ("arith", ("add", TA, TB)), ("arith", ("add", TA, L(None)))]:
        out.append(("filter", tag, sel(tbl("t"), [(TA, "c0"), (TB, "c1"), (e, "c2")]), 1))
    # derived table / CTE-free nesting
    inner = sel(tbl("t"), [(TA, "x"), (("eq", TA, TB), "y")])
    out.append(("filter", "derived-bool-column", sel(sub(inner, "s"), [(C("s.x"), "c0")], where=C("s.y")), 1))
    out.append(("filter", "derived-bool-column", sel(sub(inner, "s"), [(C("s.x"), "c0")], where=("not", C("s.y"))), 1))
    return out


ALL4 = [(TA, "c0"), (TB, "c1"), (UA, "c2"), (UB, "c3")]


def gen_join():
    out = []
    ons = [
        ("equi-condition", ("eq", TA, UA)),
        ("equi-condition", ("eq", UA, TA)),
        ("equi-condition", ("and", ("eq", TA, UA), ("eq", TB, UB))),
        ("equi-condition", ("eq", TA, UB)),
        ("equi-expression-key", ("eq", ("add", TA, L(0)), UA)),
        ("equi-expression-key", ("eq", ("coalesce", [TA, L(0)]), ("coalesce", [UA, L(0)]))),
        ("non-equi-condition", ("lt", TA, UA)),
        ("non-equi-condition", ("neq", TA, UA)),
        ("non-equi-condition", ("le", TA, UB)),
        ("non-equi-condition", ("or", ("eq", TA, UA), ("eq", TB, UB))),
        ("non-equi-condition", ("not", ("eq", TA, UA))),
        ("non-equi-condition", ("or", ("eq", TA, UA), ("and", ("isnull", TA), ("isnull", UA)))),
        ("non-equi-condition", ("isnull", TA)),
        ("non-equi-condition", ("in", TA, [UA, UB])),
        ("non-equi-condition", ("between", TA, UA, UB)),
        ("mixed-condition", ("and", ("eq", TA, UA), ("lt", TB, UB))),
        ("mixed-condition", ("and", ("eq", TA, UA), ("neq", TB, UB))),
        ("mixed-condition", ("and", ("eq", TA, UA), ("isnull", UB))),
        ("mixed-condition", ("and", ("eq", TA, UA), ("or", ("eq", TB, UB), ("isnull", TB)))),
        ("one-sided-condition", ("and", ("eq", TA, UA), ("eq", TB, L(1)))),
        ("one-sided-condition", ("and", ("eq", TA, UA), ("eq", UB, L(1)))),
        ("one-sided-condition", ("and", ("eq", TA, UA), ("isnull", TB))),
        ("one-sided-condition", ("eq", TB, L(1))),
        ("one-sided-condition", ("eq", UB, L(1))),
        ("one-sided-condition", ("and", ("lt", TA, UA), ("notnull", UB))),
        ("constant-condition", L(True)),
        ("constant-condition", ("eq", L(1), L(1))),
        ("constant-condition", ("eq", L(1), L(0))),
        ("constant-condition", L(None)),
        ("constant-condition", ("and", ("eq", TA, UA), L(None))),
    ]
    wheres = [
        ("", None),
        ("+where-inner-null", ("isnull", UA)),
        ("+where-inner-value", ("eq", UB, L(1))),
        ("+where-outer-value", ("eq", TB, L(1))),
        ("+where-coalesce", ("eq", ("coalesce", [UB, L(0)]), L(0))),
        ("+where-or-null", ("or", ("eq", TA, L(1)), ("isnull", UB))),
    ]
    for kind in ("INNER", "LEFT", "RIGHT", "FULL"):
        fam = "join-" + kind.lower()
        for oi, (tag, on) in enumerate(ons):
            for wi, (wtag, w) in enumerate(wheres):
                # the quick tier's share of the grid
                core = (w is None and oi in (0, 2, 4, 6, 7, 9, 11, 12, 15, 17, 19, 20, 22, 25, 27, 28)) or (oi in (0, 6, 15) and wi in (1, 4))
                out.append((fam, tag + wtag, sel(join(kind, tbl("t"), tbl("u"), on), ALL4, where=w), 2, core))
        # narrower projections (pushdown_projections) and expressions over padded columns
        for tag, on in ons[:1] + ons[6:7] + ons[15:16]:
            out.append((fam, tag + "+project-subset", sel(join(kind, tbl("t"), tbl("u"), on), [(TA, "c0"), (UB, "c1")]), 2))
            out.append((fam, tag + "+project-expression",
                        sel(join(kind, tbl("t"), tbl("u"), on),
                            [(TA, "c0"), (("coalesce", [UB, L(0)]), "c1"), (("isnull", UA), "c2"), (("eq", TB, UB), "c3")]), 2))
        # derived-table operands with filters
        lt = sel(tbl("t"), [(TA, "a"), (TB, "b")], where=("isnull", TB))
        ru = sel(tbl("u"), [(UA, "a"), (UB, "b")], where=("notnull", UA))
        items = [(C("s.a"), "c0"), (C("s.b"), "c1"), (C("r.a"), "c2"), (C("r.b"), "c3")]
        out.append((fam, "equi-condition+derived-operands",
                    sel(join(kind, sub(lt, "s"), sub(ru, "r"), ("eq", C("s.a"), C("r.a"))), items), 2))
        out.append((fam, "non-equi-condition+derived-operands",
                    sel(join(kind, sub(lt, "s"), sub(ru, "r"), ("le", C("s.a"), C("r.a"))), items), 2))
    out.append(("join-inner", "cross", sel(join("CROSS", tbl("t"), tbl("u")), ALL4), 2))
    # a join to a derived table of AT MOST one row whose columns are not used (eliminate_joins): with no row at all an inner / cross
    # join returns nothing, a left join keeps the outer rows
    for tag, q1 in [("limit-1", sel(tbl("u"), [(UA, "a")], order=[(0, False, True)], limit=1)),
                    ("aggregate", sel(tbl("u"), [(agg("MAX", UA), "a")])),
                    ("aggregate-where", sel(tbl("u"), [(agg("COUNT_STAR"), "a")], where=("isnull", UA)))]:
        out.append(("join-inner", "cross-to-one-row-derived." + tag, sel(join("CROSS", tbl("t"), sub(q1, "s")), [(TA, "c0"), (TB, "c1")]), 2))
        out.append(("join-left", "left-to-one-row-derived." + tag, sel(join("LEFT", tbl("t"), sub(q1, "s"), L(True)), [(TA, "c0"), (TB, "c1")]), 2))
    # CROSS JOIN ... ON <condition> (accepted by SQLite / MySQL): an inner join
    out.append(("join-inner", "cross-with-on", sel(join("CROSS", tbl("t"), tbl("u"), ("eq", TA, UA)), ALL4), 2))
    out.append(("join-inner", "cross-with-on", sel(join("CROSS", tbl("t"), tbl("u"), ("lt", TA, UB)), ALL4), 2))
    for wtag, w in wheres[1:] + [("+where-equi", ("eq", TA, UA)), ("+where-non-equi", ("lt", TA, UA))]:
        out.append(("join-inner", "cross" + wtag, sel(join("CROSS", tbl("t"), tbl("u")), ALL4, where=w), 2))
    return out


AGGS = ["SUM", "COUNT", "MIN", "MAX", "AVG", "COUNT_STAR", "COUNT_DISTINCT"]


def gen_aggregate():
    out = []
    for fn in AGGS:
        a = agg(fn, None if fn == "COUNT_STAR" else TB)
        tag = fn.lower().replace("_", "-")
        T = tbl("t")
        out += [
            ("aggregate", tag, sel(T, [(a, "c0")]), 1),
            ("aggregate", tag, sel(T, [(a, "c0")], where=("eq", TA, L(1))), 1),
            ("aggregate", tag, sel(T, [(a, "c0")], where=("isnull", TB)), 1),
            ("aggregate", tag, sel(T, [(a, "c0")], where=("gt", TA, L(5))), 1),
            ("aggregate", tag, sel(T, [(a, "c0")], having=("gt", agg("COUNT_STAR"), L(1))), 1),
            ("aggregate", tag, sel(T, [(("coalesce", [a, L(0)]), "c0"), (("isnull", a), "c1")]), 1),
            ("aggregate", tag, sel(T, [(TA, "c0"), (a, "c1")], group=[TA]), 1),
            ("aggregate", tag, sel(T, [(TA, "c0"), (a, "c1")], where=("isnull", TB), group=[TA]), 1),
            ("aggregate", tag, sel(T, [(a, "c0")], group=[TA]), 1),
            ("aggregate", tag, sel(T, [(TA, "c0"), (TB, "c1"), (a, "c2")], group=[TA, TB]), 1),
            ("aggregate", tag, sel(T, [(TA, "c0")], group=[TA], having=("gt", a, L(1))), 1),
            ("aggregate", tag, sel(T, [(TA, "c0")], group=[TA], having=("isnull", a)), 1),
            ("aggregate", tag, sel(T, [(TA, "c0"), (a, "c1")], group=[TA], having=("not", ("gt", a, L(1)))), 1),
            ("aggregate", tag + "-over-left-join",
             sel(join("LEFT", T, tbl("u"), ("eq", TA, UA)), [(TA, "c0"), (agg(fn, None if fn == "COUNT_STAR" else UB), "c1")],
                 group=[TA]), 2),
        ]
        if fn != "COUNT_STAR":
            e = agg(fn, ("add", TA, TB))
            out.append(("aggregate", tag, sel(T, [(e, "c0")]), 1))
            out.append(("aggregate", tag, sel(T, [(TA, "c0"), (agg(fn, ("coalesce", [TB, L(0)])), "c1")], group=[TA]), 1))
    T = tbl("t")
    out += [
        ("aggregate", "several-aggregates", sel(T, [(agg("COUNT_STAR"), "c0"), (agg("COUNT", TA), "c1"), (agg("SUM", TB), "c2"), (agg("MIN", TA), "c3")]), 1),
        ("aggregate", "several-aggregates", sel(T, [(TA, "c0"), (agg("COUNT_STAR"), "c1"), (agg("COUNT", TB), "c2"), (agg("MAX", TB), "c3")], group=[TA]), 1),
        ("aggregate", "group-key-having", sel(T, [(TA, "c0"), (agg("COUNT_STAR"), "c1")], group=[TA], having=("isnull", TA)), 1),
        ("aggregate", "group-key-having", sel(T, [(TA, "c0"), (agg("COUNT_STAR"), "c1")], group=[TA], having=("neq", TA, L(1))), 1),
        ("aggregate", "group-expression-key", sel(T, [(("coalesce", [TA, L(0)]), "c0"), (agg("COUNT_STAR"), "c1")], group=[("coalesce", [TA, L(0)])]), 1),
        ("aggregate", "group-expression-key", sel(T, [(("isnull", TA), "c0"), (agg("COUNT", TB), "c1")], group=[("isnull", TA)]), 1),
        ("aggregate", "group-no-aggregate", sel(T, [(TA, "c0"), (TB, "c1")], group=[TA, TB]), 1),
        ("aggregate", "arith-of-aggregates", sel(T, [(("add", agg("SUM", TA), agg("SUM", TB)), "c0")]), 1),
        ("aggregate", "derived-aggregate",
         sel(sub(sel(T, [(TA, "k"), (agg("SUM", TB), "s")], group=[TA]), "g"), [(agg("SUM", C("g.s")), "c0"), (agg("COUNT", C("g.s")), "c1"), (agg("COUNT_STAR"), "c2")]), 1),
        ("aggregate", "count-star-over-full-join", sel(join("FULL", T, tbl("u"), ("eq", TA, UA)), [(agg("COUNT_STAR"), "c0"), (agg("COUNT", TA), "c1"), (agg("COUNT", UA), "c2")]), 2),
    ]
    return out


def gen_distinct():
    T = tbl("t")
    return [
        ("distinct", "two-columns", sel(T, [(TA, "c0"), (TB, "c1")], distinct=True), 1),
        ("distinct", "one-column", sel(T, [(TA, "c0")], distinct=True), 1),
        ("distinct", "expression", sel(T, [(("isnull", TA), "c0")], distinct=True), 1),
        ("distinct", "expression", sel(T, [(("eq", TA, TB), "c0")], distinct=True), 1),
        ("distinct", "expression", sel(T, [(("coalesce", [TA, TB]), "c0")], distinct=True), 1),
        ("distinct", "where", sel(T, [(TB, "c0")], where=("isnull", TA), distinct=True), 1),
        ("distinct", "order", sel(T, [(TA, "c0"), (TB, "c1")], distinct=True, order=[(0, False, True), (1, True, False)]), 1),
        ("distinct", "limit", sel(T, [(TA, "c0")], distinct=True, order=[(0, False, False)], limit=1), 1),
        ("distinct", "over-join", sel(join("LEFT", T, tbl("u"), ("eq", TA, UA)), [(TA, "c0"), (UA, "c1")], distinct=True), 2),
        ("distinct", "derived", sel(sub(sel(T, [(TA, "x")], distinct=True), "d"), [(agg("COUNT_STAR"), "c0"), (agg("COUNT", C("d.x")), "c1")]), 1),
    ]


ORD = [(d, nf) for d in (False, True) for nf in (None, True, False)]


def _otag(d, nf):
    return "default-null-ordering" if nf is None else "explicit-null-ordering"


def gen_order():
    out = []
    T = tbl("t")
    items = [(TA, "c0"), (TB, "c1")]
    for (d0, n0), (d1, n1) in itertools.product(ORD, ORD):
        out.append(("order", "two-keys.default-null-ordering" if n0 is None or n1 is None else "two-keys.explicit-null-ordering",
                    sel(T, items, order=[(0, d0, n0), (1, d1, n1)]), 1))
    for d0, n0 in ORD:
        t_ = _otag(d0, n0)
        out.append(("order", "one-key." + t_, sel(T, items, order=[(1, d0, n0)]), 1))
        out.append(("order", "expression-key." + t_, sel(T, [(TA, "c0"), (("add", TA, TB), "c1")], order=[(1, d0, n0), (0, False, True)]), 1))
        out.append(("order", "where." + t_, sel(T, items, where=("or", ("isnull", TA), ("gt", TB, L(1))), order=[(0, d0, n0), (1, d0, n0)]), 1))
        out.append(("order", "aggregate-key." + t_, sel(T, [(TA, "c0"), (agg("SUM", TB), "c1")], group=[TA], order=[(1, d0, n0), (0, False, True)]), 1))
        out.append(("order", "group-key." + t_, sel(T, [(TA, "c0"), (agg("COUNT_STAR"), "c1")], group=[TA], order=[(0, d0, n0)]), 1))
        out.append(("order", "over-left-join." + t_, sel(join("LEFT", T, tbl("u"), ("eq", TA, UA)), [(TA, "c0"), (UB, "c1")], order=[(1, d0, n0), (0, d0, n0)]), 2))
        out.append(("order", "setop." + t_, setop("UNION", True, sel(T, [(TA, "c0")]), sel(tbl("u"), [(UB, "c0")]), order=[(0, d0, n0)]), 2))
    return out


def gen_limit():
    out = []
    T = tbl("t")
    items = [(TA, "c0"), (TB, "c1")]
    for lim, off in [(0, None), (1, None), (2, None), (1, 1), (2, 1), (1, 2), (0, 1), (None, 1), (5, None)]:
        lt = f"limit-{lim}" + ("" if off is None else f"-offset-{off}")
        out.append(("limit", "ordered", sel(T, items, order=[(0, False, True), (1, True, False)], limit=lim, offset=off), 1))
        out.append(("limit", "ordered-desc", sel(T, items, order=[(0, True, True), (1, False, False)], limit=lim, offset=off), 1))
        out.append(("limit", "unordered", sel(T, items, limit=lim, offset=off), 1))
        out.append(("limit", "unordered-where", sel(T, items, where=("isnull", TA), limit=lim, offset=off), 1))
        out.append(("limit", "aggregate-no-group", sel(T, [(agg("COUNT_STAR"), "c0"), (agg("SUM", TB), "c1")], limit=lim, offset=off), 1))
        out.append(("limit", "aggregate-group", sel(T, [(TA, "c0"), (agg("COUNT", TB), "c1")], group=[TA], order=[(0, False, False), (1, False, False)], limit=lim, offset=off), 1))
        out.append(("limit", "aggregate-group-unordered", sel(T, [(TA, "c0"), (agg("COUNT", TB), "c1")], group=[TA], limit=lim, offset=off), 1))
        out.append(("limit", "aggregate-having-unordered", sel(T, [(TA, "c0")], group=[TA], having=("gt", agg("COUNT_STAR"), L(0)), limit=lim, offset=off), 1))
        out.append(("limit", "distinct", sel(T, [(TA, "c0")], distinct=True, order=[(0, True, False)], limit=lim, offset=off), 1))
        out.append(("limit", "distinct-unordered", sel(T, [(TA, "c0")], distinct=True, limit=lim, offset=off), 1))
        out.append(("limit", "derived", sel(sub(sel(T, items2(), order=[(0, False, True), (1, False, True)], limit=lim, offset=off), "s"), [(agg("COUNT_STAR"), "c0")]), 1))
    for lim, off in [(1, None), (1, 1), (0, None), (3, 1)]:
        lt = f"limit-{lim}" + ("" if off is None else f"-offset-{off}")
        out.append(("limit", "left-join-unordered", sel(join("LEFT", T, tbl("u"), ("eq", TA, UA)), ALL4, limit=lim, offset=off), 2))
        out.append(("limit", "left-join-ordered", sel(join("LEFT", T, tbl("u"), ("lt", TA, UA)), ALL4, order=[(0, False, True), (1, False, True), (2, False, True), (3, False, True)], limit=lim, offset=off), 2))
        out.append(("limit", "setop-ordered", setop("UNION", True, sel(T, [(TA, "c0")]), sel(tbl("u"), [(UA, "c0")]), order=[(0, False, False)], limit=lim, offset=off), 2))
        out.append(("limit", "setop-unordered", setop("EXCEPT", True, sel(T, [(TA, "c0")]), sel(tbl("u"), [(UA, "c0")]), limit=lim, offset=off), 2))
    return out


def items2():
    return [(TA, "x"), (TB, "y")]


def gen_setop():
    out = []
    T, U = tbl("t"), tbl("u")
    for op in ("UNION", "INTERSECT", "EXCEPT"):
        fam = "setop-" + op.lower()
        for all_ in (False, True):
            v = "all" if all_ else "distinct"
            out += [
                (fam, v + ".two-columns", setop(op, all_, sel(T, [(TA, "c0"), (TB, "c1")]), sel(U, [(UA, "c0"), (UB, "c1")])), 2),
                (fam, v + ".one-column", setop(op, all_, sel(T, [(TA, "c0")]), sel(U, [(UB, "c0")])), 2),
                (fam, "same-table-in-both-branches", setop(op, all_, sel(T, [(TA, "c0")]), sel(T, [(TB, "c0")])), 1),
                (fam, v + ".filtered-branches", setop(op, all_, sel(T, [(TA, "c0")], where=("isnull", TB)), sel(U, [(UA, "c0")], where=("neq", UB, L(1)))), 2),
                (fam, v + ".expression-columns", setop(op, all_, sel(T, [(("eq", TA, TB), "c0")]), sel(U, [(("isnull", UA), "c0")])), 2, not all_),
                (fam, v + ".ordered", setop(op, all_, sel(T, [(TA, "c0"), (TB, "c1")]), sel(U, [(UA, "c0"), (UB, "c1")]), order=[(0, True, True), (1, False, False)]), 2, not all_),
                (fam, v + ".derived", sel(sub(setop(op, all_, sel(T, [(TA, "x")]), sel(U, [(UA, "x")])), "s"), [(agg("COUNT_STAR"), "c0"), (agg("COUNT", C("s.x")), "c1")]), 2, not all_),
                (fam, "nested-operand", setop(op, all_, setop("UNION", True, sel(T, [(TA, "c0")]), sel(U, [(UA, "c0")])), sel(T, [(TB, "c0")])), 2),
                (fam, "nested-operand", setop(op, all_, sel(T, [(TA, "c0")]), setop("UNION", False, sel(U, [(UA, "c0")]), sel(U, [(UB, "c0")]))), 2),
                (fam, v + ".aggregate-branches", setop(op, all_, sel(T, [(agg("SUM", TA), "c0")]), sel(U, [(agg("MAX", UB), "c0")])), 2, not all_),
            ]
    return out


def gen_subquery():
    out = []
    T, U = tbl("t"), tbl("u")
    ua = sel(U, [(UA, "x")])
    ua_f = sel(U, [(UA, "x")], where=("eq", UB, L(1)))
    ua_corr = sel(U, [(UB, "x")], where=("eq", UA, TA))
    preds = [
        ("in-subquery", ("insub", TA, ua)),
        ("not-in-subquery", ("notinsub", TA, ua)),
        ("in-subquery-filtered", ("insub", TA, ua_f)),
        ("not-in-subquery-filtered", ("notinsub", TA, ua_f)),
        ("in-subquery-correlated", ("insub", TB, ua_corr)),
        ("not-in-subquery-correlated", ("notinsub", TB, ua_corr)),
        ("in-subquery-not", ("not", ("insub", TA, ua))),
        ("exists-correlated", ("exists", sel(U, [(L(1), "x")], where=("eq", UA, TA)))),
        ("not-exists-correlated", ("not", ("exists", sel(U, [(L(1), "x")], where=("eq", UA, TA))))),
        ("exists-correlated-non-equi", ("exists", sel(U, [(L(1), "x")], where=("lt", UA, TA)))),
        ("exists-uncorrelated", ("exists", sel(U, [(L(1), "x")]))),
        ("not-exists-uncorrelated", ("not", ("exists", sel(U, [(L(1), "x")], where=("isnull", UA))))),
        ("exists-aggregate", ("exists", sel(U, [(agg("COUNT_STAR"), "x")]))),
        ("exists-aggregate", ("exists", sel(U, [(agg("MAX", UA), "x")], where=("eq", UA, TA)))),
        ("scalar-uncorrelated", ("eq", TB, ("scalar", sel(U, [(agg("MAX", UB), "x")])))),
        ("scalar-uncorrelated", ("isnull", ("scalar", sel(U, [(agg("MIN", UB), "x")])))),
        ("scalar-correlated", ("gt", TB, ("scalar", sel(U, [(agg("MIN", UB), "x")], where=("eq", UA, TA))))),
        ("scalar-correlated-count", ("eq", ("scalar", sel(U, [(agg("COUNT_STAR"), "x")], where=("eq", UA, TA))), L(0))),
        ("scalar-correlated-count", ("eq", ("scalar", sel(U, [(agg("COUNT", UB), "x")], where=("eq", UA, TA))), L(0))),
        ("scalar-correlated", ("isnull", ("scalar", sel(U, [(agg("SUM", UB), "x")], where=("eq", UA, TA))))),
        # correlations the optimizer cannot turn into a join (non-equality, under OR): the subquery is run per outer row, also for
        # an outer row whose correlated column is NULL -- where its result need not be empty / NULL
        ("exists-correlated-or", ("exists", sel(U, [(L(1), "x")], where=("or", ("eq", UA, TA), ("eq", UB, L(1)))))),
        ("not-exists-correlated-or", ("not", ("exists", sel(U, [(L(1), "x")], where=("or", ("eq", UA, TA), ("isnull", UB)))))),
        ("in-subquery-correlated-or", ("insub", TB, sel(U, [(UB, "x")], where=("or", ("eq", UA, TA), ("isnull", UA))))),
        ("not-in-subquery-correlated-or", ("notinsub", TB, sel(U, [(UB, "x")], where=("or", ("lt", UA, TA), ("eq", UB, L(2)))))),
        ("scalar-correlated-count-non-equi", ("eq", ("scalar", sel(U, [(agg("COUNT_STAR"), "x")], where=("lt", UA, TA))), L(0))),
        ("scalar-correlated-count-non-equi", ("gt", ("scalar", sel(U, [(agg("COUNT", UB), "x")], where=("or", ("gt", UA, TA), ("isnull", UA)))), L(0))),
        ("all", ("quant", "gt", "ALL", TA, ua)),
        ("all", ("quant", "neq", "ALL", TA, ua)),
        ("all", ("quant", "ge", "ALL", TA, ua_f)),
        ("all-not", ("not", ("quant", "gt", "ALL", TA, ua))),
        ("any", ("quant", "eq", "ANY", TA, ua)),
        ("any", ("quant", "lt", "ANY", TA, ua)),
        ("any-not", ("not", ("quant", "lt", "ANY", TA, ua))),
        ("any-correlated", ("quant", "lt", "ANY", TB, ua_corr)),
        ("all-correlated", ("quant", "le", "ALL", TB, ua_corr)),
    ]
    for pi, (tag, p) in enumerate(preds):
        out.append(("subquery", tag, sel(T, [(TA, "c0"), (TB, "c1")], where=p), 2, pi % 2 == 0))
        out.append(("subquery", tag, sel(T, [(TA, "c0"), (TB, "c1"), (p, "c2")]), 2))
        out.append(("subquery", tag, sel(T, [(TA, "c0"), (TB, "c1")], where=("or", p, ("eq", TB, L(1)))), 2, False))
    # several subquery predicates over the SAME left operand in one connector: each of them must survive the optimizer
    # (a rule that keys connector operands by a rendering which leaves the subquery out merges them into one)
    ub = sel(U, [(UB, "x")])
    ub_f = sel(U, [(UB, "x")], where=("not", ("isnull", UB)))
    same = [
        ("two-not-in-same-operand", ("and", ("notinsub", TA, ua), ("notinsub", TA, ub_f))),
        ("two-not-in-same-operand", ("and", ("notinsub", TA, ub_f), ("notinsub", TA, ua))),
        ("two-not-in-same-operand", ("or", ("notinsub", TA, ua), ("notinsub", TA, ub_f))),
        ("two-not-in-same-operand", ("and", ("notinsub", TA, ua), ("notinsub", TA, ub))),
        ("two-in-same-operand", ("or", ("insub", TA, ua), ("insub", TA, ub))),
        ("two-in-same-operand", ("and", ("insub", TA, ua), ("insub", TA, ub))),
        ("two-in-same-operand-limit", ("or", ("insub", TA, sel(U, [(UA, "x")], limit=9)), ("insub", TA, sel(U, [(UB, "x")], limit=9)))),
        ("in-and-not-in-same-operand", ("and", ("insub", TA, ua), ("notinsub", TA, ub_f))),
        ("two-exists", ("and", ("exists", sel(U, [(L(1), "x")], where=("eq", UA, TA))), ("exists", sel(U, [(L(1), "x")], where=("eq", UB, TA))))),
        ("two-any-same-operand", ("or", ("quant", "lt", "ANY", TA, ua), ("quant", "lt", "ANY", TA, ub))),
        ("two-scalar-same-operand", ("and", ("gt", TA, ("scalar", sel(U, [(agg("MIN", UA), "x")]))), ("gt", TA, ("scalar", sel(U, [(agg("MIN", UB), "x")]))))),
    ]
    for pi, (tag, p) in enumerate(same):
        out.append(("subquery", tag, sel(T, [(TA, "c0"), (TB, "c1")], where=p), 2, pi % 3 != 1))
        out.append(("subquery", tag, sel(T, [(TA, "c0"), (TB, "c1"), (p, "c2")]), 2, False))
    scalars = [
        ("scalar-uncorrelated", ("scalar", sel(U, [(agg("MAX", UB), "x")]))),
        ("scalar-uncorrelated-count", ("scalar", sel(U, [(agg("COUNT", UA), "x")]))),
        ("scalar-correlated-count", ("scalar", sel(U, [(agg("COUNT_STAR"), "x")], where=("eq", UA, TA)))),
        ("scalar-correlated-count", ("scalar", sel(U, [(agg("COUNT", UB), "x")], where=("eq", UA, TA)))),
        ("scalar-correlated", ("scalar", sel(U, [(agg("SUM", UB), "x")], where=("eq", UA, TA)))),
        ("scalar-correlated", ("scalar", sel(U, [(agg("MIN", UB), "x")], where=("lt", UA, TA)))),
        ("scalar-correlated-coalesce", ("coalesce", [("scalar", sel(U, [(agg("MAX", UB), "x")], where=("eq", UA, TA))), L(0)])),
        ("scalar-correlated-count-non-equi", ("scalar", sel(U, [(agg("COUNT_STAR"), "x")], where=("lt", UA, TA)))),
        ("scalar-correlated-count-non-equi", ("scalar", sel(U, [(agg("COUNT", UA), "x")], where=("or", ("eq", UA, TA), ("isnull", UB))))),
        ("scalar-correlated-or", ("scalar", sel(U, [(agg("MAX", UB), "x")], where=("or", ("eq", UA, TA), ("isnull", UA))))),
        ("scalar-correlated-or", ("scalar", sel(U, [(agg("SUM", UB), "x")], where=("eq", ("coalesce", [UA, L(1)]), ("coalesce", [TA, L(1)]))))),
    ]
    for tag, e in scalars:
        out.append(("subquery", tag, sel(T, [(TA, "c0"), (TB, "c1"), (e, "c2")]), 2))
    # a subquery correlated with TWO outer tables through columns of the same name (t.a and u.a): its result depends on both
    W = sub(sel(U, [(UA, "a"), (UB, "b")]), "w")
    WA, WB = C("w.a"), C("w.b")
    outer = join("INNER", T, U, ("eq", TB, UB))
    two = [
        ("scalar-two-outer-tables", ("scalar", sel(W, [(agg("COUNT_STAR"), "x")], where=("or", ("eq", WA, TA), ("eq", WA, UA))))),
        ("scalar-two-outer-tables", ("scalar", sel(W, [(agg("SUM", WB), "x")], where=("or", ("eq", WA, TA), ("lt", WA, UA))))),
        ("exists-two-outer-tables", ("exists", sel(W, [(L(1), "x")], where=("and", ("neq", WA, TA), ("eq", WA, UA))))),
        ("in-two-outer-tables", ("insub", TB, sel(W, [(WB, "x")], where=("or", ("eq", WA, TA), ("eq", WA, UA))))),
    ]
    for tag, e in two:
        out.append(("subquery", tag, sel(outer, [(TA, "c0"), (UA, "c1"), (e, "c2")]), 2))
        out.append(("subquery", tag, sel(join("LEFT", T, U, ("eq", TB, UB)), [(TA, "c0"), (UA, "c1"), (e, "c2")]), 2, False))
    return out


def queries(tier):
    """quick: the core queries; thorough: all of them (core ones get the larger data scope, see databases())"""
    qs = gen_filter() + gen_join() + gen_aggregate() + gen_distinct() + gen_order() + gen_limit() + gen_setop() + gen_subquery()
    seen, out = set(), []
    for fam, tag, q, ntab, *rest in qs:
        core = rest[0] if rest else True
        text = q_sql(q)
        if text not in seen and (core or tier == "thorough"):
            seen.add(text)
            out.append({"family": fam, "tag": tag, "q": q, "sql": text, "ntab": ntab, "core": core})
    return out


# ---------------------------------------------------------------------------------------------------- data
def tables(max_rows, ordered):
    """all tables of <= max_rows rows x 2 columns over {NULL, 1, 2}: as sequences (ordered) or as multisets; by size"""
    out = []
    for n in range(max_rows + 1):
        it = itertools.product(ROWS, repeat=n) if ordered else itertools.combinations_with_replacement(ROWS, n)
        out += [tuple(x) for x in it]
    return out


def databases(tier, ntab, core=True):
    """single-table queries: every row SEQUENCE of <= 2 (quick) / 3 (thorough) rows; two-table queries: every pair of row
    MULTISETS (rows in canonical order) of <= 2 rows each; in thorough, core queries get all pairs of <= 3 rows each except
    the 3 x 3 pairs (27225 of 48400; beyond the 20 minute budget), non-core queries the <= 2 row pairs"""
    n = 2 if tier == "quick" else 3
    if ntab == 1:
        return [(t, ()) for t in tables(n, True)]
    ms = tables(n if core else 2, False)
    out = [(t, u) for t in ms for u in ms if len(t) + len(u) < 6]
    out.sort(key=lambda d: len(d[0]) + len(d[1]))
    return out


def make_tables(db):
    t, u = db
    return {"t": Table(("a", "b"), [tuple(r) for r in t]), "u": Table(("a", "b"), [tuple(r) for r in u])}


# ---------------------------------------------------------------------------------------------------- execution
_PLANS = {}
_QUERIES = {}


def _plan(qi, tier):
    """('ok', plan) | ('rejected', class name)"""
    key = (tier, qi)
    if key not in _PLANS:
        sql = _QUERIES[tier][qi]["sql"]
        try:
            expression = optimize(sql, ensure_schema(SCHEMA), leave_tables_isolated=True)
            _PLANS[key] = ("ok", Plan(expression))
        except Exception as e:  # data: the query is outside what sqlglot accepts
            _PLANS[key] = ("rejected", type(e).__name__ + ":" + harness.repo_frame_key(e)[1])
    return _PLANS[key]


def run_planned(plan, db):
    return PythonExecutor(tables=Tables(make_tables(db))).execute(plan)


def run_native(sql, db):
    """the contract's call"""
    return execute(sql, schema=SCHEMA, tables=make_tables(db))


def _outcome(fn):
    """('rows', rows) | ('rejected', cause class) | ('exception', class)"""
    try:
        return ("rows", [tuple(r) for r in fn().rows])
    except ExecuteError as e:
        cause = e.__cause__
        return ("rejected", type(cause).__name__ if cause is not None else "ExecuteError")
    except Exception as e:  # escaped the executor: data
        return ("exception", type(e).__name__)


def _features(db, ntab):
    used = db[:ntab]
    return (any(len(x) == 0 for x in used), any(v is None for x in used for r in x for v in r))


NATIVE_TRIES = 8


def _judge(q, kind, val, db):
    if kind == "rejected":
        return None
    return ("exception:" + val) if kind == "exception" else compare(q, val, db)


def work(item):
    tier, qi, lo, hi = item
    entry = _QUERIES[tier][qi]
    q, ntab = entry["q"], entry["ntab"]
    dbs = databases_cached(tier, ntab, entry["core"])[lo:hi]
    st, plan = _plan(qi, tier)
    res = {"qi": qi, "n": 0, "nontrivial": 0, "rejected": Counter(), "plan_rejected": None, "fails": [], "nfail": Counter(),
           "common": {}, "native_checks": 0, "run_dependent": set()}
    if st != "ok":
        res["plan_rejected"] = plan
        return res
    for k, db in enumerate(dbs):
        kind, val = _outcome(lambda: run_planned(plan, db))
        disc = _judge(q, kind, val, db)
        if k in (0, len(dbs) - 1):
            # the contract's own call on the same input.  The executor walks its plan through id()-hashed sets, so two
            # runs of the same query may differ: a violation on either path counts, and is labelled run-dependent
            nk, nv = _outcome(lambda: run_native(entry["sql"], db))
            res["native_checks"] += 1
            ndisc = _judge(q, nk, nv, db)
            if ndisc != disc:
                for d in (disc, ndisc):
                    if d is not None:
                        res["run_dependent"].add(d)
                if disc is None:
                    kind, val, disc = nk, nv, ndisc
        if kind == "rejected":
            res["rejected"][val] += 1
            continue
        res["n"] += 1
        if kind == "rows" and (val or any(len(x) for x in db[:ntab])):
            res["nontrivial"] += 1
        if disc is None:
            continue
        res["nfail"][disc] += 1
        empty, null = _features(db, ntab)
        c = res["common"].setdefault(disc, [True, True])
        c[0] &= empty
        c[1] &= null
        if sum(1 for f in res["fails"] if f[0] == disc) < 2:
            # every reported example is re-run through the real entry point (12 ms a call: examples only)
            confirmed = False
            for attempt in range(NATIVE_TRIES):
                nk, nv = _outcome(lambda: run_native(entry["sql"], db))
                res["native_checks"] += 1
                if _judge(q, nk, nv, db) == disc:
                    confirmed = True
                    break
                res["run_dependent"].add(disc)
            res["fails"].append((disc, db, val if kind == "rows" else None, confirmed))
    return res


_DBS = {}


def databases_cached(tier, ntab, core=True):
    if (tier, ntab, core) not in _DBS:
        _DBS[(tier, ntab, core)] = databases(tier, ntab, core)
    return _DBS[(tier, ntab, core)]


def _db_json(db):
    return {"t": [list(r) for r in db[0]], "u": [list(r) for r in db[1]]}


def run(tier, seed):
    qs = queries(tier)
    _QUERIES[tier] = qs
    items = []
    for qi, entry in enumerate(qs):
        n = len(databases_cached(tier, entry["ntab"], entry["core"]))
        step = 800 if entry["ntab"] == 2 else 400
        for lo in range(0, n, step):
            items.append((tier, qi, lo, min(n, lo + step)))
    order = list(range(len(items)))
    if seed:
        import random

        random.Random(seed).shuffle(order)
    results = harness.pool_map(work, [items[i] for i in order], chunksize=1)

    per_q = {}
    for r in results:
        a = per_q.setdefault(r["qi"], {"n": 0, "nontrivial": 0, "rejected": Counter(), "plan_rejected": None, "fails": [],
                                       "nfail": Counter(), "common": {}, "native_checks": 0, "run_dependent": set()})
        a["run_dependent"] |= r["run_dependent"]
        a["n"] += r["n"]
        a["nontrivial"] += r["nontrivial"]
        a["rejected"] += r["rejected"]
        a["native_checks"] += r["native_checks"]
        a["plan_rejected"] = a["plan_rejected"] or r["plan_rejected"]
        a["nfail"] += r["nfail"]
        a["fails"] += r["fails"]
        for d, (e, nl) in r["common"].items():
            c = a["common"].setdefault(d, [True, True])
            c[0] &= e
            c[1] &= nl

    violations, counts, run_dependent_keys = {}, Counter(), {}
    evaluations = nontrivial = native = 0
    fam_evals, plan_rejected, rejected_all, rejected_some = Counter(), {}, {}, {}
    for qi, entry in enumerate(qs):
        a = per_q[qi]
        evaluations += a["n"]
        nontrivial += a["nontrivial"]
        native += a["native_checks"]
        fam_evals[entry["family"]] += a["n"]
        if a["plan_rejected"]:
            plan_rejected[entry["sql"]] = a["plan_rejected"]
            continue
        nrej = sum(a["rejected"].values())
        if nrej:
            (rejected_all if a["n"] == 0 else rejected_some)[entry["sql"]] = {"rejected": nrej, "returned": a["n"], "causes": dict(a["rejected"])}
        for disc in sorted(a["nfail"]):
            empty, null = a["common"][disc]
            cond = "empty-input" if empty else "null" if null else "any"
            fails = sorted((f for f in a["fails"] if f[0] == disc), key=lambda f: (not f[3], len(f[1][0]) + len(f[1][1]), repr(f[1])))
            rundep = disc in a["run_dependent"]  # not part of the key: whether it is noticed is itself run-dependent
            if not fails[0][3]:
                cond += ".unconfirmed-through-execute"
            key = f"c11:{entry['family']}:{disc}:{entry['tag']}.{cond}"
            counts[key] += a["nfail"][disc]
            _, db, got, _ = fails[0]
            run_dependent_keys[key] = run_dependent_keys.get(key, False) or rundep
            cand = (len(db[0]) + len(db[1]), len(entry["sql"]), entry["sql"], db, got)
            if key not in violations or cand[:3] < violations[key][:3]:
                violations[key] = cand
    vlist = []
    for key in sorted(violations):
        _, _, sql, db, got = violations[key]
        q = next(e["q"] for e in qs if e["sql"] == sql)
        vlist.append({"key": key, "what": f"{sql}  on {_db_json(db)}: executor {got} spec {q_eval(q, db)}",
                      "input": {"sql": sql, "db": _db_json(db)}, "count": counts[key],
                      "outcome_differed_between_runs": run_dependent_keys[key]})
    n1, n2 = len(databases_cached(tier, 1)), len(databases_cached(tier, 2))
    return {
        "evaluations": evaluations,
        "distinct_nontrivial": nontrivial,
        "rule": "(query, database) pairs where the executor returned rows that were compared with the spec and either the result or a referenced table is non-empty",
        "bound": f"tier={tier}: {len(qs)} generated queries ({dict(Counter(e['family'] for e in qs))}; quick = the core subset of the grammar, thorough = all); "
                 f"single-table queries x all {n1} row sequences of <= {2 if tier == 'quick' else 3} rows x 2 columns over {{NULL,1,2}}; two-table queries x all pairs of row "
                 f"multisets (empty tables included): {n2} pairs (<= {2 if tier == 'quick' else 3} rows each" + (", without the 3 x 3 pairs" if tier != "quick" else "")
                 + f") for core queries" + (f", {len(databases_cached(tier, 2, False))} pairs (<= 2 rows each) for the non-core ones" if tier != "quick" else ""),
        "exhaustive": True,
        "queries": len(qs),
        "evaluations_by_family": dict(fam_evals),
        "samples": [qs[i]["sql"] for i in (0, len(qs) // 3, len(qs) // 2, len(qs) - 1)],
        "violations": vlist,
        "violation_counts": dict(sorted(counts.items())),
        "observations": {
            "queries_rejected_at_plan": plan_rejected,
            "queries_rejected_by_ExecuteError_on_every_database": rejected_all,
            "queries_rejected_by_ExecuteError_on_some_databases_only": rejected_some,
        },
        "contract_evaluations": {"PythonExecutor.execute(plan of optimize(q))": evaluations + sum(sum(per_q[i]["rejected"].values()) for i in per_q),
                                 "sqlglot.executor.execute": native},
    }


def replay(entry):
    """native: sqlglot.executor.execute only; up to NATIVE_TRIES runs because the executor's result can be run-dependent"""
    inp = entry["input"]
    sql = inp["sql"]
    match = [e for e in queries("thorough") if e["sql"] == sql]
    if not match:
        return {"violated": False, "observed": "query is not in the generated space"}
    e = match[0]
    db = (tuple(tuple(r) for r in inp["db"]["t"]), tuple(tuple(r) for r in inp["db"]["u"]))
    want = ":".join(entry["key"].split(":")[2:-1])
    seen = []
    for _ in range(NATIVE_TRIES):
        kind, val = _outcome(lambda: run_native(sql, db))
        disc = _judge(e["q"], kind, val, db)
        seen.append(f"execute() -> {kind} {val}; discrepancy {disc}")
        if disc == want:
            return {"violated": True, "observed": f"{seen[-1]}; spec -> {q_eval(e['q'], db)}"}
    return {"violated": False, "observed": "; ".join(sorted(set(seen))) + f"; spec -> {q_eval(e['q'], db)}"}


def selfcheck(tier="quick", stride=7):
    """the structure evaluator (q_eval + compare) against sqlite3 on the generated queries themselves: guards against a
    mismatch between a structure and its SQL text.  sqlite lacks INTERSECT/EXCEPT ALL and ALL/ANY: those are skipped."""
    import sqlite3

    con = sqlite3.connect(":memory:")
    SQLITE[0] = True
    try:
        qs = queries(tier)
    finally:
        SQLITE[0] = False
    done = skipped = 0
    for e in qs:
        text = e["sql"]
        if " ALL (" in text or " ANY (" in text or "INTERSECT ALL" in text or "EXCEPT ALL" in text:
            skipped += 1
            continue
        dbs = databases_cached(tier, e["ntab"], e["core"])
        for db in dbs[:: (stride if e["ntab"] == 2 else 1)]:
            for name, rows in zip(("t", "u"), db):
                con.execute(f"DROP TABLE IF EXISTS {name}")
                con.execute(f"CREATE TABLE {name} (a INT, b INT)")
                con.executemany(f"INSERT INTO {name} VALUES (?, ?)", rows)
            got = [tuple(r) for r in con.execute(text).fetchall()]
            disc = compare(e["q"], got, db)
            assert disc is None, f"spec evaluator disagrees with sqlite ({disc}): {text} on {db}: sqlite {got} spec {q_eval(e['q'], db)}"
            done += 1
    return {"queries": len(qs) - skipped, "skipped_unsupported_by_sqlite": skipped, "comparisons": done}


if __name__ == "__main__":
    if "--selfcheck" in sys.argv:
        print("c11 structure evaluator vs sqlite3 OK:", selfcheck())
        sys.exit(0)
    harness.main(run, replay)
