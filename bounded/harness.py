"""CLI glue for bounded (tier B) modules.  Protocol (see bounded/README.md):

    run(tier, seed) -> dict(evaluations, distinct_nontrivial, rule, bound, exhaustive, samples, violations, ...)
    replay(entry)   -> dict(violated: bool, observed: str)

Runs under /venv/bin/python (the interpreter the test suite uses).
"""
import argparse
import json
import multiprocessing as mp
import os
import sys
import time
import traceback

REPO = os.environ.get("VERIF_REPO", "/repo")
if REPO not in sys.path:
    sys.path.insert(0, REPO)
VERIF = os.path.dirname(os.path.dirname(os.path.abspath(__file__)))
if VERIF not in sys.path:
    sys.path.insert(0, VERIF)

WORKERS = int(os.environ.get("VERIF_WORKERS", "16"))


def pool_map(func, items, workers=None, chunksize=None):
    """order-preserving parallel map with a fresh 'fork' pool (sqlglot already imported in the parent)."""
    workers = workers or WORKERS
    items = list(items)
    if not items:
        return []
    if workers <= 1 or len(items) < 4:
        return [func(x) for x in items]
    ctx = mp.get_context("fork")
    with ctx.Pool(workers) as pool:
        return pool.map(func, items, chunksize or max(1, len(items) // (workers * 8)))


def repo_frame_key(exc):
    """(exception class, innermost /repo frame 'file:function') -- the call-site key used for leak findings."""
    tb = traceback.extract_tb(exc.__traceback__)
    site = "?"
    for fr in tb:
        fn = os.path.abspath(fr.filename)
        if fn.startswith(os.path.abspath(REPO) + os.sep):
            site = f"{os.path.relpath(fn, REPO)}:{fr.name}"
    return type(exc).__name__, site


def main(run, replay=None):
    ap = argparse.ArgumentParser()
    ap.add_argument("--tier", default=os.environ.get("VERIF_TIER", "quick"), choices=["quick", "thorough"])
    ap.add_argument("--seed", type=int, default=int(os.environ.get("VERIF_SEED", "0") or 0))
    ap.add_argument("--out")
    ap.add_argument("--replay")
    a = ap.parse_args()
    if a.replay:
        entry = json.load(open(a.replay))
        res = replay(entry) if replay else {"violated": None, "observed": "no replay function"}
        print(json.dumps(res, indent=1, default=repr))
        sys.exit(1 if res.get("violated") else 0)
    t0 = time.time()
    res = run(a.tier, a.seed)
    res["wall_s"] = round(time.time() - t0, 2)
    txt = json.dumps(res, indent=1, default=repr)
    if a.out:
        open(a.out, "w").write(txt)
    else:
        v = res.get("violations", [])
        print(json.dumps({k: (v2 if k != "violations" else f"{len(v2)} violations") for k, v2 in res.items() if k != "samples"}, indent=1, default=repr))
        keys = {}
        for x in v:
            keys.setdefault(x["key"], x)
        for k, x in list(keys.items())[:200]:
            print("VIOL", k, "|", str(x.get("what"))[:160], "|", str(x.get("input"))[:160])
    sys.exit(0)
