"""C20 (bounded): an AST diff accounts for every node once and is empty only for equal trees.  Runs under /venv/bin/python.

Property: for every pair of trees, each non-identifier node of the source appears exactly once as removed or as the
source side of a kept/updated pair, each such node of the target appears exactly once as inserted or as the target
side of a kept/updated pair, and paired nodes have the same type.  The delta (edits other than Keep) is empty exactly
when the two trees are equal, in particular for any tree against its own copy; diffing never alters either input.

Derived from /repo/sqlglot/diff.py: ChangeDistiller indexes `tree.bfs()` minus IGNORED_LEAF_EXPRESSION_TYPES
(= Identifier) for both sides; the edit script is  Remove(n) for unmatched source ids, Insert(n) for unmatched target
ids and, per matched pair, [Move ...] + (Update | Keep).  Move entries are EXTRA: `Move(s, t)` is emitted for a pair
that also gets its own Keep/Update entry (either from the pair's own iteration, or from the parent's
_generate_move_edits, which only looks at matched children).  diff() works on copies when the inputs share node
objects (then the script refers to the copies).

CONTRACT, checked on the real sqlglot.diff.diff(source, target, matchings=M, delta_only=False) result R:
  accounted set S = all nodes reachable from the root the script's source side lives under, minus Identifier; that
  root must be `source` itself, or (only when the inputs share node objects) a distinct tree equal to `source`.
    source-unaccounted : some s in S is in none of {Remove.expression} + {Keep.source} + {Update.source}, or such an
                         entry refers to a node outside S
    source-twice       : some s occurs more than once there
    target-unaccounted / target-twice : same with Insert.expression / Keep.target / Update.target
    type-mismatch      : a Keep/Update pair with type(source) is not type(target)
    delta_only-mismatch: diff(..., delta_only=True) != R minus the Keep entries (as multisets of (edit class, position
                         path of the source-side node, position path of the target-side node))
    delta-empty-but-unequal / delta-nonempty-but-equal : (R has no non-Keep entry) <=> (source == target)
    input-mutated      : treecheck.fingerprint(source) / (target) (structure, scalar args, parent links, arg_key,
                         index, comments, types, meta, object ids) differs after the calls (cached _hash values are
                         not part of it: Expr.__hash__ caches them itself and diff() clears them again)
    exception:<Class>  : diff raised
  Moves are only observed (observations: every Move pair also has a Keep/Update entry).

ENUMERATOR (deterministic).  Base trees: every statement of corpus.STATEMENTS parsed in the base dialect with <= 40
nodes, plus REPETITIVE (trees with repeated subtrees: similarity ties).  Edit operations at every applicable position
(the edited tree must be one the parser itself produces: parse(edited.sql()) == edited, and must be well formed):
  rename (identifier text + "_x"), rename-far (identifier -> "zz9"), recase (a str arg of a non-raw node swap-cased:
  the trees stay EQUAL by Expr.__eq__; kept only if the parser yields exactly that spelling for the tree's SQL), literal, proj-insert/-delete/-swap, conj-insert/-delete/-swap,
  join-insert/-delete/-swap, wrap (node -> G(node)), unwrap (Paren/Func/Unary -> its operand), copy (no edit).
All edit sequences of length <= 1 on every base tree; of length 2 on the base trees with <= DOUBLE_NODES nodes
(quick) / all (thorough), length 3 in thorough on trees <= 12 nodes; pairs (t, e(t)) and (e(t), t); matchings modes:
none, all (identity correspondence restricted to surviving non-identifier nodes of equal type), some (every second
pair), one (the first pair).  Plus all ordered pairs of INDEPENDENT (30 trees; matchings none / root pair), plus
shared-object scenarios per base tree (same object on both sides; target embedding a subtree object of the source;
a source holding one node object twice), each with and without matchings.

Keys: c20:<clause>:<edit kind | kind1+kind2 | independent | shared-*>:<node class>
  node class: the unaccounted / doubled / mismatched node's class; for the two delta clauses the class of the first node
  (pre-order, lock-step) at which the two trees differ in class, raw scalar args or child layout (for equal trees:
  the node whose string arg differs in case only; the root class if there is no raw difference at all); for
  input-mutated the class of the first changed node.
  A two-edit pair is reported under the single kind e1 when (t, e1(t)) alone already violates the same clause.
"""
import collections
import json
import logging
import os
import sys

if __package__ in (None, ""):
    sys.path.insert(0, os.path.dirname(os.path.dirname(os.path.abspath(__file__))))
from bounded import harness  # noqa: E402
from bounded import corpus  # noqa: E402
from bounded import treecheck  # noqa: E402

import sqlglot  # noqa: E402
from sqlglot import exp, parse_one  # noqa: E402
import importlib  # noqa: E402

D = importlib.import_module("sqlglot.diff")  # (the attribute sqlglot.diff is the function, not the module)
_diff = D.diff

logging.getLogger("sqlglot").setLevel(logging.CRITICAL)


class HarnessError(Exception):
    pass


MAX_NODES = 40
DOUBLE_NODES = {"quick": 30, "thorough": 40}
TRIPLE_NODES = {"quick": 0, "thorough": 12}

REPETITIVE = [
    "SELECT f(a), f(a), f(a) FROM t",
    "SELECT (a + b) + (a + b), (a + b)",
    "SELECT a, a, a FROM t JOIN t ON a = a",
    "SELECT CASE WHEN a = 1 THEN 'x' WHEN a = 1 THEN 'x' ELSE 'x' END FROM t",
    "SELECT a FROM t WHERE a IN (1, 1, 2, 2, 1)",
    "SELECT a FROM t WHERE a = 1 AND a = 1 AND a = 1",
    "SELECT 1, 1, 1",
    "SELECT a AS a, a AS a FROM t AS t",
]

INDEPENDENT = [
    # node classes that have a concrete SUBCLASS (Cast/TryCast, Concat/ConcatWs, Order/Sort ...): a pairing across the two is a type mismatch
    "SELECT CAST(a AS INT) FROM t",
    "SELECT TRY_CAST(a AS INT) FROM t",
    "SELECT CONCAT(a, b) FROM t",
    "SELECT CONCAT_WS(a, b) FROM t",
    "SELECT 1",
    "SELECT a",
    "SELECT a FROM t",
    "SELECT b FROM t",
    "SELECT a FROM u",
    "SELECT a, b FROM t",
    "SELECT b, a FROM t",
    "SELECT a AS b FROM t",
    "SELECT a + 1 FROM t",
    "SELECT a + b FROM t",
    "SELECT f(a) FROM t",
    "SELECT F(a) FROM t",
    "SELECT g(a) FROM t",
    "SELECT f(a), f(a) FROM t",
    "SELECT a FROM t WHERE a = 1",
    "SELECT a FROM t WHERE a = 2",
    "SELECT a FROM t WHERE a = 1 AND b = 2",
    "SELECT a FROM t WHERE b = 2 AND a = 1",
    "SELECT a FROM t JOIN u ON t.a = u.a",
    "SELECT a FROM u JOIN t ON t.a = u.a",
    "SELECT a FROM t LEFT JOIN u ON t.a = u.a",
    "SELECT a FROM t ORDER BY a",
    # flags spelled out vs left to the default: equal trees (== ignores None / False), so the delta must be empty
    "SELECT a FROM t ORDER BY a ASC",
    "SELECT a FROM t ORDER BY a DESC",
    "SELECT a FROM t ORDER BY a NULLS FIRST",
    "SELECT DISTINCT a FROM t",
    "SELECT ALL a FROM t",
    "SELECT a FROM t INNER JOIN u ON t.a = u.a",
    # trees that differ only inside an arg that holds a list of plain strings
    "CREATE TABLE foo (bar INT REFERENCES baz (baz_id) ON DELETE CASCADE)",
    "CREATE TABLE foo (bar INT REFERENCES baz (baz_id) ON DELETE NO ACTION)",
    "CREATE TABLE foo (bar INT REFERENCES baz (baz_id))",
    "BEGIN TRANSACTION READ WRITE",
    "BEGIN TRANSACTION READ ONLY",
    "ALTER TABLE baa ADD CONSTRAINT boo PRIMARY KEY (x, y) NOT ENFORCED",
    "ALTER TABLE baa ADD CONSTRAINT boo PRIMARY KEY (x, y) DEFERRABLE",
    "SELECT a FROM t GROUP BY a",
    "SELECT COUNT(*) FROM t",
    "SELECT CAST(a AS INT) FROM t",
    "SELECT CAST(a AS TEXT) FROM t",
    "SELECT a FROM (SELECT a FROM t) AS s",
    "a + b",
    "CREATE TABLE t (a INT)",
    "CREATE TABLE t (b INT)",
]

WRAPPABLE = (exp.Column, exp.Literal, exp.Binary, exp.Unary, exp.Func, exp.Paren, exp.Boolean, exp.Null)


# ---------------------------------------------------------------------------------------------------
# trees and edits
def parse_base(sql):
    """list of trees of a (possibly multi-statement) text parsed in the base dialect; [] if it does not parse"""
    try:
        return [t for t in sqlglot.parse(sql) if t is not None]
    except sqlglot.errors.SqlglotError:
        return []


def nnodes(tree):
    return len(treecheck.nodes(tree))


def base_trees():
    """[(label, sql, statement index)] of the base trees"""
    out = []
    for sql in list(corpus.STATEMENTS) + REPETITIVE:
        for k, t in enumerate(parse_base(sql)):
            if nnodes(t) <= MAX_NODES:
                out.append((sql, k))
    return out


def get_tree(sql, k):
    return parse_base(sql)[k]


def _from(sel):
    return sel.args.get("from_") or sel.args.get("from")


def edits_of(tree):
    """deterministic list of edit descriptors applicable to tree (positions = index in list(tree.walk()))"""
    out = []
    for i, n in enumerate(tree.walk()):
        if isinstance(n, exp.Identifier):
            out.append(("rename", i))
            out.append(("rename-far", i))
            continue
        if isinstance(n, exp.Literal):
            out.append(("literal", i))
        else:
            for k, v in n.args.items():
                if isinstance(v, str) and v.swapcase() != v:
                    out.append(("recase", i, k))
        if isinstance(n, exp.Select):
            m = len(n.expressions)
            for p in range(m + 1):
                out.append(("proj-insert", i, p))
            if m > 1:
                for p in range(m):
                    out.append(("proj-delete", i, p))
            for p in range(m - 1):
                out.append(("proj-swap", i, p))
            joins = n.args.get("joins") or []
            if _from(n) is not None:
                for p in range(len(joins) + 1):
                    out.append(("join-insert", i, p))
            for p in range(len(joins)):
                out.append(("join-delete", i, p))
                out.append(("join-pop", i, p))  # through the public pop(): removing the last one leaves joins=[] behind
            for p in range(len(joins) - 1):
                out.append(("join-swap", i, p))
        if isinstance(n, (exp.Where, exp.Having)) and isinstance(n.this, exp.Expr):
            out.append(("conj-insert", i, "this"))
        if isinstance(n, exp.Join) and isinstance(n.args.get("on"), exp.Expr):
            out.append(("conj-insert", i, "on"))
        if isinstance(n, exp.And):
            out.append(("conj-delete", i, "this"))
            out.append(("conj-delete", i, "expression"))
            out.append(("conj-swap", i))
        if isinstance(n, WRAPPABLE) and not isinstance(n, exp.Star) and n.parent is not None:
            out.append(("wrap", i))
        if (isinstance(n, (exp.Paren, exp.Func, exp.Unary)) and n.parent is not None and isinstance(n.args.get("this"), WRAPPABLE)
                and not isinstance(n.this, exp.Star)):
            out.append(("unwrap", i))
    return out


def _new_join():
    return parse_one("SELECT 1 FROM x JOIN zz ON zz.id = 1").args["joins"][0].pop()


def apply_edit(tree, e):
    """apply descriptor e to tree IN PLACE (tree is a private copy); returns the (possibly new) root"""
    kind, i = e[0], e[1]
    nodes = list(tree.walk())
    n = nodes[i]
    if kind == "rename":
        n.set("this", n.this + "_x")
    elif kind == "rename-far":
        n.set("this", "zz9")
    elif kind == "literal":
        n.set("this", n.this + ("1" if not n.is_string else "x"))
    elif kind == "recase":
        n.set(e[2], n.args[e[2]].swapcase())
    elif kind == "proj-insert":
        ex = list(n.expressions)
        ex.insert(e[2], exp.column("new_col"))
        n.set("expressions", ex)
    elif kind == "proj-delete":
        ex = list(n.expressions)
        del ex[e[2]]
        n.set("expressions", ex)
    elif kind == "proj-swap":
        ex = list(n.expressions)
        ex[e[2]], ex[e[2] + 1] = ex[e[2] + 1], ex[e[2]]
        n.set("expressions", ex)
    elif kind == "join-insert":
        js = list(n.args.get("joins") or [])
        js.insert(e[2], _new_join())
        n.set("joins", js)
    elif kind == "join-delete":
        js = list(n.args.get("joins") or [])
        del js[e[2]]
        n.set("joins", js or None)
    elif kind == "join-pop":
        n.args["joins"][e[2]].pop()
    elif kind == "join-swap":
        js = list(n.args.get("joins") or [])
        js[e[2]], js[e[2] + 1] = js[e[2] + 1], js[e[2]]
        n.set("joins", js)
    elif kind == "conj-insert":
        old = n.args[e[2]]
        n.set(e[2], exp.And(this=old, expression=parse_one("new_c = 1")))
    elif kind == "conj-delete":
        keep = n.args["expression" if e[2] == "this" else "this"]
        if n.parent is None:
            keep.pop()
            return keep
        n.replace(keep)
    elif kind == "conj-swap":
        a, b = n.args["this"], n.args["expression"]
        n.set("this", None)
        n.set("expression", None)
        n.set("this", b)
        n.set("expression", a)
    elif kind == "wrap":
        holder = exp.Anonymous(this="G", expressions=[])
        n.replace(holder)
        holder.set("expressions", [n])
    elif kind == "unwrap":
        n.replace(n.this)
    else:
        raise HarnessError(f"unknown edit {e!r}")
    return tree


def _valid(tree):
    """the parser produces this very tree for its own SQL, and the tree is well formed"""
    try:
        sql = tree.sql()
        back = parse_one(sql)
    except Exception:
        return False
    if treecheck.canon(back) != treecheck.canon(tree):
        return False
    if treecheck.wf(tree, root_detached=True):
        raise HarnessError(f"edit produced an ill-formed tree: {treecheck.wf(tree)[:2]} for {sql}")
    return True


def raw(node):
    """case-SENSITIVE structural dump (class, scalar args as they are, children); None / False / [] args are absent"""
    items = []
    for k in sorted(node.args):
        v = node.args[k]
        if v is None or v is False or (isinstance(v, list) and not v):
            continue
        if isinstance(v, exp.Expr):
            items.append((k, raw(v)))
        elif isinstance(v, list):
            items.append((k, tuple(raw(x) if isinstance(x, exp.Expr) else repr(x) for x in v)))
        else:
            items.append((k, repr(v)))
    return (type(node).__name__, tuple(items))


def _valid_spelling(tree):
    """the parser yields exactly this tree, letter case of every string included, for the tree's own SQL (a recased
    string arg must be a spelling that parsing can produce: e.g. a function name or a unit, not the LEFT of a join)"""
    try:
        back = parse_one(tree.sql(normalize_functions=False))
    except Exception:
        return False
    return raw(back) == raw(tree)


def build(sql, k, edits):
    """(source tree, target tree = edits applied to a copy, identity correspondence [(source node, target node)] over
    nodes that survive in the target with the same type, non-identifier) or None if some edit is inapplicable/invalid"""
    src = get_tree(sql, k)
    tgt = src.copy()
    corr = list(zip(src.walk(), tgt.walk()))
    for e in edits:
        if e[0] == "copy":
            continue
        if tuple(e) not in set(edits_of(tgt)):
            return None
        tgt = apply_edit(tgt, e)
        if not _valid(tgt) or (e[0] == "recase" and not _valid_spelling(tgt)):
            return None
    alive = {id(n) for n in tgt.walk()}
    pairs = [(a, b) for a, b in corr if id(b) in alive and type(a) is type(b) and not isinstance(a, exp.Identifier)]
    return src, tgt, pairs


# ---------------------------------------------------------------------------------------------------
# the contract
def _path(node):
    p = []
    while node.parent is not None:
        p.append((node.arg_key, node.index))
        node = node.parent
    return tuple(reversed(p))


def _canon_edit(e):
    if isinstance(e, (D.Insert, D.Remove)):
        return (type(e).__name__, _path(e.expression), None)
    return (type(e).__name__, _path(e.source), _path(e.target))


def _first_difference_class(a, b):
    """class of the first node (pre-order, lock-step) at which trees a and b differ"""
    stack = [(a, b)]
    while stack:
        x, y = stack.pop()
        if type(x) is not type(y):
            return type(x).__name__
        cx, cy = treecheck.children(x), treecheck.children(y)
        sx = {k: v for k, v in x.args.items() if not isinstance(v, exp.Expr) and not (isinstance(v, list) and any(isinstance(z, exp.Expr) for z in v)) and v not in (None, False, [])}
        sy = {k: v for k, v in y.args.items() if not isinstance(v, exp.Expr) and not (isinstance(v, list) and any(isinstance(z, exp.Expr) for z in v)) and v not in (None, False, [])}
        if sx != sy or [(k, i) for k, i, _ in cx] != [(k, i) for k, i, _ in cy]:
            return type(x).__name__
        for (_, _, p), (_, _, q) in reversed(list(zip(cx, cy))):
            stack.append((p, q))
    return type(a).__name__


def _accounted(root):
    return {id(n): n for n, *_ in treecheck.nodes(root) if not isinstance(n, exp.Identifier)}


def _side(entries, inp, shared, side, V):
    """entries: nodes on one side of the script (with multiplicity); inp: the input tree of that side"""
    if not entries:
        acc = _accounted(inp)
        for n in acc.values():
            V(f"{side}-unaccounted", type(n).__name__, f"{type(n).__name__} node of the {side} appears in no edit")
            break
        return
    roots = {}
    for n in entries:
        r = n.root()
        roots[id(r)] = r
    root = None
    if id(inp) in roots:
        root = inp
    elif shared and len(roots) == 1:
        r = next(iter(roots.values()))
        if r == inp:
            root = r
    if root is None:
        V(f"{side}-unaccounted", type(entries[0]).__name__, f"the script's {side} side does not live under the {side} tree (or a copy of it)")
        return
    acc = _accounted(root)
    cnt = collections.Counter(id(n) for n in entries)
    for n in entries:
        if id(n) not in acc:
            V(f"{side}-unaccounted", type(n).__name__, f"an edit refers to a {type(n).__name__} that is not an accounted node of the {side}")
            break
    for i, n in acc.items():
        if cnt.get(i, 0) == 0:
            V(f"{side}-unaccounted", type(n).__name__, f"{type(n).__name__} node of the {side} ({n.sql()[:40]!r}) appears in no edit")
            break
    for i, n in acc.items():
        if cnt.get(i, 0) > 1:
            V(f"{side}-twice", type(n).__name__, f"{type(n).__name__} node of the {side} ({n.sql()[:40]!r}) appears in {cnt[i]} edits")
            break


def check_pair(src, tgt, matchings, shared=False):
    """-> (violations [(clause, node class, what)], info dict).  matchings: list of pairs or None"""
    viol = []

    def V(clause, cls, what):
        viol.append((clause, cls, what))

    info = {"calls": 0, "nontrivial": False, "moves": 0, "moves_without_pair": 0}
    fs, ft = treecheck.fingerprint(src, sql=False), treecheck.fingerprint(tgt, sql=False)
    results = {}
    for delta_only in (False, True):
        info["calls"] += 1
        try:
            results[delta_only] = _diff(src, tgt, matchings=list(matchings) if matchings is not None else None, delta_only=delta_only)
        except Exception as e:  # an exception raised by sqlglot is data
            V(f"exception:{type(e).__name__}", type(src).__name__, f"diff(delta_only={delta_only}) raised {type(e).__name__}: {str(e)[:80]}")
    for name, tree, before in (("source", src, fs), ("target", tgt, ft)):
        after = treecheck.fingerprint(tree, sql=False)
        if after != before:
            d = treecheck.fp_diff(before + (None,), after + (None,))
            V("input-mutated", (d[2] if d and d[2] else type(tree).__name__), f"{name} changed: {d[1] if d else '?'}")
    if False in results:
        full = results[False]
        s_entries, t_entries, pairs = [], [], set()
        for e in full:
            if isinstance(e, D.Remove):
                s_entries.append(e.expression)
            elif isinstance(e, D.Insert):
                t_entries.append(e.expression)
            elif isinstance(e, (D.Keep, D.Update)):
                s_entries.append(e.source)
                t_entries.append(e.target)
                pairs.add((id(e.source), id(e.target)))
                if type(e.source) is not type(e.target):
                    V("type-mismatch", type(e.source).__name__, f"{type(e).__name__} pairs {type(e.source).__name__} with {type(e.target).__name__}")
            elif not isinstance(e, D.Move):
                raise HarnessError(f"unknown edit class {type(e).__name__}")
        for e in full:
            if isinstance(e, D.Move):
                info["moves"] += 1
                if (id(e.source), id(e.target)) not in pairs:
                    info["moves_without_pair"] += 1
        _side(s_entries, src, shared, "source", V)
        _side(t_entries, tgt, shared, "target", V)
        delta = [e for e in full if not isinstance(e, D.Keep)]
        equal = src == tgt
        if not delta and not equal:
            V("delta-empty-but-unequal", _first_difference_class(src, tgt), "the delta is empty but source != target")
        if delta and equal:
            e0 = delta[0]
            n0 = e0.expression if isinstance(e0, (D.Insert, D.Remove)) else e0.source
            V("delta-nonempty-but-equal", _first_difference_class(src, tgt), f"source == target but the delta has {len(delta)} edit(s), first {type(e0).__name__}({type(n0).__name__})")
        info["nontrivial"] = bool(delta) and len(delta) < len(full)
        if True in results:
            a = collections.Counter(_canon_edit(e) for e in delta)
            b = collections.Counter(_canon_edit(e) for e in results[True])
            if a != b:
                x = next(iter((a - b) + (b - a)))
                V("delta_only-mismatch", x[0], f"delta_only=True gives {sum(b.values())} edit(s), the full script has {sum(a.values())} non-Keep edit(s)")
    return viol, info


# ---------------------------------------------------------------------------------------------------
# work items
MODES = ("none", "all", "some", "one")


def _matchings(pairs, mode, reverse):
    if mode == "none":
        return None
    ps = [(b, a) for a, b in pairs] if reverse else list(pairs)
    if mode == "some":
        ps = ps[::2]
    elif mode == "one":
        ps = ps[:1]
    return ps


def _kind_of(edits):
    return "+".join(e[0] for e in edits) if edits else "copy"


def run_edit_pair(sql, k, edits, direction, mode):
    """-> None (inapplicable) | (violations, info)"""
    b = build(sql, k, edits)
    if b is None:
        return None
    src, tgt, pairs = b
    if direction == "rev":
        src, tgt = tgt, src
    return check_pair(src, tgt, _matchings(pairs, mode, direction == "rev"))


def run_shared(sql, k, scen, mode):
    t = get_tree(sql, k)
    if scen == "shared-same-object":
        src = tgt = t
        pairs = [(n, n) for n in t.walk() if not isinstance(n, exp.Identifier)]
    elif scen == "shared-subtree":
        src = t
        tgt = t.copy()
        cand = [(a, b) for a, b in zip(src.walk(), tgt.walk()) if a.parent is not None and not isinstance(a, exp.Identifier)]
        if not cand:
            return None
        a, b = cand[len(cand) // 2]
        b.replace(a)  # the target now holds a node object of the source (whose parent link now points into the target)
        pairs = [(src, tgt)]
    elif scen == "shared-twice-in-source":
        cols = [n for n in t.walk() if isinstance(n, exp.Column)]
        if not cols:
            return None
        c = cols[0].copy()
        src = exp.And(this=c, expression=c)
        tgt = exp.And(this=c.copy(), expression=c.copy())
        pairs = [(src, tgt)]
    else:
        raise HarnessError(scen)
    return check_pair(src, tgt, _matchings(pairs, mode, False), shared=True)


def run_independent(i, j, mode):
    a = parse_one(INDEPENDENT[i])
    b = parse_one(INDEPENDENT[j])
    if mode == "one":
        if type(a) is not type(b):
            return None
        m = [(a, b)]
    else:
        m = None
    return check_pair(a, b, m)


def _attribute(item, clause):
    """the edit-kind label of a violation: a two/three-edit pair whose clause is already violated by the first edit
    alone (same direction and mode) is the first edit's defect"""
    _, sql, k, edits, direction, mode = item
    if len(edits) >= 2:
        # net effect first: a sequence whose edits partly cancel (join-insert ... join-pop of the same join) and whose
        # target is the one a single edit of the source (or no edit at all) produces is that single edit's defect
        b = build(sql, k, edits)
        if b is not None:
            want, single = repr(b[1]), None
            if want == repr(b[0]):
                single = (("copy", 0),)
            else:
                for e in edits_of(b[0]):
                    try:
                        c = apply_edit(b[0].copy(), e)
                    except Exception:
                        continue
                    if repr(c) == want:
                        single = (e,)
                        break
            if single is not None:
                r = run_edit_pair(sql, k, single, direction, mode)
                if r is not None and any(c == clause for c, _, _ in r[0]):
                    return _kind_of(single)
        r = run_edit_pair(sql, k, edits[:1], direction, mode)
        if r is not None and any(c == clause for c, _, _ in r[0]):
            return edits[0][0]
        r = run_edit_pair(sql, k, edits[-1:], direction, mode)
        if r is not None and any(c == clause for c, _, _ in r[0]):
            return edits[-1][0]
    return _kind_of(edits)


def work(item):
    """item: ("edit", sql, k, edits, direction, mode) | ("shared", sql, k, scenario, mode) | ("indep", i, j, mode)
            | ("seqs", sql, k, [edits, ...]): a chunk of the edit sequences of one base tree"""
    out = {"evals": 0, "calls": 0, "nontrivial": 0, "inapplicable": 0, "moves": 0, "moves_without_pair": 0, "viol": []}
    if item[0] == "seqs":
        _, sql, k, seqs = item
        for edits in seqs:
            b = build(sql, k, edits)
            if b is None:
                raise HarnessError(f"sequence {edits!r} enumerated for {sql!r} cannot be rebuilt")
            for direction in ("fwd", "rev"):
                for mode in MODES:
                    item = ("edit", sql, k, edits, direction, mode)
                    s, t, pairs = b
                    if direction == "rev":
                        s, t = t, s
                    r = check_pair(s, t, _matchings(pairs, mode, direction == "rev"))
                    _record(item, r, out)
                    if any(c == "input-mutated" for c, _, _ in r[0]):
                        b = build(sql, k, edits)  # never reuse trees that a diff call altered
        return out
    _one(item, out)
    return out


def _one(item, out):
    if item[0] == "edit":
        r = run_edit_pair(*item[1:])
    elif item[0] == "shared":
        r = run_shared(*item[1:])
    else:
        r = run_independent(*item[1:])
    _record(item, r, out)


def _record(item, r, out):
    if r is None:
        out["inapplicable"] += 1
        return
    viol, info = r
    out["evals"] += 1
    out["calls"] += info["calls"]
    out["nontrivial"] += 1 if info["nontrivial"] else 0
    out["moves"] += info["moves"]
    out["moves_without_pair"] += info["moves_without_pair"]
    for clause, cls, what in viol:
        if item[0] == "edit":
            label = _attribute(item, clause)
        elif item[0] == "shared":
            label = item[3]
        else:
            label = "independent"
        out["viol"].append({"key": f"c20:{clause}:{label}:{cls}", "what": what, "input": _input_of(item)})


def _input_of(item):
    if item[0] == "edit":
        _, sql, k, edits, direction, mode = item
        b = build(sql, k, edits)
        a_sql, b_sql = b[0].sql(normalize_functions=False), b[1].sql(normalize_functions=False)
        if direction == "rev":
            a_sql, b_sql = b_sql, a_sql
        return {"family": "edit", "sql": sql, "stmt": k, "edits": [list(e) for e in edits], "direction": direction, "matchings": mode,
                "source_sql": a_sql, "target_sql": b_sql}
    if item[0] == "shared":
        return {"family": "shared", "sql": item[1], "stmt": item[2], "scenario": item[3], "matchings": item[4]}
    return {"family": "indep", "source_sql": INDEPENDENT[item[1]], "target_sql": INDEPENDENT[item[2]], "i": item[1], "j": item[2], "matchings": item[3]}


def sequences(sql, k, depth):
    """all edit sequences of length 1..depth on base tree (sql, k) whose every prefix yields a valid tree; sequences
    leading to a tree already produced by an earlier sequence are dropped (same target, same source)"""
    t = get_tree(sql, k)
    seen = {repr(t)}
    out = []
    frontier = [((), t)]
    for _ in range(depth):
        nxt = []
        for edits, tree in frontier:
            for e in edits_of(tree):
                c = tree.copy()
                c = apply_edit(c, e)
                if not _valid(c) or (e[0] == "recase" and not _valid_spelling(c)):
                    continue
                r = repr(c)
                if r in seen and e[0] != "join-pop":  # pop() back to an earlier tree leaves an empty list behind: equal, yet not the same object state
                    continue
                seen.add(r)
                out.append(edits + (e,))
                nxt.append((edits + (e,), c))
        frontier = nxt
    return out


CHUNK = 60


def _enumerate(job):
    sql, k, depth = job
    return sequences(sql, k, depth)


def plan_items(tier):
    bt = base_trees()
    jobs = []
    for sql, k in bt:
        n = nnodes(get_tree(sql, k))
        jobs.append((sql, k, 3 if n <= TRIPLE_NODES[tier] else 2 if n <= DOUBLE_NODES[tier] else 1))
    seqlists = harness.pool_map(_enumerate, jobs, chunksize=1)  # phase 1: enumerate (and validate) the edit sequences
    items = []
    for (sql, k, depth), seqs in zip(jobs, seqlists):
        for c in range(0, len(seqs), CHUNK):
            items.append(("seqs", sql, k, tuple(seqs[c:c + CHUNK])))
        for mode in MODES:  # equal trees under every kind of caller-supplied matching
            items.append(("edit", sql, k, (("copy", 0),), "fwd", mode))
        for scen in ("shared-same-object", "shared-subtree", "shared-twice-in-source"):
            for mode in ("none", "all", "one"):
                items.append(("shared", sql, k, scen, mode))
    for i in range(len(INDEPENDENT)):
        for j in range(len(INDEPENDENT)):
            for mode in ("none", "one"):
                items.append(("indep", i, j, mode))
    return items


def run(tier, seed):
    items = plan_items(tier)
    order = list(range(len(items)))
    if seed:
        import random

        random.Random(seed).shuffle(order)
    else:
        order.sort(key=lambda i: (0, -len(items[i][1]), i) if items[i][0] == "seqs" else (1, 0, i))  # big trees first
    res = harness.pool_map(work, [items[i] for i in order], chunksize=1)
    tot = collections.Counter()
    by, counts = {}, {}
    for r in res:
        for k2 in ("evals", "calls", "nontrivial", "inapplicable", "moves", "moves_without_pair"):
            tot[k2] += r[k2]
        for v in r["viol"]:
            counts[v["key"]] = counts.get(v["key"], 0) + 1
            lst = by.setdefault(v["key"], [])
            lst.append(v)
            lst.sort(key=lambda x: (len(x["input"].get("edits", [])), x["input"].get("matchings") != "none", x["input"].get("direction", "fwd") != "fwd",
                                    len(x["input"].get("source_sql", x["input"].get("sql", ""))), json.dumps(x["input"])))
            del lst[3:]
    violations = [dict(v, count=counts[k]) for k in sorted(by) for v in by[k]]
    bt = base_trees()
    # outside the property (a matchings pair of Identifier nodes is not a pair of indexed nodes): observed only
    a = parse_one("SELECT a FROM t")
    b = a.copy()
    idp = [(x, y) for x, y in zip(a.walk(), b.walk()) if isinstance(x, exp.Identifier)][:1]
    try:
        _diff(a, b, matchings=idp)
        ident_obs = "returned"
    except Exception as e:
        ident_obs = f"raised {type(e).__name__}"
    return {
        "evaluations": tot["evals"],
        "distinct_nontrivial": tot["nontrivial"],
        "rule": "(source, target, matchings) triples whose full script has both Keep and non-Keep entries (a partial match); distinct by "
                "construction (targets deduplicated per base tree)",
        "bound": f"tier={tier}: {len(bt)} base trees (<= {MAX_NODES} nodes: corpus.STATEMENTS in the base dialect + {len(REPETITIVE)} repetitive trees); "
                 f"edit sequences of length 1 on all, length 2 on trees <= {DOUBLE_NODES[tier]} nodes, length 3 on trees <= {TRIPLE_NODES[tier]} nodes, "
                 f"every applicable position, x both directions x matchings {MODES}; copy pairs; 3 shared-object scenarios x 3 matchings modes; "
                 f"{len(INDEPENDENT)}^2 independent ordered pairs x matchings none/root",
        "exhaustive": True,
        "inapplicable_or_invalid": tot["inapplicable"],
        "observations": {"move_entries": tot["moves"], "move_entries_without_keep_or_update_pair": tot["moves_without_pair"],
                         "diff_with_an_identifier_pair_in_matchings": ident_obs},
        "edit_sequences": sum(len(it[3]) for it in items if it[0] == "seqs"),
        "samples": [[str(x)[:200] for x in items[i]] for i in (0, len(items) // 2, len(items) - 1)],
        "violations": violations,
        "violation_counts": dict(sorted(counts.items())),
        "contract_evaluations": {"sqlglot.diff.diff": tot["calls"]},
    }


def _tup(x):
    return tuple(_tup(y) if isinstance(y, list) else y for y in x)


def replay(entry):
    inp = entry["input"]
    if inp["family"] == "edit":
        item = ("edit", inp["sql"], inp["stmt"], _tup(inp["edits"]), inp["direction"], inp["matchings"])
    elif inp["family"] == "shared":
        item = ("shared", inp["sql"], inp["stmt"], inp["scenario"], inp["matchings"])
    else:
        item = ("indep", inp["i"], inp["j"], inp["matchings"])
    out = {"evals": 0, "calls": 0, "nontrivial": 0, "inapplicable": 0, "moves": 0, "moves_without_pair": 0, "viol": []}
    _one(item, out)
    keys = [v["key"] for v in out["viol"]]
    hit = [v for v in out["viol"] if v["key"] == entry["key"]]
    return {"violated": bool(hit), "observed": hit[0]["what"] if hit else f"keys now: {keys}", "keys": keys}


if __name__ == "__main__":
    harness.main(run, replay)
