"""C08 (bounded): tree bookkeeping (parent / arg_key / index), no sharing, cached hashes, structural equality.

Property: after any sequence of public tree operations (set, append, replace, pop, transform, copy, builder
methods, replace_children, parsing, every optimizer rule) every child node records exactly the parent, argument
name and list position under which it is actually stored, no node is stored in two places, and the cached hash of
every node equals the hash recomputed from scratch.  Two trees compare equal exactly when they have the same
structure and leaf values (definition of "same": bounded/treecheck.py docstring, read off Expression.__hash__).

Contract evaluated after the LAST operation of every enumerated sequence (every prefix is itself enumerated):
    wf(root) == [] and hash_ok(root) == []             for every tree involved
    wf(detached, root_detached=True) == []             for sub-trees returned by pop / replace
    (a == b) == (canon(a) == canon(b))                 for a = state, b in {a.copy(), initial tree, an earlier
                                                       state with the same canon}; and globally canon <-> hash is a
                                                       bijection over all states reached from one start tree
Part A  operation sequences: 8 tiny trees x an operation alphabet instantiated at EVERY node position.
Part B  corpus statements x dialects: parse, hash, sql(d), every optimizer rule in optimizer order (with and
        without a schema, with and without populating the hash cache before each rule).
"""
import hashlib
import inspect
import os
import sys

if __package__ in (None, ""):
    sys.path.insert(0, os.path.dirname(os.path.dirname(os.path.abspath(__file__))))
from bounded import harness  # noqa: E402  (sets sys.path for /repo)
from bounded import corpus  # noqa: E402
from bounded.treecheck import wf, hash_ok, hash_check, fingerprint, fp_diff, canon, nodes, children  # noqa: E402

import sqlglot  # noqa: E402
from sqlglot import exp, parse_one  # noqa: E402
from sqlglot.errors import SqlglotError  # noqa: E402
from sqlglot.expressions.core import Expr  # noqa: E402
from sqlglot.optimizer import optimizer as _opt  # noqa: E402
from sqlglot.schema import ensure_schema  # noqa: E402

import logging  # noqa: E402

logging.getLogger("sqlglot").setLevel(logging.CRITICAL)


class HarnessError(Exception):
    pass


TREES = [
    "SELECT a, b FROM t WHERE x = 1",
    "a + b",
    "f(a, b, c)",
    "SELECT a FROM t JOIN u ON t.i = u.i",
    "CASE WHEN a THEN b END",
    "a AND (b OR c)",
    "x IN (1, 2, 3)",
    "SELECT 1",
    "g() + f(a)",  # a zero-argument call: its list-valued arg is EMPTY (sharing it is invisible until an append)
]

SCHEMA = {
    name: {c: "INT" for c in ("a", "b", "c", "d", "x", "id", "n")} | {"s": "VARCHAR", "d": "DATE"}
    for name in ("t", "u", "v", "s", "t1", "t2")
}


# ---------------------------------------------------------------------------------------------------
# leaves
def _leaf_like(v, tag="zz"):
    if isinstance(v, exp.Identifier):
        return exp.to_identifier(tag)
    if isinstance(v, exp.Literal):
        return exp.Literal.number(9)
    return exp.column(tag)


def _kids(n):
    return children(n)


# ---------------------------------------------------------------------------------------------------
# the alphabet: ops are JSON-able lists [name, pos, key, index]
def enumerate_ops(root):
    ops = []
    listing = nodes(root)
    seen = set()
    for p, (n, holder, hk, hi) in enumerate(listing):
        if id(n) in seen:
            continue
        seen.add(id(n))
        for k, v in list(n.args.items()):
            if isinstance(v, Expr):
                ops.append(["set", p, k, None])
                ops.append(["set-none", p, k, None])
            elif type(v) is list:
                for i in range(len(v) + 1):
                    ops.append(["set-idx-overwrite", p, k, i])
                    ops.append(["set-idx-insert", p, k, i])
                    ops.append(["set-idx-none", p, k, i])
                    ops.append(["set-idx-list", p, k, i])
                ops.append(["append", p, k, None])
                ops.append(["set-list", p, k, None])
                ops.append(["set-empty-list", p, k, None])
                ops.append(["set-none", p, k, None])
            elif type(v) is bool:
                ops.append(["set-bool", p, k, None])
                ops.append(["set-none", p, k, None])
            elif type(v) is str:
                ops.append(["set-str", p, k, None])
                ops.append(["set-none", p, k, None])
        absent = [k for k in n.arg_types if n.args.get(k) is None]
        if absent:
            ops.append(["set-absent", p, absent[0], None])
            ops.append(["append-absent", p, absent[0], None])
        if holder is not None:
            # (key, index) of replace-type ops are informational: where the node is stored
            ops.append(["replace", p, hk, hi])
            ops.append(["pop", p, hk, hi])
            ops.append(["replace-self", p, hk, hi])
            if len(_kids(holder)) > 1:
                ops.append(["replace-sibling-copy", p, hk, hi])
            ops.append(["replace-list", p, hk, hi])
        ops.append(["hash", p, None, None])
        ops.append(["copy-mutate", p, None, None])
        if _kids(n):
            ops.append(["replace-children-id", p, None, None])
            ops.append(["replace-children-new", p, None, None])
    for name in (
        "transform-id-copy",
        "transform-id-inplace",
        "transform-kind-copy",
        "transform-kind-inplace",
        "transform-wrap-inplace",
        "eq-copy",
        "sql",
        "root-and",
        "root-or",
        "root-not",
        "root-as",
        "root-binop",
        "root-isin",
        "root-paren-ctor",
        "replace-tree-kind",
        "replace-tree-wrap",
    ):
        ops.append([name, 0, None, None])
    if isinstance(root, exp.Select):
        for name in ("sel-select", "sel-where", "sel-from", "sel-join", "sel-order", "sel-group", "sel-limit", "sel-with",
                     "sel-having", "sel-distinct", "sel-lock", "sel-subquery", "sel-union", "sel-ctas", "sel-window", "sel-hint", "sel-offset"):
            ops.append([name, 0, None, None])
    return ops


HASH_OPS = {"hash", "eq-copy"}


def _kind_fn(n):
    return exp.Literal.number(7) if isinstance(n, exp.Column) else n


def _wrap_fn(n):
    return exp.Paren(this=n) if isinstance(n, exp.Column) else n


class OpResult:
    __slots__ = ("root", "extra", "detached", "notes", "exc")

    def __init__(self, root):
        self.root = root
        self.extra = []  # other trees involved (label, tree)
        self.detached = []  # (label, tree) must be wf with parent None
        self.notes = []  # (clause, what, site) op-specific contract failures
        self.exc = None


def apply_op(root, op, check):
    """apply one alphabet operation; returns OpResult (root may be a new object)."""
    name, p, k, i = op
    res = OpResult(root)
    listing = nodes(root)
    if p >= len(listing):
        raise HarnessError(f"c08 harness: position {p} out of range for {op}")
    n, holder, hk, hi = listing[p]
    try:
        if name == "set":
            n.set(k, _leaf_like(n.args[k]))
        elif name == "set-none":
            old = n.args.get(k)
            n.set(k, None)
        elif name == "set-bool":
            n.set(k, not n.args[k])
        elif name == "set-str":
            n.set(k, "Qq")
        elif name == "set-absent":
            n.set(k, exp.column("zz"))
        elif name == "append-absent" or name == "append":
            n.append(k, exp.column("zz"))
        elif name == "set-idx-overwrite":
            n.set(k, exp.column("zz"), index=i, overwrite=True)
        elif name == "set-idx-insert":
            n.set(k, exp.column("zz"), index=i, overwrite=False)
        elif name == "set-idx-none":
            n.set(k, None, index=i)
        elif name == "set-idx-list":
            n.set(k, [exp.column("zz"), exp.column("yy")], index=i)
        elif name == "set-list":
            n.set(k, [exp.column("zz")])
        elif name == "set-empty-list":
            n.set(k, [])
        elif name == "replace":
            r = n.replace(_leaf_like(n))
            res.detached.append(("replaced", n))
        elif name == "pop":
            r = n.pop()
            if r is not n:
                res.notes.append(("parent-link", "pop() did not return the node itself", "pop"))
            res.detached.append(("popped", n))
        elif name == "replace-self":
            n.replace(n)
        elif name == "replace-sibling-copy":
            sib = [c for _, _, c in _kids(holder) if c is not n][0]
            n.replace(sib.copy())
            res.detached.append(("replaced", n))
        elif name == "replace-list":
            n.replace([exp.column("zz"), exp.column("yy")])
            res.detached.append(("replaced", n))
        elif name == "hash":
            hash(n)
        elif name == "copy-mutate":
            before = fingerprint(root, hashes=True) if check else None
            c = n.copy()
            eq = c == n  # always evaluated: it populates caches, the state must not depend on `check`
            if check:
                if not eq:
                    res.notes.append(("equality", "node.copy() != node", type(n).__name__))
                if canon(c) != canon(n):
                    res.notes.append(("equality", "canon(node.copy()) != canon(node)", type(n).__name__))
                res.detached.append(("copy", c))
            kids = _kids(c)
            if kids:
                kk, ii, ch = kids[0]
                ch.replace(_leaf_like(ch, "mm"))
            else:
                c.set("this", "mutated")
            if check:
                res.extra.append(("mutated-copy", c))
                # NB `c == n` above populated caches of n: re-take the snapshot ignoring hashes
                d = fp_diff(fingerprint(root, hashes=False), before[:1] + before[2:])
                if d:
                    res.notes.append(("shared-node", f"mutating a copy changed the original: {d[1]}", type(n).__name__))
        elif name == "replace-children-id":
            exp.replace_children(n, lambda c: c)
        elif name == "replace-children-new":
            exp.replace_children(n, lambda c: _leaf_like(c))
        elif name in ("transform-id-copy", "transform-kind-copy"):
            fn = (lambda x: x) if name == "transform-id-copy" else _kind_fn
            new = root.transform(fn)
            res.extra.append(("transform-argument", root))
            if check and name == "transform-id-copy":
                if new is root:
                    res.notes.append(("shared-node", "transform(copy=True) returned the argument", "transform"))
                if not (new == root) or canon(new) != canon(root):
                    res.notes.append(("equality", "identity transform result != argument", type(root).__name__))
            res.root = new
        elif name in ("transform-id-inplace", "transform-kind-inplace", "transform-wrap-inplace"):
            fn = {"transform-id-inplace": (lambda x: x), "transform-kind-inplace": _kind_fn, "transform-wrap-inplace": _wrap_fn}[name]
            res.root = root.transform(fn, copy=False)
        elif name == "eq-copy":
            c = root.copy()
            eq = root == c
            if check:
                if not eq:
                    res.notes.append(("equality", "root != root.copy()", type(root).__name__))
                if canon(c) != canon(root):
                    res.notes.append(("equality", "canon(root.copy()) != canon(root)", type(root).__name__))
                res.extra.append(("copy", c))
        elif name == "sql":
            root.sql()
        elif name == "root-and":
            res.root = root.and_("zz = 1", copy=False)
        elif name == "root-or":
            res.root = root.or_("zz = 1", copy=False)
        elif name == "root-not":
            res.root = root.not_(copy=False)
        elif name == "root-as":
            res.root = root.as_("al", copy=False)
        elif name == "sel-select":
            res.root = root.select("zz", copy=False)
        elif name == "sel-where":
            res.root = root.where("zz = 1", copy=False)
        elif name == "sel-from":
            res.root = root.from_("t9", copy=False)
        elif name == "sel-join":
            res.root = root.join("j", on="j.a = t.a", copy=False)
        elif name == "sel-order":
            res.root = root.order_by("zz DESC", copy=False)
        elif name == "sel-group":
            res.root = root.group_by("zz", copy=False)
        elif name == "sel-limit":
            res.root = root.limit(3, copy=False)
        elif name == "sel-with":
            res.root = root.with_("cte", as_="SELECT 1 AS q", copy=False)
        elif name == "sel-having":
            res.root = root.having("zz > 1", copy=False)
        elif name == "sel-distinct":
            res.root = root.distinct("zz", copy=False)
        elif name == "sel-lock":
            res.root = root.lock(copy=False)
        elif name == "sel-subquery":
            res.root = root.subquery("sq", copy=False)
        elif name == "sel-union":
            res.root = root.union("SELECT 2", copy=False)
        elif name == "sel-ctas":
            res.root = root.ctas("newt", copy=False)
        elif name == "sel-window":
            res.root = root.window("w AS (PARTITION BY zz)", copy=False)
        elif name == "sel-hint":
            res.root = root.hint("BROADCAST(y)", copy=False)
        elif name == "sel-offset":
            res.root = root.offset(2, copy=False)
        elif name == "root-binop":
            new = root + 1  # operators copy their operands
            res.extra.append(("binop-argument", root))
            res.root = new
        elif name == "root-isin":
            new = root.isin(1, 2)
            res.extra.append(("isin-argument", root))
            res.root = new
        elif name == "root-paren-ctor":
            res.root = exp.Paren(this=root)
        elif name == "replace-tree-kind":
            res.root = exp.replace_tree(root, _kind_fn)
        elif name == "replace-tree-wrap":
            res.root = exp.replace_tree(root, _wrap_fn)
        else:
            raise HarnessError(f"c08 harness: unknown op {name}")
    except HarnessError:
        raise
    except Exception as e:  # an exception raised by sqlglot is data
        res.exc = e
    return res


def _site(op, problem_site):
    name, p, k, i = op
    if name.startswith(("sel-", "root-", "transform-", "replace-children")) or name in ("eq-copy", "sql", "copy-mutate", "hash"):
        return name
    if name.startswith("set-idx") or name in ("append", "append-absent", "set-list", "set-empty-list"):
        return "list-arg"
    return "list-arg" if i is not None else "node-arg"


def check_state(res, op, inp):
    """contract evaluation after an op -> (list of violation dicts, from-scratch hash of the new root or None)."""
    out = []
    fresh = None

    def add(clause, what, site):
        out.append({"key": f"c08:{clause}:{op[0]}:{site}", "what": what, "input": inp})

    trees = [("root", res.root, False)] + [(l, t, False) for l, t in res.extra] + [(l, t, True) for l, t in res.detached]
    for label, t, det in trees:
        if not isinstance(t, Expr):
            continue
        for clause, what, site in wf(t, root_detached=det):
            add(clause, f"[{label}] {what}", _site(op, site) if label in ("root",) else f"{_site(op, site)}/{label}")
        problems, fh = hash_check(t, want_fresh=(label == "root"))
        if label == "root":
            fresh = fh
        for clause, what, site in problems:
            if clause == "unhashable":
                continue
            add(clause, f"[{label}] {what}", _site(op, site) if label in ("root",) else f"{_site(op, site)}/{label}")
    for clause, what, site in res.notes:
        add(clause, what, site)
    return out, fresh


# ---------------------------------------------------------------------------------------------------
def _parse_tree(ti):
    return parse_one(TREES[ti])


def _canon_id(c):
    return hashlib.md5(repr(c).encode()).hexdigest()


SCALAR_OPS = {"set-str", "set-bool", "set-none"}


def _sig(root):
    """cheap structural signature: which node objects are stored where (scalar edits are recognised by op name)"""
    return tuple((id(n), id(h), k, i) for n, h, k, i in nodes(root))


def _fresh_hash(t):
    c = t.copy()
    for n, *_ in nodes(c):
        n._hash = None
    try:
        return hash(c)
    except TypeError:
        return None


def explore_item(item):
    """item = (tree_index, prefix ops, extra depth).  Evaluates the prefix (contract after its last op) and every
    extension by up to `depth` further ops.  Returns stats."""
    ti, prefix, depth = item
    st = {
        "evals": 0,
        "seqs": 0,
        "viol": [],
        "exc": {},
        "canon": {},  # canon id -> (class name, fresh hash)
        "calls": {},
        "nontrivial": 0,
    }
    reps = {}
    t0 = _parse_tree(ti)
    c0 = canon(t0)

    def evaluate(seq):
        root = _parse_tree(ti)
        for op in seq[:-1]:
            r = apply_op(root, op, check=False)
            if r.exc is not None:
                return None  # not extended (the prefix with the exception was itself evaluated)
            root = r.root
        inp = {"tree": TREES[ti], "ops": seq}
        op = seq[-1]
        before_sig = _sig(root)
        res = apply_op(root, op, check=True)
        st["seqs"] += 1
        st["calls"][op[0]] = st["calls"].get(op[0], 0) + 1
        if res.exc is not None:
            key = f"{op[0]}:{type(res.exc).__name__}"
            st["exc"][key] = st["exc"].get(key, 0) + 1
        v, res_fresh = check_state(res, op, inp)
        st["evals"] += 1
        if op[0] in HASH_OPS or op[0] in SCALAR_OPS or _sig(res.root) != before_sig:
            st["nontrivial"] += 1
        # equality clause on the live tree (done last: it populates caches, the tree is discarded afterwards)
        if isinstance(res.root, Expr) and not any(x["key"].split(":")[1] == "stale-hash" for x in v):
            c = canon(res.root)
            cid = _canon_id(c)
            fh = res_fresh
            if fh is not None:
                prev = st["canon"].get(cid)
                if prev is not None and prev != (type(res.root).__name__, fh):
                    v.append({"key": f"c08:equality:{op[0]}:same-structure-different-hash", "what": "two structurally equal trees hash differently", "input": inp})
                st["canon"].setdefault(cid, (type(res.root).__name__, fh))
                eq0 = res.root == t0
                if eq0 != (c == c0):
                    v.append(
                        {
                            "key": f"c08:equality:{op[0]}:vs-initial",
                            "what": f"(state == initial tree) is {eq0} but structural comparison says {c == c0}",
                            "input": inp,
                        }
                    )
                rep = reps.get(cid)
                if rep is not None and not (res.root == rep):
                    v.append({"key": f"c08:equality:{op[0]}:vs-equal-state", "what": "state != an earlier state with identical structure", "input": inp})
                if rep is None:
                    reps[cid] = res.root.copy()
        st["viol"].extend(v)
        res_broken = any(x["key"].split(":")[1] in ("parent-link", "arg-key", "index", "shared-node", "stale-hash") for x in v)
        return None if res_broken else res  # a violating state is reported, never extended (first culprit only)

    def rec(seq, d):
        res = evaluate(seq)
        if d <= 0 or res is None or res.exc is not None or not isinstance(res.root, Expr):
            return
        # the live-equality step above touched caches of res.root only after the checks; the alphabet depends on
        # structure only
        for op in enumerate_ops(res.root):
            rec(seq + [op], d - 1)

    rec(list(prefix), depth)
    # keep the result small
    seen = {}
    for x in st["viol"]:
        seen.setdefault(x["key"], []).append(x)
    st["viol_counts"] = {k: len(v) for k, v in seen.items()}
    st["viol"] = [min(v, key=lambda e: (len(e["input"]["ops"]), repr(e["input"]["ops"]))) for v in seen.values()]
    return st


# ---------------------------------------------------------------------------------------------------
# Part B: corpus
def _rule_kwargs(rule, possible):
    params = inspect.getfullargspec(rule).args
    return {p: possible[p] for p in params if p in possible}


def corpus_item(item):
    sql, read, use_schema, prehash, targets = item
    st = {"evals": 0, "viol": [], "skips": {}, "calls": {}, "nontrivial": 0, "viol_counts": {}}
    inp0 = {"sql": sql, "read": read, "schema": use_schema, "prehash": prehash}

    def skip(what):
        st["skips"][what] = st["skips"].get(what, 0) + 1

    def check(t, opname, extra=None):
        st["evals"] += 1
        st["calls"][opname] = st["calls"].get(opname, 0) + 1
        inp = dict(inp0, op=opname)
        for clause, what, site in wf(t):
            st["viol"].append({"key": f"c08:{clause}:{opname}:{site}", "what": what, "input": inp})
        for clause, what, site in hash_ok(t):
            if clause == "unhashable":
                skip(f"unhashable:{opname}")
                continue
            st["viol"].append({"key": f"c08:{clause}:{opname}:{site}", "what": what, "input": inp})

    try:
        trees = [t for t in sqlglot.parse(sql, read=read or None) if t is not None]
    except SqlglotError as e:
        skip(f"parse:{type(e).__name__}")
        return st
    for tree in trees:
        check(tree, "parse")
        try:
            hash(tree)
        except TypeError:
            skip("unhashable-tree")
            continue
        check(tree, "hash")
        if not (tree == tree.copy()):
            st["viol"].append({"key": "c08:equality:copy:parsed-tree", "what": "tree != tree.copy()", "input": dict(inp0, op="copy")})
        # equal exactly when structurally equal, between the nodes of one statement: same class + same hash <=> same canon
        by_hash = {}
        for n, *_r in nodes(tree):
            c = canon(n)
            prev = by_hash.setdefault((type(n), hash(n)), (c, n))
            if prev[0] != c and n == prev[1]:
                st["viol"].append({"key": f"c08:equality:corpus:different-structure-equal:{type(n).__name__}",
                                   "what": f"{prev[1].sql()!r} == {n.sql()!r} although their structure / leaf values differ", "input": dict(inp0, op="eq")})
        for d in targets:
            try:
                tree.sql(dialect=d or None)
            except Exception as e:  # an exception raised inside sqlglot is data here (crashes belong to other properties)
                skip(f"sql:{type(e).__name__}")
                continue
            check(tree, f"sql")
        # optimizer rules in optimizer order
        t = tree.copy()
        for n, *_ in nodes(t):
            n._hash = None
        check(t, "copy")
        schema = ensure_schema(SCHEMA if use_schema else None, dialect=read or None)
        possible = {
            "db": None,
            "catalog": None,
            "schema": schema,
            "dialect": read or None,
            "sql": None,
            "isolate_tables": True,
            "quote_identifiers": False,
        }
        for rule in _opt.RULES:
            if prehash:
                try:
                    hash(t)
                except TypeError:
                    skip("unhashable-tree")
                    break
            if "journal" in inspect.getfullargspec(rule).args:
                # the rule's undo journal: run it on a copy, use the rewritten tree as a dict key (that caches its hashes),
                # roll back; the rolled-back tree is again subject to the contract
                try:
                    from sqlglot.optimizer.journal import revert as _revert

                    t2 = t.copy()
                    if prehash:
                        hash(t2)
                    jr = []
                    r2 = rule(t2, journal=jr, **_rule_kwargs(rule, possible))
                    if isinstance(r2, Expr):
                        hash(r2)
                        _revert(jr)
                        check(r2, rule.__name__ + "+revert")
                        check(t2, rule.__name__ + "+revert")
                except (SqlglotError, TypeError) as e:
                    skip(f"{rule.__name__}+revert:{type(e).__name__}")
            before = fingerprint(t, ids=True, sql=False)
            try:
                t = rule(t, **_rule_kwargs(rule, possible))
            except SqlglotError as e:
                skip(f"{rule.__name__}:{type(e).__name__}")
                break
            except Exception as e:  # raised inside sqlglot: data (other properties cover crashes)
                skip(f"{rule.__name__}:{type(e).__name__}")
                break
            if not isinstance(t, Expr):
                skip(f"{rule.__name__}:non-expr-result")
                break
            check(t, rule.__name__)
            if fingerprint(t, ids=True, sql=False) != before:
                st["nontrivial"] += 1
        # helpers of the optimizer that are public on their own, and qualify without its final quoting pass (which rewrites every
        # identifier through set() and so repairs what an earlier step may have left stale): each on its own hashed copy
        from sqlglot.optimizer.normalize_identifiers import normalize_identifiers as _ni
        from sqlglot.optimizer.qualify import qualify as _q
        from sqlglot.optimizer.qualify_tables import qualify_tables as _qt

        extra = [
            ("normalize_identifiers", lambda c: _ni(c, dialect=read or None)),
            ("qualify-unquoted", lambda c: _q(c, schema=schema, dialect=read or None, quote_identifiers=False, validate_qualify_columns=False)),
            ("qualify-unquoted-noexpand", lambda c: _q(c, schema=schema, dialect=read or None, quote_identifiers=False, expand_stars=False, validate_qualify_columns=False)),
            ("qualify_tables-db", lambda c: _qt(c, db="DbX", catalog="CatX", dialect=read or None)),
        ]
        for name, fn in extra:
            c = tree.copy()
            for n, *_ in nodes(c):
                n._hash = None
            try:
                hash(c)
                c = fn(c)
            except Exception as e:
                skip(f"{name}:{type(e).__name__}")
                continue
            if isinstance(c, Expr):
                check(c, name)
    seen = {}
    for x in st["viol"]:
        seen.setdefault(x["key"], x)
    st["viol_counts"] = {}
    for x in st["viol"]:
        st["viol_counts"][x["key"]] = st["viol_counts"].get(x["key"], 0) + 1
    st["viol"] = list(seen.values())
    return st


# ---------------------------------------------------------------------------------------------------
def _plan(tier):
    """work items of part A: (tree index, prefix, extra depth)."""
    items = []
    small = [1, 2, 4, 5, 6, 7]  # the non-Select / one-node-select trees
    for ti in range(len(TREES)):
        ops = enumerate_ops(_parse_tree(ti))
        # all sequences of length <= 2
        for o in ops:
            items.append((ti, [o], 1))
        # length 3 starting from a fully populated cache: hash(root), then every length-2 sequence
        h = ["hash", 0, None, None]
        root = _parse_tree(ti)
        hash(root)
        for o in enumerate_ops(root):
            items.append((ti, [h, o], 1))
        if tier == "thorough":
            # all sequences of length 3 on the small trees (except f(a, b, c): x IN (1, 2, 3) has the same shape);
            # length 4 with hash(root) first on the two smallest trees; length 3 with any hash op first on the
            # Select trees.  A first op that already breaks the contract is reported by the length-1 item and
            # never extended.
            def clean(r):
                return r.exc is None and isinstance(r.root, Expr) and not wf(r.root) and not hash_ok(r.root)

            if ti in small and ti != 2:
                for o in ops:
                    r = apply_op(_parse_tree(ti), o, check=False)
                    if not clean(r):
                        continue
                    for o2 in enumerate_ops(r.root):
                        items.append((ti, [o, o2], 1))
                if ti in (1, 7):
                    for o in enumerate_ops(root):  # root: cache fully populated
                        tr = _parse_tree(ti)
                        hash(tr)
                        r = apply_op(tr, o, check=False)
                        if not clean(r):
                            continue
                        for o2 in enumerate_ops(r.root):
                            items.append((ti, [h, o, o2], 1))
            else:
                for o in ops:
                    if o[0] in HASH_OPS and not (o[0] == "hash" and o[1] == 0):
                        r = apply_op(_parse_tree(ti), o, check=False)
                        if not clean(r):
                            continue
                        for o2 in enumerate_ops(r.root):
                            items.append((ti, [o, o2], 1))
    return items


def _corpus_plan(tier):
    ds = corpus.dialects()
    if tier == "quick":
        reads = ["", "postgres", "bigquery"]
        targets = ["", "duckdb", "tsql", "mysql"]
        exprs = corpus.expr_statements(depth=2, limit=600)
    else:
        reads = ds
        targets = ds
        exprs = corpus.expr_statements(depth=2, limit=4000)
    items = []
    for read in reads:
        for sql in corpus.STATEMENTS + PART_B_EXTRA:
            for use_schema in (False, True):
                for prehash in (False, True):
                    items.append((sql, read, use_schema, prehash, targets if (not use_schema and not prehash) else []))
    for sql in exprs:
        for prehash in (False, True):
            items.append((sql, "", True, prehash, []))
    for sql, read in PART_B_DIALECT:
        for prehash in (False, True):
            items.append((sql, read, False, prehash, [read, ""] if not prehash else []))
    return items


# statements in which one table / column / alias is referred to several times in a way optimizer rules rewrite through a
# per-table or per-name memo (db- and catalog-qualified columns, repeated CTE and alias references): a rule that attaches one
# node object in several places produces a tree whose links disagree with where the node is stored
PART_B_EXTRA = [
    "SELECT db.t.a, db.t.b FROM db.t",
    "SELECT c.db.t.a, c.db.t.b, db.t.c FROM c.db.t WHERE db.t.a > 1 ORDER BY db.t.b",
    "SELECT db.t.a, db.u.a, db.t.b, db.u.b FROM db.t JOIN db.u ON db.t.a = db.u.a AND db.t.b = db.u.b",
    "WITH w AS (SELECT a, b FROM t) SELECT w.a, w.b, w2.a, w2.b FROM w JOIN w AS w2 ON w.a = w2.a WHERE w.b = w2.b",
    "SELECT a AS x, a AS y, a + a AS z FROM t GROUP BY a, a HAVING a > 0 AND a < 9 ORDER BY a, a",
    "SELECT t.a, t.a, t.* FROM t AS t WHERE t.a IN (SELECT t.a FROM t AS t WHERE t.a = t.a)",
    # function-style date arithmetic that simplify tries to fold through a helper Interval (and keeps when an operand is a column),
    # with plain, string and parenthesised units
    "SELECT DATE_ADD(a, 1, 'day'), DATE_SUB(a, 2, 'week'), DATETIME_ADD(b, 3, 'hour'), DATETIME_SUB(b, 4, 'minute') FROM t WHERE DATE_ADD(a, 1, 'month') > b",
    "SELECT DATE_ADD(a, INTERVAL 1 DAY), DATE_SUB(a, INTERVAL 2 WEEK), DATETIME_ADD(b, INTERVAL 3 HOUR) FROM t WHERE DATE_SUB(a, INTERVAL 1 MONTH) >= CAST('2020-01-01' AS DATE)",
    "SELECT DATE_ADD(a, INTERVAL 1 WEEK(MONDAY)), TIMESTAMP_ADD(b, INTERVAL 5 MINUTE), DATE_TRUNC(a, MONTH), DATE_DIFF(a, b, DAY) FROM t",
    "SELECT DATEADD(day, 1, a), DATEADD(month, -1, b), DATEDIFF(day, a, b) FROM t WHERE DATEADD(year, 1, a) < CAST('2021-01-01' AS DATE)",
    # unused CTEs / projections (what the rules with an undo journal remove), GROUP BY ordinals to renumber
    "WITH y AS (SELECT a FROM t), z AS (SELECT b FROM t) SELECT b FROM z",
    "WITH y AS (SELECT a FROM t) SELECT a FROM (SELECT a, b, c FROM t) AS s",
    "SELECT a FROM (SELECT a, b, COUNT(*) AS n FROM t GROUP BY 1, 2) AS s",
]


# dialect-specific statements whose parser methods assemble a node from separately parsed pieces (parameter modes, two property
# sections of one CREATE, typed lambda parameters substituted into the body, partition bounds)
PART_B_DIALECT = [
    ("CREATE FUNCTION f(IN a INT NOT NULL, OUT b TEXT, INOUT c INT DEFAULT 1) RETURNS INT AS 'select 1'", "postgres"),
    ("CREATE TABLE t WITH (fillfactor=70) AS SELECT 1 AS a WITH NO DATA", "postgres"),
    ("CREATE TABLE t WITH (format='x') AS SELECT 1 AS a WITH NO DATA", "presto"),
    ("CREATE TABLE t, NO FALLBACK AS (SELECT 1 AS a) WITH DATA PRIMARY INDEX (a)", "teradata"),
    ("SELECT FILTER(arr, x INT -> x > 1 AND x < 5)", "snowflake"),
    ("SELECT REDUCE(arr, 0, (x INT, y INT) -> x + y + x)", "snowflake"),
    ("CREATE TABLE t (c1 INT, c2 DATE) PARTITION BY RANGE (`c2`) (PARTITION `p1` VALUES [('2017-01-01'), ('2017-02-01')), PARTITION `o` VALUES LESS THAN (MAXVALUE))", "doris"),
    ("SELECT json.a.b[].c, json.a.b[][]", "clickhouse"),
    ("SELECT IDENTIFIER('f')(1, 2), IDENTIFIER('g')()", "snowflake"),
    ("SELECT JSON_EXTRACT(x, '$[-1]'), JSON_EXTRACT(x, '$[-2]') FROM t FOR UPDATE", "mysql"),
    # builders that use one argument in two places of the node they build
    ("SELECT NULLIFZERO(x), ZEROIFNULL(y + 1), NVL2(x, y, x), IFF(x IS NULL, y, x), DECODE(x, 1, x, y) FROM t", "snowflake"),
    ("SELECT NULLIFZERO(x), ZEROIFNULL(y) FROM t", "exasol"),
    ("SELECT STRUCT(x), STRUCT(x, 1, y AS col3), NAMED_STRUCT('a', x, 'b', x) FROM t", "spark"),
    ("SELECT STRUCT(x, t.y) FROM t", "databricks"),
    ("SELECT * FROM UNNEST(ARRAY<STRUCT<device_id INT64, time DATETIME, signal INT64, state STRING>>[STRUCT(1, DATETIME '2023-11-01 09:34:01', 74, 'INACTIVE'), STRUCT(4, DATETIME '2023-11-01 09:38:01', 80, 'ACTIVE')])", "bigquery"),
    ("FROM x |> AGGREGATE SUM(x1) AS s GROUP BY x2 AS g", ""),
    ("FROM x |> AS a_x |> WHERE a_x.x1 > 0", ""),
]


def run(tier, seed):
    from sqlglot.dialects.dialect import Dialect

    for _d in corpus.dialects():  # import every dialect module once, before the pool forks
        Dialect.get_or_raise(_d or None)
    plan = _plan(tier)
    cplan = _corpus_plan(tier)
    if seed:
        import random

        rnd = random.Random(seed)
        rnd.shuffle(plan)
        rnd.shuffle(cplan)
    import time as _time

    _t0 = _time.time()
    resA = harness.pool_map(explore_item, plan, chunksize=4)
    _t1 = _time.time()
    resB = harness.pool_map(corpus_item, cplan, chunksize=8)
    _t2 = _time.time()

    evaluations = sum(r["evals"] for r in resA) + sum(r["evals"] for r in resB)
    nontrivial = sum(r["nontrivial"] for r in resA) + sum(r["nontrivial"] for r in resB)
    calls = {}
    for r in resA + resB:
        for k, v in r["calls"].items():
            calls[k] = calls.get(k, 0) + v
    exc = {}
    for r in resA:
        for k, v in r["exc"].items():
            exc[k] = exc.get(k, 0) + v
    skips = {}
    for r in resB:
        for k, v in r["skips"].items():
            skips[k] = skips.get(k, 0) + v
    viol, counts = {}, {}
    for r in resA + resB:
        for x in r["viol"]:
            old = viol.get(x["key"])
            if old is None or len(repr(x["input"])) < len(repr(old["input"])):
                viol[x["key"]] = x
        for k, v in r["viol_counts"].items():
            counts[k] = counts.get(k, 0) + v
    # global canon <-> hash bijection per start tree (forked workers share the string-hash seed)
    by_tree = {}
    for (ti, prefix, _), r in zip(plan, resA):
        d = by_tree.setdefault(ti, {})
        for cid, val in r["canon"].items():
            if cid in d and d[cid] != val:
                viol.setdefault(
                    "c08:equality:global:same-structure-different-hash",
                    {"key": "c08:equality:global:same-structure-different-hash", "what": "same canon, different hash", "input": {"tree": TREES[ti], "ops": prefix}},
                )
            d.setdefault(cid, val)
    distinct_states = 0
    for ti, d in by_tree.items():
        distinct_states += len(d)
        rev = {}
        for cid, val in d.items():
            if val in rev and rev[val] != cid:
                viol.setdefault(
                    "c08:equality:global:different-structure-same-hash",
                    {
                        "key": "c08:equality:global:different-structure-same-hash",
                        "what": "two structurally different trees of the same class have the same hash, hence compare equal",
                        "input": {"tree": TREES[ti], "canon_ids": [rev[val], cid]},
                    },
                )
            rev.setdefault(val, cid)
    violations = []
    for k in sorted(viol):
        x = dict(viol[k])
        x["count"] = counts.get(k, 1)
        violations.append(x)
    return {
        "evaluations": evaluations,
        "distinct_nontrivial": nontrivial,
        "rule": "part A: sequences whose last op changed the tree (structure/ids) or populated a hash cache; part B: optimizer-rule applications that changed the tree",
        "bound": (
            f"part A: {len(TREES)} tiny trees; alphabet instantiated at every node position; all op sequences of length <= 2, "
            "plus length 3 with hash(root) first"
            + ("; thorough: all length 3 on the 5 small trees (a + b, CASE, AND/OR, IN, SELECT 1), length 4 with hash(root) first on 'a + b' and 'SELECT 1', length 3 with any hash op first on the other trees" if tier == "thorough" else "")
            + f"; part B: {len(cplan)} (statement, read dialect, schema?, prehash?) items through parse/hash/sql/all {len(_opt.RULES)} optimizer rules"
        ),
        "exhaustive": True,
        "part_a_sequences": sum(r["seqs"] for r in resA),
        "part_a_distinct_states": distinct_states,
        "part_a_sqlglot_exceptions": exc,
        "part_b_items": len(cplan),
        "part_a_wall_s": round(_t1 - _t0, 1),
        "part_b_wall_s": round(_t2 - _t1, 1),
        "part_b_skips": skips,
        "samples": [plan[0], plan[len(plan) // 2], cplan[0][:4], cplan[-1][:4]],
        "violations": violations,
        "contract_evaluations": calls,
    }


def replay(entry):
    inp = entry["input"]
    if "ops" in inp:
        ti = TREES.index(inp["tree"])
        st = explore_item((ti, inp["ops"], 0))
        keys = sorted(st["viol_counts"])
    elif "sql" in inp:
        st = corpus_item((inp["sql"], inp["read"], inp["schema"], inp["prehash"], ["", "duckdb", "tsql", "mysql"]))
        keys = sorted(st["viol_counts"])
    else:
        return {"violated": None, "observed": "global entry: re-run the tier"}
    hit = entry["key"] in keys
    what = [x["what"] for x in st["viol"] if x["key"] == entry["key"]]
    return {"violated": hit, "observed": (what[0] if what else f"keys now: {keys}")}


if __name__ == "__main__":
    harness.main(run, replay)
