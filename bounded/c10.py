"""C10 (bounded): name resolution -- the contract of sqlglot.optimizer.qualify.qualify and of identifier
normalisation, checked at run time on the REAL functions.  Runs under /venv/bin/python.

Property C10.  For every query over a known schema, qualify either raises an OptimizeError or returns a query in
which every table has an alias, every column reference either names a source that is visible at that point or is a
reference to one of the query's own output names where SQL permits it (ORDER BY), stars are expanded to exactly the
schema's columns in schema order, and output names are unchanged; qualifying the result again changes nothing.
Identifier normalisation is idempotent and never alters an identifier that is case-sensitive under the dialect's rules.

Contract evaluated on r = qualify(parse_one(sql, d), schema=S, dialect=d)   (all options default):
  OptimizeError                       -> "rejected"  (permitted outcome)
  other SqlglotError                  -> "rejected-other" (reported in status, belongs to the exception-class property)
  any other exception                 -> "skipped"
  returns r:
   table-alias                 every exp.Table / exp.Subquery whose parent is FROM or JOIN has a non-empty alias
   column-unqualified          an exp.Column without `table` is inside ORDER BY / GROUP BY / HAVING / QUALIFY / DISTINCT ON
                               of its query and its name is one of that query's output names
   column-source-not-visible   column.table is among the aliases introduced by FROM/JOIN of the column's own SELECT or of a
                               SELECT that encloses it through expression-subquery nesting (WHERE/HAVING/projection/ON);
                               a derived table or CTE body sees no outer sources (no LATERAL is generated).  The visible
                               set is computed here by walking r's tree (parents), not by sqlglot's Scope.
   star-expansion              no `*` / `x.*` projection remains in any SELECT, and the output names of r equal the
                               expected list computed by this module's own evaluator (expected_names) from the query model
                               and the schema: FROM-order of sources, schema order of columns, EXCEPT removed, REPLACE in
                               place.  `*` over JOIN ... USING is engine dependent in column ORDER (standard/Postgres:
                               USING columns first; DuckDB: in place), both orders are accepted; `x.*` is never merged.
                               Only evaluated when every table the star ranges over is known (see known_table).
   output-names                (query without top-level star) r.named_selects == the output names written in the query,
                               in the dialect's normal form (fold(), written here from the NormalizationStrategy docs)
   idempotence                 qualify(r.copy(), same args) returns r2 with r2 == r and r2.sql(d) == r.sql(d)
  on the parsed tree (before qualify) and on stand-alone identifiers:
   normalize-idempotence       normalize_identifiers(normalize_identifiers(t)) == normalize_identifiers(t);
                               Dialect.normalize_identifier twice == once
   normalize-case-sensitive    per identifier (text, quoted): strategy CASE_SENSITIVE -> unchanged; quoted and strategy in
                               {LOWERCASE, UPPERCASE} -> unchanged; otherwise lower-cased (LOWERCASE, CASE_INSENSITIVE) or
                               upper-cased (UPPERCASE, CASE_INSENSITIVE_UPPERCASE), ASCII-only when the dialect declares
                               ASCII_ONLY_NORMALIZATION; `quoted` itself never changes.
                               Dialects that OVERRIDE normalize_identifier (detected by class attribute identity; today
                               only bigquery: qualified tables / UDFs are case-sensitive, everything else is not) are only
                               checked for idempotence, for "unchanged under CASE_SENSITIVE / quoted under LOWERCASE or
                               UPPERCASE", and for "result is the input or its ASCII-lowercase".

Input space (deterministic, exhaustive over the grammar below; `seed` permutes order only):
  tables tt(ca,cb,cc) tu(cb,cc,cd) tv(ca,cd,ce) with schema column order  tt: cc,ca,cb   tu: cd,cb,cc   tv: ce,ca,cd
  schema depth / table reference mode: (1,bare) (2,bare) (2,full dd.tt) (3,bare) (3,db dd.tt) (3,full kk.dd.tt)
  spellings of a two-letter word w=xy: lower xy, upper Xy, mixed xY, quoted "X y", nonascii xyÉ (nonascii2 xyé only as the
  query side of a mismatch); a spelling configuration = (schema tables, query tables, schema columns, query columns)
  dialects: up to 2 per NormalizationStrategy (alphabetical) + bigquery snowflake postgres mysql tsql duckdb base;
  CASE_INSENSITIVE_UPPERCASE has no built-in dialect and is reached through the documented dialect setting
  "<dialect>, normalization_strategy=case_insensitive_uppercase".
  skeleton families (skeletons(); every element of the finite products written there, nesting <= 2):
    plain, plain-hidden-name, plain-fullqual[-aliased], plain-unknown-column      unqualified / partially / fully qualified columns
    star, star-multi, star-except-replace, star-except-unknown                    * , x.* , EXCEPT|EXCLUDE (..) , REPLACE (..)
    join-on, join-on-ambiguous, using-star, using-col, using-qstar, using-unknown-column   ON / USING with 1-2 columns, 2-3 tables
    alias-where|group|having|order|order-out-of-range|shadow|agg|project, having-column    references to output names / ordinals
    derived, derived-mixed, derived-colalias, derived-nested, derived-duplicate-names, derived-shadow, derived-outer-ref
    cte, cte-mixed, cte-using, cte-colalias, cte-shadow, cte-chain, cte-in-subquery
    corr-exists|in|scalar|star, corr-hidden-name, corr-alias-shadow, corr-same-table, corr-nested, corr-sibling
    union, union-order, union-derived, union-cte, union-subquery
  A triple whose query does not parse in the dialect is counted "unparsed" and is not an evaluation.
  Harness self-check (AssertionError = checker error): for star-free queries the names this module expects are the
  names sqlglot's parser reports for the input (named_selects), before any folding.

Measured on the unchanged tree (16 workers, machine shared): quick 46320 triples in ~60 s wall, thorough ~600 k.

Keys: c10:<clause>:<strategy, or dialect name for dialects that override normalize_identifier>:<skeleton family>
"""
import itertools
import logging
import os
import sys

sys.path.insert(0, os.path.dirname(os.path.dirname(os.path.abspath(__file__))))

from bounded import harness

import sqlglot
from sqlglot import exp
from sqlglot import errors as E
from sqlglot.dialects.dialect import Dialect, Dialects
from sqlglot.optimizer.normalize_identifiers import normalize_identifiers
from sqlglot.optimizer.qualify import qualify

# ---------------------------------------------------------------------------------------------------
# names
SCHEMA_ORDER = {"t": ["c", "a", "b"], "u": ["d", "b", "c"], "v": ["e", "a", "d"]}
TW = {"t": "tt", "u": "tu", "v": "tv"}
CW = {x: "c" + x for x in "abcde"}
DBW, CATW = "dd", "kk"
SCHEMES = ("lower", "upper", "mixed", "quoted", "nonascii", "quoted-mixed", "quoted-nonascii", "quoted-mixed-nonascii")


def spell(scheme, w):
    """(text, quoted) of the two-letter word w under a spelling scheme"""
    if scheme == "lower":
        return (w, False)
    if scheme == "upper":
        return (w[0].upper() + w[1:], False)
    if scheme == "mixed":
        return (w[0] + w[1:].upper(), False)
    if scheme == "quoted":
        return (w[0].upper() + " " + w[1:], True)
    if scheme == "nonascii":
        return (w + "É", False)
    if scheme == "quoted-mixed":  # a safe identifier that is case-sensitive only because it is quoted (ASCII upper case)
        return (w[0] + w[1:].upper(), True)
    if scheme == "quoted-nonascii":  # ... case-sensitive only through a non-ASCII upper-case letter
        return (w + "É", True)
    if scheme == "quoted-mixed-nonascii":  # ASCII upper case AND a non-ASCII letter: case-sensitive also where only ASCII is folded
        return (w[0].upper() + w[1:] + "é", True)
    if scheme == "nonascii2":
        return (w + "é", False)
    raise ValueError(scheme)


# ---------------------------------------------------------------------------------------------------
# the dialect's normal form, written from the NormalizationStrategy documentation (NOT by calling normalize_identifier)
_DCACHE = {}


def dialect_info(dname):
    """(strategy name, ascii_only, overrides normalize_identifier, ident start, ident end) -- configuration only"""
    r = _DCACHE.get(dname)
    if r is None:
        d = Dialect.get_or_raise(dname or None)
        r = (
            d.normalization_strategy.name,
            bool(d.ASCII_ONLY_NORMALIZATION),
            type(d).normalize_identifier is not Dialect.normalize_identifier,
            d.IDENTIFIER_START,
            d.IDENTIFIER_END,
        )
        _DCACHE[dname] = r
    return r


def _ascii_lower(s):
    return "".join(chr(ord(c) + 32) if "A" <= c <= "Z" else c for c in s)


def _ascii_upper(s):
    return "".join(chr(ord(c) - 32) if "a" <= c <= "z" else c for c in s)


def fold_with(text, quoted, strategy, ascii_only):
    if strategy == "CASE_SENSITIVE":
        return text
    if quoted and strategy in ("LOWERCASE", "UPPERCASE"):
        return text
    if strategy in ("LOWERCASE", "CASE_INSENSITIVE"):
        return _ascii_lower(text) if ascii_only else text.lower()
    if strategy in ("UPPERCASE", "CASE_INSENSITIVE_UPPERCASE"):
        return _ascii_upper(text) if ascii_only else text.upper()
    raise ValueError(strategy)


def fold(pair, dname):
    strategy, ascii_only = dialect_info(dname)[:2]
    return fold_with(pair[0], pair[1], strategy, ascii_only)


def key_dialect(dname):
    strategy, _, override = dialect_info(dname)[:3]
    return dname.split(",")[0].strip() if override else strategy


# ---------------------------------------------------------------------------------------------------
# query model (plain tuples / dicts) + constructors
def T(l):
    return ("T", l)


def C(l):
    return ("C", l)


def AT(w):
    return ("AT", w)


def AC(w):
    return ("AC", w)


def col(l, q=None):
    """column reference; q = None | name-spec of the qualifier   (("fcol", table, column) is the db/catalog-qualified form)"""
    return ("col", q, l if isinstance(l, tuple) else C(l))


def num(n):
    return ("num", n)


def op(o, a, b):
    return ("op", o, a, b)


def fn(name, e):
    return ("fn", name, e)


def tab(l, alias=None):
    return ("tab", l, AT(alias) if alias else None)


def sub(q, alias=None, cols=None):
    return ("sub", q, AT(alias) if alias else None, [AC(c) for c in cols] if cols else None)


def cte(name, alias=None):
    return ("cte", name, AT(alias) if alias else None)


def pe(e, alias=None):
    return ("e", e, (alias if isinstance(alias, tuple) else AC(alias)) if alias else None)


STAR = ("*", None, [], [])


def star(q=None, ex=(), rep=()):
    return ("*", q, [C(x) for x in ex], [C(x) for x in rep])


def sel(p, f, w=None, g=None, h=None, o=None, with_=None):
    f = [x if isinstance(x, tuple) and x[0] in ("from", ",", "on", "using") else ("from" if i == 0 else ",", x, None) for i, x in enumerate(f)]
    return {"k": "sel", "p": list(p), "f": f, "w": w, "g": g, "h": h, "o": o, "with": with_ or []}


def on(item, cond):
    return ("on", item, cond)


def using(item, cols):
    return ("using", item, [C(c) for c in cols])


def union(l, r, all_=False, o=None, with_=None):
    return {"k": "union", "l": l, "r": r, "all": all_, "o": o, "with": with_ or []}


# ---------------------------------------------------------------------------------------------------
# context: dialect, schema depth / reference mode, spelling configuration
MODES = [(1, "bare"), (2, "bare"), (2, "full"), (3, "bare"), (3, "db"), (3, "full")]


class Ctx:
    def __init__(self, dialect, mode, cfg):
        self.dialect = dialect
        self.depth, self.ref = mode
        self.s_tab, self.q_tab, self.s_col, self.q_col = cfg
        _, _, _, self.qs, self.qe = dialect_info(dialect)

    # identifiers ------------------------------------------------------------------
    def pair(self, spec, side="query"):
        kind, w = spec
        if kind == "T":
            return spell(self.s_tab if side == "schema" else self.q_tab, TW[w])
        if kind == "C":
            return spell(self.s_col if side == "schema" else self.q_col, CW[w])
        if kind == "AT":
            return spell(self.q_tab, w)
        if kind == "AC":
            return spell(self.q_col, w)
        if kind == "DB":
            return spell(self.s_tab if side == "schema" else self.q_tab, w)
        raise ValueError(spec)

    def txt(self, pair):
        text, quoted = pair
        return f"{self.qs}{text}{self.qe}" if quoted else text

    def ident(self, spec, side="query"):
        return self.txt(self.pair(spec, side))

    def prefix_specs(self):
        """db / catalog name-specs written in front of a table name in the query under this reference mode"""
        if self.ref == "bare":
            return []
        if self.ref == "db" or self.depth == 2:
            return [("DB", DBW)]
        return [("DB", CATW), ("DB", DBW)]

    def table_ref(self, l):
        return ".".join([self.ident(s) for s in self.prefix_specs()] + [self.ident(T(l))])

    # schema -----------------------------------------------------------------------
    def schema(self):
        tables = {
            self.ident(T(l), "schema"): {self.ident(C(c), "schema"): "INT" for c in cols} for l, cols in SCHEMA_ORDER.items()
        }
        if self.depth == 1:
            return tables
        s = {self.ident(("DB", DBW), "schema"): tables}
        if self.depth == 2:
            return s
        return {self.ident(("DB", CATW), "schema"): s}

    def known_table(self, l):
        """is the query's reference to table l certainly the schema's table l under the dialect's documented rules?"""
        specs = [T(l)] + self.prefix_specs()
        override = dialect_info(self.dialect)[2]
        for s in specs:
            q, sc = self.pair(s, "query"), self.pair(s, "schema")
            if override:
                # (bigquery) table-name case rules depend on a qualification heuristic: only claim knowledge when no
                # folding question can arise at all
                if q != sc or _ascii_lower(q[0]) != q[0]:
                    return False
            elif fold(q, self.dialect) != fold(sc, self.dialect):
                return False
        return True


# ---------------------------------------------------------------------------------------------------
# rendering
def r_expr(e, cx):
    k = e[0]
    if k == "col":
        _, q, name = e
        n = cx.ident(name)
        if q is None:
            return n
        return cx.ident(q) + "." + n
    if k == "fcol":  # fully qualified column of table l
        _, l, c = e
        return cx.table_ref(l) + "." + cx.ident(C(c))
    if k == "num":
        return str(e[1])
    if k == "op":
        return f"{r_expr(e[2], cx)} {e[1]} {r_expr(e[3], cx)}"
    if k == "fn":
        return f"{e[1]}({r_expr(e[2], cx)})"
    if k == "exists":
        return f"EXISTS ({r_query(e[1], cx)})"
    if k == "in":
        return f"{r_expr(e[1], cx)} IN ({r_query(e[2], cx)})"
    if k == "sq":
        return f"({r_query(e[1], cx)})"
    if k == "one":
        return "1"
    raise ValueError(e)


def r_item(it, cx):
    k = it[0]
    if k == "tab":
        s = cx.table_ref(it[1])
        if it[2]:
            s += " AS " + cx.ident(it[2])
        return s
    if k == "cte":
        s = cx.ident(it[1])
        if it[2]:
            s += " AS " + cx.ident(it[2])
        return s
    if k == "sub":
        s = "(" + r_query(it[1], cx) + ")"
        if it[2]:
            s += " AS " + cx.ident(it[2])
            if it[3]:
                s += "(" + ", ".join(cx.ident(c) for c in it[3]) + ")"
        return s
    raise ValueError(it)


def r_from(f, cx):
    out = ""
    for kind, item, extra in f:
        if kind == "from":
            out += r_item(item, cx)
        elif kind == ",":
            out += ", " + r_item(item, cx)
        elif kind == "on":
            out += " JOIN " + r_item(item, cx) + " ON " + r_expr(extra, cx)
        elif kind == "using":
            out += " JOIN " + r_item(item, cx) + " USING (" + ", ".join(cx.ident(c) for c in extra) + ")"
    return out


def r_proj(p, cx):
    if p[0] == "e":
        s = r_expr(p[1], cx)
        if p[2]:
            s += " AS " + cx.ident(p[2])
        return s
    _, q, ex, rep = p
    s = (cx.ident(q) + "." if q else "") + "*"
    if ex:
        kw = "EXCLUDE" if cx.dialect.split(",")[0].strip() in ("duckdb", "snowflake") else "EXCEPT"
        s += f" {kw} (" + ", ".join(cx.ident(c) for c in ex) + ")"
    if rep:
        s += " REPLACE (" + ", ".join(f"{cx.ident(c)} + 1 AS {cx.ident(c)}" for c in rep) + ")"
    return s


def r_order(o, cx):
    return " ORDER BY " + ", ".join(r_expr(x, cx) for x in o) if o else ""


def r_with(w, cx):
    if not w:
        return ""
    parts = []
    for name, q, cols in w:
        n = cx.ident(name)
        if cols:
            n += "(" + ", ".join(cx.ident(AC(c)) for c in cols) + ")"
        parts.append(f"{n} AS ({r_query(q, cx)})")
    return "WITH " + ", ".join(parts) + " "


def r_tail(q, cx):
    s = ""
    if q["w"]:
        s += " WHERE " + r_expr(q["w"], cx)
    if q["g"]:
        s += " GROUP BY " + ", ".join(r_expr(x, cx) for x in q["g"])
    if q["h"]:
        s += " HAVING " + r_expr(q["h"], cx)
    s += r_order(q["o"], cx)
    return s


def _union_kw(cx):
    # bigquery / clickhouse require an explicit DISTINCT | ALL
    return " UNION DISTINCT " if cx.dialect.split(",")[0].strip() in ("bigquery", "clickhouse") else " UNION "


def r_query(q, cx):
    if q["k"] == "union":
        return r_with(q["with"], cx) + r_query(q["l"], cx) + (" UNION ALL " if q["all"] else _union_kw(cx)) + r_query(q["r"], cx) + r_order(q["o"], cx)
    return r_with(q["with"], cx) + "SELECT " + ", ".join(r_proj(p, cx) for p in q["p"]) + " FROM " + r_from(q["f"], cx) + r_tail(q, cx)


# ---------------------------------------------------------------------------------------------------
# expected output names: this module's own evaluator of the model (SQL semantics), names as (text, quoted) pairs
def _has(pairs, p, cx):
    f = fold(p, cx.dialect)
    return any(fold(x, cx.dialect) == f for x in pairs)


def item_columns(it, cx, env):
    """(source name pair | None, column pairs | None when unknown)"""
    k = it[0]
    if k == "tab":
        name = cx.pair(it[2]) if it[2] else cx.pair(T(it[1]))
        if cx.ref == "bare":
            hit = env.get(fold(cx.pair(T(it[1])), cx.dialect))
            if hit is not None:
                return name, hit  # a CTE of that name shadows the table
        if not cx.known_table(it[1]):
            return name, None
        return name, [cx.pair(C(c), "schema") for c in SCHEMA_ORDER[it[1]]]
    if k == "cte":
        name = cx.pair(it[2]) if it[2] else cx.pair(it[1])
        return name, env.get(fold(cx.pair(it[1]), cx.dialect))
    if k == "sub":
        name = cx.pair(it[2]) if it[2] else None
        if it[3]:
            return name, [cx.pair(c) for c in it[3]]
        return name, expected_names(it[1], cx, env, "std")
    raise ValueError(it)


def expected_names(q, cx, env=None, using_order="std"):
    """list of (text, quoted) | None (an unnamed expression) ; or None when a star ranges over an unknown source"""
    env = dict(env or {})
    for name, cq, cols in q["with"]:
        out = expected_names(cq, cx, env, using_order)
        if cols:
            # a column list renames the first len(cols) output columns of the body (it may be shorter than the projection list)
            named = [cx.pair(AC(c)) for c in cols]
            if out is None and len(cq.get("p") or []) != len(named):
                out = None  # the body's width is unknown (a star over an unknown source): the list may or may not cover it
            else:
                out = named + list(out[len(named):]) if out is not None and len(out) > len(named) else named
        env[fold(cx.pair(name), cx.dialect)] = out
    if q["k"] == "union":
        return expected_names(q["l"], cx, env, using_order)

    sources = []  # (name pair | None, cols | None, using specs | None)
    for kind, item, extra in q["f"]:
        name, cols = item_columns(item, cx, env)
        sources.append((name, cols, [cx.pair(c) for c in extra] if kind == "using" else None))

    def unqualified_star():
        merged = []
        for name, cols, us in sources:
            if cols is None or any(c is None for c in cols):
                return None
            if us:
                if not all(_has(merged, x, cx) and _has(cols, x, cx) for x in us):
                    return None  # USING names a column one side does not have: not a valid query, no expectation
                rest_left = [c for c in merged if not _has(us, c, cx)]
                rest_right = [c for c in cols if not _has(us, c, cx)]
                if using_order == "std":
                    # join columns first, in USING-list order, named as on the left side
                    first = []
                    for u in us:
                        left = [c for c in merged if fold(c, cx.dialect) == fold(u, cx.dialect)]
                        first.append(left[0] if left else u)
                    merged = first + rest_left + rest_right
                else:
                    merged = merged + rest_right
            else:
                merged = merged + cols
        return merged

    out = []
    for p in q["p"]:
        if p[0] == "e":
            _, e, alias = p
            if alias:
                out.append(cx.pair(alias))
            elif e[0] == "col":
                out.append(cx.pair(e[2]))
            elif e[0] == "fcol":
                out.append(cx.pair(C(e[2])))
            else:
                out.append(None)
            continue
        _, qual, ex, rep = p
        if qual is None:
            cols = unqualified_star()
        else:
            qf = fold(cx.pair(qual), cx.dialect)
            hits = [cols for name, cols, _ in sources if name is not None and fold(name, cx.dialect) == qf]
            cols = hits[0] if len(hits) == 1 else None
        if cols is None:
            return None
        exs = [cx.pair(c) for c in ex]
        out.extend(c for c in cols if not _has(exs, c, cx))
    return out


def model_tables(x):
    """logical names of all base tables referenced anywhere in a model"""
    out = set()
    if isinstance(x, dict):
        for v in x.values():
            out |= model_tables(v)
    elif isinstance(x, (list, tuple)):
        if len(x) == 3 and x[0] == "tab":
            out.add(x[1])
        elif len(x) == 3 and x[0] == "fcol":
            out.add(x[1])
        else:
            for v in x:
                out |= model_tables(v)
    return out


def has_top_star(q):
    while q["k"] == "union":
        q = q["l"]
    return any(p[0] == "*" for p in q["p"])


def has_using_star(q):
    """does any SELECT combine an unqualified star with JOIN USING (column order is then engine dependent)"""
    if q["k"] == "union":
        return has_using_star(q["l"]) or has_using_star(q["r"]) or any(has_using_star(c[1]) for c in q["with"])
    if any(p[0] == "*" and p[1] is None for p in q["p"]) and any(k == "using" for k, _, _ in q["f"]):
        return True
    if any(has_using_star(c[1]) for c in q["with"]):
        return True
    return any(it[0] == "sub" and has_using_star(it[1]) for _, it, _ in q["f"])


# ---------------------------------------------------------------------------------------------------
# skeleton grammar
def skeletons():
    """[(family, model)] -- every element of the finite products below, in a fixed order"""
    out = []

    def add(fam, q):
        out.append((fam, q))

    t, u, v = tab("t"), tab("u"), tab("v")
    P = itertools.product

    # --- plain: one table, optional alias, unqualified / qualified / mixed column references, optional output alias
    for al in (None, "sa"):
        src = tab("t", al)
        q = AT(al) if al else T("t")
        for q1, q2 in P((None, q), repeat=2):
            add("plain", sel([pe(col("a", q1)), pe(col("b", q2))], [src]))
        for q1 in (None, q):
            add("plain", sel([pe(col("a", q1), "xa")], [src]))
            add("plain", sel([pe(op("+", col("a", q1), num(1)), "xa"), pe(col("c", q1))], [src], w=op(">", col("b", q1), num(0))))
    add("plain-hidden-name", sel([pe(col("a", T("t")))], [tab("t", "sa")]))  # tt.ca FROM tt AS sa : tt is hidden by the alias
    for c in "ab":
        add("plain-fullqual", sel([pe(("fcol", "t", c))], [t]))
        add("plain-fullqual", sel([pe(("fcol", "t", c)), pe(col("c"))], [t], w=op(">", ("fcol", "t", "b"), num(0))))
        add("plain-fullqual", sel([pe(("fcol", "t", c)), pe(("fcol", "u", "d"))], [t, on(u, op("=", ("fcol", "t", "b"), ("fcol", "u", "b")))]))
    add("plain-fullqual-aliased", sel([pe(("fcol", "t", "a"))], [tab("t", "sa")]))  # dd.tt.ca FROM dd.tt AS sa
    add("plain-unknown-column", sel([pe(col("e"))], [t]))
    add("plain-unknown-column", sel([pe(col("e", T("t")))], [t]))

    # --- star over one table
    for al in (None, "sa"):
        src = tab("t", al)
        q = AT(al) if al else T("t")
        add("star", sel([STAR], [src]))
        add("star", sel([star(q)], [src]))
        add("star", sel([STAR, pe(col("a"), "xa")], [src]))
        add("star", sel([pe(col("a")), STAR], [src]))
        add("star", sel([star(q), pe(col("a", q))], [src]))
    # --- star over several tables
    cond_tu = op("=", col("b", T("t")), col("b", T("u")))
    for f in ([t, u], [t, on(u, cond_tu)]):
        for p in ([STAR], [star(T("t"))], [star(T("u"))], [star(T("t")), star(T("u"))], [star(T("u")), star(T("t"))],
                  [star(T("t")), pe(col("d", T("u")))], [STAR, pe(col("a", T("t")), "xa")]):
            add("star-multi", sel(p, f))
    add("star-multi", sel([STAR], [tab("t", "sa"), tab("t", "sb")]))
    add("star-multi", sel([star(AT("sa")), pe(col("a", AT("sb")))], [tab("t", "sa"), tab("t", "sb")]))
    add("star-multi", sel([STAR], [t, u, v]))
    add("star-multi", sel([star(T("v")), star(T("t"))], [t, u, v]))
    add("star-multi", sel([STAR], [v, t]))

    # --- star EXCEPT / REPLACE
    for p in ([star(ex="a")], [star(ex="ab")], [star(ex="c")], [star(ex="ba")], [star(T("t"), ex="a")], [star(rep="a")],
              [star(T("t"), rep="c")], [star(ex="a", rep="b")], [star(ex="cab"[:2]), pe(col("b"), "xa")]):
        add("star-except-replace", sel(p, [t]))
    add("star-except-replace", sel([star(ex="a")], [t, u]))
    add("star-except-replace", sel([star(ex="d")], [t, u]))
    add("star-except-replace", sel([star(T("t"), ex="a"), star(T("u"), ex="d")], [t, u]))
    add("star-except-replace", sel([star(AT("sa"), ex="b")], [tab("t", "sa")]))
    add("star-except-unknown", sel([star(ex="e")], [t]))  # EXCEPT names a column the table does not have
    # two stars over the same source, only the first one with modifiers: the second expands to the whole table
    add("star-except-twice", sel([star(T("t"), ex="a"), star(T("t"))], [t]))
    add("star-except-twice", sel([star(T("t"), rep="b"), star(T("t"))], [t]))
    add("star-except-twice", sel([star(AT("sa"), ex="ab"), star(AT("sa")), pe(col("c"), "xc")], [tab("t", "sa")]))
    add("star-except-twice", sel([star(ex="a"), star(T("u"))], [t, u]))
    add("star-except-twice", sel([star(T("u"), ex="d"), STAR], [t, u]))
    add("star-except-twice", sel([star(ex="a"), STAR], [t]))  # two BARE stars: the modifiers belong to the first one only
    add("star-except-twice", sel([star(rep="b"), pe(col("c"), "xc"), STAR], [t]))
    add("star-except-twice", sel([star(ex="a"), STAR], [t, u]))
    add("star-except-twice", sel([star(T("t"), ex="a"), star(T("u"), ex="b"), star(T("t")), star(T("u"))], [t, u]))

    # --- JOIN ... ON
    cond_uv = op("=", col("d", T("u")), col("d", T("v")))
    for p in ([pe(col("a")), pe(col("d"))], [pe(col("a")), pe(col("d", T("u")))], [pe(col("b", T("t"))), pe(col("b", T("u")))], [STAR]):
        add("join-on", sel(p, [t, on(u, cond_tu)]))
        add("join-on", sel(p, [t, on(u, op("=", col("a"), col("d")))]))
    add("join-on-ambiguous", sel([pe(col("b"))], [t, on(u, cond_tu)]))
    add("join-on-ambiguous", sel([pe(col("a"))], [t, on(u, op("=", col("b"), col("d")))]))
    for p in ([pe(col("a", T("t"))), pe(col("e"))], [STAR], [pe(col("e")), star(T("u"))]):
        add("join-on", sel(p, [t, on(u, cond_tu), on(v, cond_uv)]))
    add("join-on", sel([pe(col("a", AT("sa"))), pe(col("d"))], [tab("t", "sa"), on(tab("u", "sb"), op("=", col("b", AT("sa")), col("b", AT("sb"))))]))

    # --- JOIN ... USING
    froms = {
        "u1": [t, using(u, "b")],
        "u2": [t, using(u, "bc")],
        "u3": [t, using(u, "cb")],
        "u4": [t, using(u, "b"), using(v, "d")],
        "u5": [t, using(u, "bc"), using(v, "a")],
        "u6": [t, using(v, "a"), using(u, "d")],
        "u7": [t, using(u, "bc"), using(v, "ad")],
        "u8": [u, using(t, "b")],
    }
    for name, f in froms.items():
        add("using-star", sel([STAR], f))
        add("using-col", sel([pe(col("b"))], f))
        add("using-col", sel([pe(col("a", T("t"))), pe(col("d"))], f))
        add("using-col", sel([pe(col("b")), pe(col("a", T("t")))], f, w=op(">", col("b"), num(0))))
        add("using-qstar", sel([star(T("t"))], f))
        add("using-qstar", sel([star(T("u"))], f))
        add("using-qstar", sel([star(T("t")), star(T("u"))], f))
    fa = [tab("t", "sa"), using(tab("u", "sb"), "b")]
    add("using-star", sel([STAR], fa))
    add("using-qstar", sel([star(AT("sa"))], fa))
    add("using-col", sel([pe(col("b")), pe(col("d", AT("sb")))], fa))
    add("using-col", sel([pe(col("b"), "xa")], fa, o=[col("b")]))
    add("using-unknown-column", sel([STAR], [t, using(v, "b")]))  # tv has no cb
    # the USING column exists in the joined table only: no source on the left can supply it
    add("using-left-lacks-column", sel([STAR], [t, using(u, "d")]))  # tt has no cd
    add("using-left-lacks-column", sel([pe(col("c", T("u")))], [t, using(u, "d")]))
    add("using-left-lacks-column", sel([star(T("u"))], [t, using(u, "d")]))
    add("using-left-lacks-column", sel([pe(col("a", T("t")))], [t, using(u, "b"), using(v, "e")]))  # neither tt nor tu has ce
    add("using-left-lacks-column", sel([pe(col("a", T("t"))), pe(col("e", T("v")))], [t, using(u, "bd"), using(v, "a")]))

    # --- references to output aliases
    def base(extra=False, **kw):
        p = [pe(col("a"), "xa")] + ([pe(col("b"))] if extra else [])
        return sel(p, [t], **kw)

    xa = ("col", None, AC("xa"))
    for extra in (False, True):
        add("alias-where", base(extra, w=op(">", xa, num(1))))
        add("alias-group", base(extra, g=[xa] + ([col("b")] if extra else [])))
        add("alias-group", base(extra, g=[num(1)] + ([num(2)] if extra else [])))
        add("alias-group", base(extra, g=[col("a")] + ([col("b")] if extra else [])))
        add("alias-having", base(extra, g=[xa] + ([col("b")] if extra else []), h=op(">", xa, num(1))))
        add("alias-order", base(extra, o=[xa]))
        add("alias-order", base(extra, o=[num(1)]))
        add("alias-order", base(extra, o=[col("a")]))
        add("alias-order", base(extra, o=[col("c")]))
        add("alias-order", base(extra, o=[xa, col("c")]))
        add("alias-order", base(extra, o=[col("a", T("t"))]))
    add("alias-order-out-of-range", base(False, o=[num(3)]))
    # alias shadows a column of the source
    shadow = lambda **kw: sel([pe(col("a"), C("b"))], [t], **kw)
    add("alias-shadow", shadow(w=op(">", col("b"), num(1))))
    add("alias-shadow", shadow(g=[col("b")]))
    add("alias-shadow", shadow(o=[col("b")]))
    add("alias-shadow", shadow(g=[col("b")], h=op(">", col("b"), num(1)), o=[col("b")]))
    add("alias-shadow", sel([pe(col("a"), C("b")), pe(col("b"), C("a"))], [t], o=[col("a"), col("b")]))
    # aggregates
    xs = ("col", None, AC("xs"))
    agg = lambda **kw: sel([pe(fn("SUM", col("a")), "xs"), pe(col("b"))], [t], **kw)
    add("alias-agg", agg(g=[col("b")]))
    add("alias-agg", agg(g=[col("b")], h=op(">", xs, num(1))))
    add("alias-agg", agg(g=[col("b")], o=[xs]))
    add("alias-agg", agg(g=[col("b")], o=[fn("SUM", col("a"))]))
    add("alias-agg", agg(g=[num(2)], o=[num(1), num(2)]))
    # an aggregate in ORDER BY that is also projected, over a column whose name an alias shadows
    shagg = lambda **kw: sel([pe(col("a"), C("b")), pe(fn("MAX", col("b")), "xm")], [t], **kw)
    add("alias-shadow-agg", shagg(g=[col("a")], o=[fn("MAX", col("b"))]))
    add("alias-shadow-agg", shagg(g=[col("a")], o=[op("+", fn("MAX", col("b")), num(1))]))
    add("alias-shadow-agg", shagg(g=[num(1)], o=[fn("MAX", col("b")), num(1)]))
    add("alias-shadow-agg", shagg(g=[col("a")], h=op(">", fn("MAX", col("b")), num(0)), o=[num(2)]))
    add("alias-shadow-agg", sel([pe(fn("MAX", col("b")), "xm"), pe(col("a"), C("b"))], [t], g=[col("a", T("t"))], o=[fn("MAX", col("b", T("t")))]))
    # plain (non-alias) columns in HAVING
    add("having-column", agg(g=[col("b")], h=op(">", fn("MAX", col("c")), num(1)), o=[fn("MAX", col("c")), col("b")]))
    add("having-column", sel([pe(col("b"))], [t], g=[col("b")], h=op(">", fn("MAX", col("a")), num(0))))
    add("having-column", sel([pe(col("b"))], [t], g=[col("b")], h=op(">", col("b"), num(0))))
    add("having-column", sel([pe(col("b", T("t")))], [t], g=[col("b", T("t"))], h=op(">", fn("MAX", col("a", T("t"))), num(0))))
    add("alias-project", sel([pe(col("a"), "xa"), pe(op("+", xa, num(1)), "xb")], [t]))
    add("alias-project", sel([pe(col("a"), "xa"), pe(op("+", xa, col("b")), "xb")], [t], o=[("col", None, AC("xb"))]))

    # --- derived tables
    inner = {
        "i1": sel([pe(col("a")), pe(col("b"))], [t]),
        "i2": sel([STAR], [t]),
        "i3": sel([pe(col("a"), "xa"), pe(col("b"))], [t]),
    }
    for iname, iq in inner.items():
        first = ("col", None, AC("xa")) if iname == "i3" else col("a")
        for al in ("sa", None):
            add("derived", sel([STAR], [sub(iq, al)]))
            add("derived", sel([pe(first)], [sub(iq, al)]))
            add("derived", sel([pe(first), pe(col("b"))], [sub(iq, al)], w=op(">", col("b"), num(0)), o=[col("b")]))
        add("derived", sel([star(AT("sa"))], [sub(iq, "sa")]))
        add("derived", sel([pe(("col", AT("sa"), first[2])), pe(col("b", AT("sa")))], [sub(iq, "sa")]))
        # derived table next to a base table: FROM order decides the order of `*`
        add("derived-mixed", sel([STAR], [sub(iq, "sa"), u]))
        add("derived-mixed", sel([STAR], [u, sub(iq, "sa")]))
        add("derived-mixed", sel([star(AT("sa")), star(T("u"))], [sub(iq, "sa"), u]))
        add("derived-mixed", sel([STAR], [sub(iq, "sa"), on(u, op("=", col("b", AT("sa")), col("b", T("u"))))]))
        add("derived-mixed", sel([pe(first), pe(col("d"))], [sub(iq, "sa"), on(u, op("=", col("b", AT("sa")), col("b", T("u"))))]))
        add("derived-mixed", sel([STAR], [sub(iq, "sa"), using(u, "b")]))
        add("derived-mixed", sel([STAR], [u, using(sub(iq, "sa"), "b")]))
    i1 = inner["i1"]
    xb = ("col", None, AC("xb"))
    add("derived-colalias", sel([STAR], [sub(i1, "sa", ["xa", "xb"])]))
    add("derived-colalias", sel([pe(xa)], [sub(i1, "sa", ["xa", "xb"])]))
    add("derived-colalias", sel([pe(("col", AT("sa"), AC("xb"))), pe(xa)], [sub(i1, "sa", ["xa", "xb"])], o=[xb]))
    add("derived-colalias", sel([star(AT("sa"))], [sub(inner["i2"], "sa", ["xa", "xb", "xc"])]))
    add("derived-colalias", sel([pe(col("a"))], [sub(i1, "sa", ["xa", "xb"])]))  # inner name is hidden by the column alias
    # two levels
    add("derived-nested", sel([STAR], [sub(sel([STAR], [sub(inner["i2"], "sa")]), "sb")]))
    add("derived-nested", sel([pe(col("a", AT("sb")))], [sub(sel([pe(col("a", AT("sa")))], [sub(sel([pe(col("a"))], [t]), "sa")]), "sb")]))
    add("derived-duplicate-names", sel([STAR], [sub(sel([STAR], [u, sub(inner["i3"], "sa")]), "sb")]))  # cb twice in sb
    add("derived-duplicate-names", sel([star(AT("sb"))], [sub(sel([STAR], [t, u]), "sb")]))
    add("derived-duplicate-names", sel([pe(col("a"))], [sub(sel([STAR], [t, u]), "sb")]))
    add("derived-nested", sel([pe(col("d")), pe(xa)], [sub(sel([STAR], [sub(inner["i3"], "sa"), using(u, "b")]), "sb")]))
    # derived table named like a base table
    dv = sel([pe(col("d")), pe(col("e"))], [v])
    add("derived-shadow", sel([STAR], [("sub", dv, T("t"), None)]))
    add("derived-shadow", sel([pe(col("d", T("t")))], [("sub", dv, T("t"), None)]))
    add("derived-mixed", sel([STAR], [("sub", dv, T("t"), None), u]))
    add("derived-shadow", sel([STAR], [u, ("sub", dv, T("t"), None)]))
    add("derived-outer-ref", sel([STAR], [t, sub(sel([pe(col("d"))], [u], w=op("=", col("b", T("u")), col("b", T("t")))), "sa")]))  # no LATERAL: tt invisible

    # --- CTEs
    wa = AT("wa")
    for iname, iq in inner.items():
        first = ("col", None, AC("xa")) if iname == "i3" else col("a")
        w = [(wa, iq, None)]
        for al in (None, "sa"):
            q = AT(al) if al else wa
            add("cte", sel([STAR], [cte(wa, al)], with_=w))
            add("cte", sel([star(q)], [cte(wa, al)], with_=w))
            add("cte", sel([pe(first)], [cte(wa, al)], with_=w))
            add("cte", sel([pe(("col", q, first[2])), pe(col("b"))], [cte(wa, al)], with_=w, o=[col("b")]))
        add("cte-mixed", sel([STAR], [cte(wa), u], with_=w))
        add("cte-mixed", sel([STAR], [u, cte(wa)], with_=w))
        add("cte-using", sel([STAR], [cte(wa), using(u, "b")], with_=w))
        add("cte-mixed", sel([pe(col("a", AT("sa"))) if iname != "i3" else pe(("col", AT("sa"), AC("xa"))), pe(col("b", AT("sb")))],
                             [cte(wa, "sa"), cte(wa, "sb")], with_=w))
    wc = [(wa, i1, ["xa", "xb"])]
    add("cte-colalias", sel([STAR], [cte(wa)], with_=wc))
    add("cte-colalias", sel([pe(xa)], [cte(wa)], with_=wc))
    add("cte-colalias", sel([pe(("col", wa, AC("xb"))), pe(xa)], [cte(wa)], with_=wc, o=[xa]))
    add("cte-colalias", sel([star(wa)], [cte(wa)], with_=[(wa, inner["i2"], ["xa", "xb", "xc"])]))
    add("cte-colalias", sel([pe(col("a"))], [cte(wa)], with_=wc))  # hidden inner name
    # a column list shorter than the body's projection list renames a prefix; the remaining columns keep their names
    add("cte-colalias-short", sel([STAR], [cte(wa)], with_=[(wa, i1, ["xa"])]))
    add("cte-colalias-short", sel([star(wa)], [cte(wa)], with_=[(wa, inner["i2"], ["xa", "xb"])]))
    add("having-column", sel([pe(xa)], [cte(wa)], with_=wc, w=op(">", xb, num(0)), g=[xa], h=op(">", fn("MAX", xb), num(0))))
    # CTE named like a base table shadows it
    ws = [(T("t"), dv, None)]
    add("cte-shadow", sel([STAR], [cte(T("t"))], with_=ws))
    add("cte-shadow", sel([pe(col("d", T("t")))], [cte(T("t"))], with_=ws))
    add("cte-shadow", sel([pe(col("d"))], [cte(T("t"))], with_=ws))
    add("cte-shadow", sel([STAR], [cte(T("t")), u], with_=ws))
    add("cte-shadow", sel([pe(col("a"))], [cte(T("t"))], with_=ws))  # ca is not a column of the CTE
    # a WITH nested in a derived table defines a CTE named like a base table, next to an outer WITH: the name must not leak to
    # the sibling derived table, which reads the real table
    nested = sel([pe(xa)], [cte(T("u"))], with_=[(T("u"), sel([pe(col("a"), "xa")], [cte(wa)]), None)])
    add("cte-nested-shadow", sel([STAR], [sub(nested, "sa"), sub(sel([STAR], [u]), "sb")], with_=[(wa, i1, None)]))
    add("cte-nested-shadow", sel([STAR], [sub(sel([STAR], [u]), "sb"), sub(nested, "sa")], with_=[(wa, i1, None)]))
    add("cte-nested-shadow", sel([pe(xa), pe(col("d", AT("sb")))], [sub(nested, "sa"), sub(sel([pe(col("d")), pe(col("c"))], [u]), "sb")], with_=[(wa, i1, None)]))
    # an inner WITH re-defines the OUTER CTE's name with other columns, and a LATER sibling CTE of that inner WITH reads the name:
    # it must see the inner definition
    wb0 = AT("wb")
    inner_redef = sel([STAR], [cte(wb0)], with_=[(wa, sel([pe(col("d")), pe(col("c"))], [u]), None), (wb0, sel([STAR], [cte(wa)]), None)])
    add("cte-nested-shadow", sel([STAR], [sub(inner_redef, "sa")], with_=[(wa, i1, None)]))
    add("cte-nested-shadow", sel([pe(col("d", AT("sa")))], [sub(inner_redef, "sa")], with_=[(wa, i1, None)]))
    # chained CTEs
    wb = AT("wb")
    add("cte-chain", sel([STAR], [cte(wb)], with_=[(wa, i1, None), (wb, sel([STAR], [cte(wa)]), None)]))
    add("cte-chain", sel([pe(col("a", wb))], [cte(wb)], with_=[(wa, inner["i2"], None), (wb, sel([pe(col("a")), pe(col("c"))], [cte(wa)]), None)]))
    add("cte-chain", sel([STAR], [cte(wb), cte(wa)], with_=[(wa, i1, None), (wb, sel([pe(col("d"))], [u]), None)]))
    add("cte-in-subquery", sel([pe(col("a"))], [t], w=("in", col("a"), sel([pe(col("a"))], [cte(wa)])), with_=[(wa, i1, None)]))
    add("cte-in-subquery", sel([STAR], [t], w=("exists", sel([pe(("one",))], [cte(wa)], w=op("=", col("a", wa), col("a", T("t"))))), with_=[(wa, i1, None)]))

    # --- correlated subqueries
    for al in (None, "sa"):
        outer = tab("t", al)
        oq = AT(al) if al else T("t")
        conds = {
            "qq": op("=", col("b", T("u")), col("b", oq)),  # both qualified
            "uu": op("=", col("d"), col("a")),  # cd is inner (tu), ca is outer (tt)
            "shadow": op("=", col("b"), col("a")),  # cb: inner tu shadows outer tt ; ca outer
            "qu": op("=", col("b", T("u")), col("b")),  # unqualified cb -> inner
            "uq": op("=", col("c"), col("c", oq)),
            "and": op("AND", op("=", col("b", T("u")), col("b", oq)), op(">", col("d"), col("a"))),
        }
        for cname, c in conds.items():
            add("corr-exists", sel([pe(col("a"))], [outer], w=("exists", sel([pe(("one",))], [u], w=c))))
            add("corr-in", sel([pe(col("a"))], [outer], w=("in", col("b"), sel([pe(col("b"))], [u], w=c))))
            add("corr-scalar", sel([pe(col("a"))], [outer], w=op("=", col("a"), ("sq", sel([pe(fn("MAX", col("d")))], [u], w=c)))))
            add("corr-scalar", sel([pe(col("a")), pe(("sq", sel([pe(fn("MAX", col("d")))], [u], w=c)), "xm")], [outer]))
            add("corr-star", sel([STAR], [outer], w=("exists", sel([STAR], [u], w=c))))
    # outer table referenced by its hidden name
    add("corr-hidden-name", sel([pe(col("a"))], [tab("t", "sa")], w=("exists", sel([pe(("one",))], [u], w=op("=", col("b", T("u")), col("b", T("t")))))))
    # inner alias equal to the outer alias: the inner one wins
    add("corr-alias-shadow", sel([pe(col("a"))], [tab("t", "sa")], w=("in", col("a"), sel([pe(col("a", AT("sa")))], [tab("v", "sa")], w=op(">", col("d", AT("sa")), num(0))))))
    add("corr-alias-shadow", sel([pe(col("a"))], [tab("t", "sa")], w=("in", col("a"), sel([pe(col("a"))], [tab("v", "sa")], w=op(">", col("b", AT("sa")), num(0))))))  # sa.cb: inner sa=tv has no cb
    add("corr-alias-shadow", sel([STAR], [tab("t", "sa")], w=("exists", sel([star(AT("sa"))], [tab("v", "sa")]))))
    # same table on both levels
    add("corr-same-table", sel([pe(col("a"))], [t], w=("in", col("a"), sel([pe(col("a"))], [t]))))
    add("corr-same-table", sel([pe(col("a"))], [t], w=("in", col("a"), sel([pe(col("a"))], [t], w=op("=", col("b", T("t")), num(1))))))
    add("corr-same-table", sel([pe(col("a", AT("sa")))], [tab("t", "sa")], w=("exists", sel([pe(("one",))], [tab("t", "sb")], w=op("=", col("b", AT("sb")), col("b", AT("sa")))))))
    # two levels
    lvl2q = ("exists", sel([pe(("one",))], [v], w=op("AND", op("=", col("d", T("v")), col("d", T("u"))), op("=", col("a", T("v")), col("a", T("t"))))))
    lvl2u = ("exists", sel([pe(("one",))], [v], w=op("AND", op("=", col("e"), col("c")), op("=", col("d"), col("b")))))  # ce inner; cc -> tu (nearest); cd -> tv; cb -> tu
    for l2 in (lvl2q, lvl2u):
        add("corr-nested", sel([pe(col("a"))], [t], w=("exists", sel([pe(("one",))], [u], w=op("AND", op("=", col("b", T("u")), col("b", T("t"))), l2)))))
    add("corr-nested", sel([pe(col("a"))], [t], w=("in", col("a"), sel([pe(col("a"))], [sub(sel([pe(col("a")), pe(col("d"))], [v]), "sa")], w=op("=", col("d", AT("sa")), col("b", T("t")))))))
    add("corr-sibling", sel([pe(col("a"))], [t], w=op("AND", ("exists", sel([pe(("one",))], [u], w=op("=", col("b", T("u")), col("b", T("t"))))),
                                                     ("exists", sel([pe(("one",))], [v], w=op("=", col("d", T("v")), col("d", T("u"))))))))  # tu is not visible in the sibling

    # --- UNION
    L = sel([pe(col("a")), pe(col("b"))], [t])
    R = sel([pe(col("d")), pe(col("e"))], [v])
    for all_ in (False, True):
        add("union", union(L, R, all_))
        add("union", union(sel([STAR], [t]), sel([STAR], [u]), all_))
        add("union", union(sel([pe(col("a"), "xa")], [t]), sel([pe(col("d"))], [v]), all_))
    add("union-order", union(L, R, o=[col("a")]))
    add("union-order", union(L, R, o=[num(1)]))
    add("union-order", union(L, R, o=[col("b"), col("a")]))
    add("union-order", union(sel([pe(col("a"), "xa")], [t]), sel([pe(col("d"))], [v]), o=[xa]))
    add("union", union(union(L, R), sel([pe(col("b")), pe(col("c"))], [u])))
    U3 = lambda: union(union(L, R), sel([pe(col("b")), pe(col("c"))], [u]))
    U4 = lambda: union(union(union(L, R, True), sel([pe(col("b")), pe(col("c"))], [u]), True), sel([pe(col("c")), pe(col("a"))], [t]), True)
    for U in (U3, U4):
        add("union3-collist", sel([STAR], [cte(wa)], with_=[(wa, U(), ["xa", "xb"])]))
        add("union3-collist", sel([star(wa)], [cte(wa)], with_=[(wa, U(), ["xa", "xb"])]))
        add("union3-collist", sel([STAR], [sub(U(), "sa", ["xa", "xb"])]))
        add("union3-collist", sel([STAR], [sub(U(), "sa")]))
    add("union-derived", sel([STAR], [sub(union(L, R), "sa")]))
    add("union-derived", sel([pe(col("a", AT("sa")))], [sub(union(L, R), "sa")], o=[col("b")]))
    add("union-derived", sel([STAR], [sub(union(sel([STAR], [t]), sel([STAR], [u])), "sa")]))
    add("union-cte", sel([STAR], [cte(wa)], with_=[(wa, union(L, R), None)]))
    add("union-cte", sel([pe(col("b"))], [cte(wa)], with_=[(wa, union(L, R), ["xa", "xb"])]))
    add("union-cte", sel([star(wa)], [cte(wa)], with_=[(wa, union(L, R), ["xa", "xb"])]))
    add("union-subquery", sel([pe(col("a"))], [t], w=("in", col("a"), union(sel([pe(col("a"))], [v], w=op("=", col("d"), col("b"))), sel([pe(col("b"))], [u])))))
    add("union-subquery", sel([pe(col("a"))], [t], w=("in", col("a"), union(sel([pe(col("a"))], [v]), sel([pe(col("b"))], [u], w=op("=", col("d", T("u")), col("a", T("t"))))))))
    return out


# ---------------------------------------------------------------------------------------------------
# dialects / configurations
CIU = "normalization_strategy=case_insensitive_uppercase"
ALL_STRATEGIES = ("LOWERCASE", "UPPERCASE", "CASE_SENSITIVE", "CASE_INSENSITIVE", "CASE_INSENSITIVE_UPPERCASE")


def all_dialects():
    return sorted(d.value for d in Dialects)


def qualify_dialects():
    by = {}
    for d in all_dialects():
        by.setdefault(dialect_info(d)[0], []).append(d)
    chosen = []
    for s in ALL_STRATEGIES:
        chosen.extend(by.get(s, [])[:2])
    chosen += [f"duckdb, {CIU}", f"snowflake, {CIU}"]  # no built-in dialect uses this strategy
    for d in ("bigquery", "snowflake", "postgres", "mysql", "tsql", "duckdb", ""):
        if d not in chosen:
            chosen.append(d)
    got = {dialect_info(d)[0] for d in chosen}
    assert got == set(ALL_STRATEGIES), got
    return chosen


SAME = [(s, s, s, s) for s in SCHEMES]
QUICK_CFGS = SAME + [
    ("upper", "lower", "upper", "lower"),
    ("lower", "mixed", "lower", "mixed"),
    ("nonascii", "nonascii2", "nonascii", "nonascii2"),
]
PAIRS = [(s, s) for s in SCHEMES] + [("upper", "lower"), ("lower", "mixed"), ("nonascii", "nonascii2")]


def thorough_cfgs():
    cfgs = list(QUICK_CFGS)
    for (st, qt), (sc, qc) in itertools.product(PAIRS, PAIRS):
        c = (st, qt, sc, qc)
        if c not in cfgs:
            cfgs.append(c)
    return cfgs


def items_for(tier):
    sk = skeletons()
    ds = qualify_dialects()
    items = []
    nq = len(QUICK_CFGS)
    cfgs = QUICK_CFGS if tier == "quick" else thorough_cfgs()
    for si, (fam, model) in enumerate(sk):
        for di, d in enumerate(ds):
            for ci, cfg in enumerate(cfgs):
                if tier == "thorough" and ci < nq:
                    modes = MODES
                else:
                    modes = [MODES[(si + di + ci) % len(MODES)]]
                for mode in modes:
                    items.append(("q", si, fam, d, mode, cfg))
    ident = [("i", d) for d in all_dialects()]
    return sk, items, ident


# ---------------------------------------------------------------------------------------------------
# the checks on the result tree
_CLAUSE_NODES = (exp.Order, exp.Group, exp.Having, exp.Qualify, exp.Distinct)


def _query_of(node):
    """nearest enclosing SELECT / set operation, and whether an ORDER/GROUP/HAVING/... node lies in between"""
    in_clause = False
    p = node.parent
    while p is not None:
        if isinstance(p, (exp.Select, exp.SetOperation)):
            return p, in_clause
        if isinstance(p, _CLAUSE_NODES):
            in_clause = True
        p = p.parent
    return None, in_clause


def _local_sources(q):
    if not isinstance(q, exp.Select):
        return []
    items = []
    f = q.args.get("from_")
    if f is not None:
        items.append(f.this)
    for j in q.args.get("joins") or []:
        items.append(j.this)
    return [it.alias_or_name for it in items]


def _outer_query(q):
    """the query whose sources q may reference (q is nested as an expression subquery), else None"""
    prev, p = q, q.parent
    while p is not None:
        if isinstance(p, (exp.CTE, exp.With, exp.From)):
            return None
        if isinstance(p, exp.Join) and prev.arg_key != "on":
            return None
        if isinstance(p, exp.Select):
            return p
        prev, p = p, p.parent
    return None


def visible_sources(column):
    q, _ = _query_of(column)
    names = []
    while q is not None:
        names.extend(_local_sources(q))
        q = _outer_query(q)
    return names


def _is_star_projection(p):
    return isinstance(p, exp.Star) or (isinstance(p, exp.Column) and isinstance(p.this, exp.Star))


def _sqlglot_call(f):
    """('ok', value) | ('optimize', exc) | ('sqlglot', exc) | ('other', exc)"""
    try:
        return "ok", f()
    except E.OptimizeError as e:
        return "optimize", e
    except E.SqlglotError as e:
        return "sqlglot", e
    except RecursionError:
        raise
    except Exception as e:  # data: an exception raised by sqlglot that belongs to another property
        return "other", e


def check_sql(sql, dialect, schema, expected, alt_expected, top_star, fam, all_known=True):
    """-> (status, [(clause, what)], n_qualify_calls, n_normalize_calls)"""
    viol = []
    kd = key_dialect(dialect)

    def V(clause, what):
        viol.append((f"c10:{clause}:{kd}:{fam}", what))

    st, tree = _sqlglot_call(lambda: sqlglot.parse_one(sql, read=dialect or None))
    if st != "ok":
        return "unparsed", viol, 0, 0

    # ---- (f) normalisation on the parsed tree
    n_norm = 0
    before = [(i.this, bool(i.args.get("quoted"))) for i in tree.find_all(exp.Identifier)]
    st1, t1 = _sqlglot_call(lambda: normalize_identifiers(tree.copy(), dialect=dialect or None))
    if st1 == "ok":
        n_norm += 1
        after = [(i.this, bool(i.args.get("quoted"))) for i in t1.find_all(exp.Identifier)]
        sql1 = t1.sql(dialect or None)
        st2, t2 = _sqlglot_call(lambda: normalize_identifiers(t1.copy(), dialect=dialect or None))
        n_norm += 1
        if st2 != "ok":
            V("normalize-idempotence", f"second normalize_identifiers raised {type(t2).__name__}: {str(t2)[:80]}")
        elif not (t2 == t1) or t2.sql(dialect or None) != sql1:
            V("normalize-idempotence", f"normalize twice differs from once: {sql1[:70]!r} vs {t2.sql(dialect or None)[:70]!r}")
        strategy, ascii_only, override = dialect_info(dialect)[:3]
        if len(before) != len(after):
            V("normalize-case-sensitive", f"normalize_identifiers changed the number of identifiers {len(before)} -> {len(after)}")
        else:
            for (bt, bq), (at, aq) in zip(before, after):
                bad = _ident_verdict(bt, bq, at, aq, strategy, ascii_only, override)
                if bad:
                    V("normalize-case-sensitive", f"identifier ({bt!r}, quoted={bq}) -> ({at!r}, quoted={aq}): {bad}")
                    break

    # ---- qualify
    st, r = _sqlglot_call(lambda: qualify(tree.copy(), schema=schema, dialect=dialect or None))
    if st == "optimize":
        return "rejected", viol, 1, n_norm
    if st == "sqlglot":
        return "rejected-other:" + type(r).__name__, viol, 1, n_norm
    if st == "other":
        return "skipped:" + type(r).__name__, viol, 1, n_norm
    rsql = r.sql(dialect or None)

    # (a)
    for node in r.find_all(exp.Table, exp.Subquery):
        if isinstance(node.parent, (exp.From, exp.Join)) and node.arg_key == "this":
            if isinstance(node, exp.Table) and not isinstance(node.this, exp.Identifier):
                continue  # table-valued function etc.
            if not node.alias:
                V("table-alias", f"{type(node).__name__} {node.sql(dialect or None)[:40]!r} has no alias in {rsql[:120]!r}")
                break

    # (b)
    seen_b = set()
    for c in r.find_all(exp.Column):
        if isinstance(c.this, exp.Star):
            continue
        if c.arg_key in ("except_", "rename") and isinstance(c.parent, exp.Star):
            continue  # a name in the EXCEPT list of a star that was left alone (unknown source), not a column reference
        q, in_clause = _query_of(c)
        if not c.table:
            names = q.named_selects if q is not None else []
            if not (in_clause and c.name in names):
                if "u" not in seen_b:
                    seen_b.add("u")
                    V("column-unqualified", f"column {c.sql(dialect or None)!r} is unqualified and is not an ORDER BY/GROUP BY/HAVING reference to an output name in {rsql[:120]!r}")
        else:
            vis = visible_sources(c)
            if c.table not in vis:
                if "v" not in seen_b:
                    seen_b.add("v")
                    V("column-source-not-visible", f"column {c.sql(dialect or None)!r}: source {c.table!r} is not among the visible sources {vis} in {rsql[:120]!r}")

    # (c) / (d)
    names_bad = False
    names_clause = "star-expansion" if top_star else "output-names"
    left = None
    if all_known:
        for s in r.find_all(exp.Select):
            for p in s.expressions:
                if _is_star_projection(p):
                    left = p
    if left is not None:
        V("star-expansion", f"star {left.sql(dialect or None)!r} remains although every source is a table of the schema: {rsql[:120]!r}")
    elif expected is not None:
        got = list(r.named_selects)
        ok = any(
            e is not None and len(e) == len(got) and all(x is None or x == g for x, g in zip(e, got))
            for e in (expected, alt_expected)
        )
        if not ok:
            names_bad = True
            V(names_clause, f"output names {got} != expected {expected}" + (f" (or {alt_expected})" if alt_expected and alt_expected != expected else ""))

    # (e)
    st2, r2 = _sqlglot_call(lambda: qualify(r.copy(), schema=schema, dialect=dialect or None))
    if st2 in ("optimize", "sqlglot"):
        V("idempotence", f"qualify(qualify(q)) raised {type(r2).__name__}: {str(r2)[:80]!r} on {rsql[:100]!r}")
    elif st2 == "ok":
        r2sql = r2.sql(dialect or None)
        if r2sql != rsql:
            V("idempotence", f"qualify twice differs: {rsql[:110]!r} -> {r2sql[:110]!r}")
        elif not (r2 == r):
            V("idempotence", f"qualify twice gives the same text but a different tree: {rsql[:110]!r}")
    # (f) the same with identify=False: names that need quotes to keep their spelling must still get them, so that the result
    # denotes the same columns (same output names; qualifying it again neither fails nor changes it)
    stf, rf = _sqlglot_call(lambda: qualify(tree.copy(), schema=schema, dialect=dialect or None, identify=False))
    if stf == "ok":
        rfsql = rf.sql(dialect or None)
        if expected is not None and left is None and not names_bad:  # (a defect of the default run is not repeated)
            gotf = list(rf.named_selects)
            okf = any(e is not None and len(e) == len(gotf) and all(x is None or x == g for x, g in zip(e, gotf)) for e in (expected, alt_expected))
            if not okf:
                V(names_clause + "-unquoted", f"identify=False: output names {gotf} != expected {expected}")
        stf2, rf2 = _sqlglot_call(lambda: qualify(rf.copy(), schema=schema, dialect=dialect or None, identify=False))
        if stf2 in ("optimize", "sqlglot"):
            V("idempotence-unquoted", f"identify=False: qualify(qualify(q)) raised {type(rf2).__name__}: {str(rf2)[:80]!r} on {rfsql[:100]!r}")
        elif stf2 == "ok" and rf2.sql(dialect or None) != rfsql:
            V("idempotence-unquoted", f"identify=False: qualify twice differs: {rfsql[:110]!r} -> {rf2.sql(dialect or None)[:110]!r}")
    return "accepted", viol, 3, n_norm


def _ident_verdict(bt, bq, at, aq, strategy, ascii_only, override):
    """None when (bt,bq)->(at,aq) is permitted by the documented rules, else a description"""
    if aq != bq:
        return "the quoted flag changed"
    case_sensitive = strategy == "CASE_SENSITIVE" or (bq and strategy in ("LOWERCASE", "UPPERCASE"))
    if case_sensitive:
        return None if at == bt else f"case-sensitive under {strategy} but altered"
    if override:
        if at in (bt, _ascii_lower(bt), bt.lower(), _ascii_upper(bt), bt.upper()):
            return None
        return "result is neither the input nor a case-folding of it"
    want = fold_with(bt, bq, strategy, ascii_only)
    return None if at == want else f"expected {want!r} under {strategy}{' (ASCII only)' if ascii_only else ''}"


# ---------------------------------------------------------------------------------------------------
# stand-alone identifiers
IDENT_NAMES = sorted(
    {spell(s, w)[0] for s in SCHEMES + ("nonascii2",) for w in ("tt", "ca", "dd", "xa")}
    | {"ABC", "abc", "aBc", "a b", "A B", "Straße", "İx", "ǅx", "é", "É", "_x1", "X_1", "1x", ""}
)


def ident_cases(dname):
    out = []
    for strat in (None,) + ALL_STRATEGIES:
        full = dname if strat is None else f"{dname}, normalization_strategy={strat.lower()}"
        for name in IDENT_NAMES:
            for quoted in (False, True):
                out.append((full, name, quoted))
    return out


def check_ident(full, name, quoted):
    strategy, ascii_only, override = dialect_info(full)[:3]
    kd = key_dialect(full)
    d = Dialect.get_or_raise(full or None)
    viol = []
    st, i1 = _sqlglot_call(lambda: d.normalize_identifier(exp.Identifier(this=name, quoted=quoted)))
    if st != "ok":
        return [(f"c10:normalize-case-sensitive:{kd}:ident", f"normalize_identifier raised {type(i1).__name__}: {str(i1)[:80]}")], 1
    a1 = (i1.this, bool(i1.args.get("quoted")))
    bad = _ident_verdict(name, quoted, a1[0], a1[1], strategy, ascii_only, override)
    if bad:
        viol.append((f"c10:normalize-case-sensitive:{kd}:ident", f"({name!r}, quoted={quoted}) -> {a1}: {bad}"))
    st, i2 = _sqlglot_call(lambda: d.normalize_identifier(exp.Identifier(this=a1[0], quoted=a1[1])))
    a2 = (i2.this, bool(i2.args.get("quoted"))) if st == "ok" else ("<raised>", None)
    if a2 != a1:
        viol.append((f"c10:normalize-idempotence:{kd}:ident", f"({name!r}, quoted={quoted}) -> {a1} -> {a2}"))
    return viol, 2


# ---------------------------------------------------------------------------------------------------
# workers
_SK = None


def _skeletons_cached():
    global _SK
    if _SK is None:
        _SK = skeletons()
    return _SK


def build_input(si, fam, dialect, mode, cfg):
    model = _skeletons_cached()[si][1]
    cx = Ctx(dialect, mode, cfg)
    sql = r_query(model, cx)
    schema = cx.schema()

    def names(order):
        e = expected_names(model, cx, None, order)
        return None if e is None else [None if p is None else fold(p, dialect) for p in e]

    expected = names("std")
    alt = names("inplace") if has_using_star(model) else expected
    top = has_top_star(model)
    raw = None
    if not top:
        e = expected_names(model, cx, None, "std")
        raw = None if e is None else [None if p is None else p[0] for p in e]
    return {
        "kind": "qualify", "sql": sql, "dialect": dialect, "schema": schema, "expected_names": expected,
        "alt_expected_names": alt, "top_star": top, "all_tables_known": all(cx.known_table(l) for l in model_tables(model)), "family": fam, "skeleton": si, "mode": list(mode), "spelling": list(cfg),
        "_raw": raw,
    }


def _quiet():
    # generator warnings ("Named columns are not supported in table alias.") are not part of this contract
    logging.getLogger("sqlglot").setLevel(logging.CRITICAL)


def check_item(item):
    _quiet()
    if item[0] == "i":
        res = []
        n = 0
        for full, name, quoted in ident_cases(item[1]):
            vs, k = check_ident(full, name, quoted)
            n += k
            for key, what in vs:
                res.append((key, what, {"kind": "ident", "dialect": full, "name": name, "quoted": quoted}))
        return ("ident", res, 0, 0, n, len(ident_cases(item[1])))
    _, si, fam, d, mode, cfg = item
    inp = build_input(si, fam, d, mode, cfg)
    raw = inp.pop("_raw")
    if raw is not None:
        # harness self-check: the names this module believes the query writes are the names the parser sees
        try:
            t = sqlglot.parse_one(inp["sql"], read=d or None)
        except E.SqlglotError:
            t = None
        if t is not None:
            seen = t.named_selects
            want = [x for x in raw]
            if len(seen) != len(want) or any(w is not None and w != s for w, s in zip(want, seen)):
                raise AssertionError(f"c10 generator/evaluator disagreement: {inp['sql']!r} [{d}] parser names {seen} vs model {want}")
    status, viol, nq, nn = check_sql(inp["sql"], d, inp["schema"], inp["expected_names"], inp["alt_expected_names"], inp["top_star"], fam, inp["all_tables_known"])
    return (status, [(k, w, inp) for k, w in viol], nq, nn, 0, 1 if inp["expected_names"] is not None else 0)


# ---------------------------------------------------------------------------------------------------
EXPLICIT = [
    ("pseudocolumn-named-column", "SELECT * FROM emp", "snowflake", {"emp": {"id": "int", "level": "int", "name": "text"}}, ["ID", "LEVEL", "NAME"]),
    ("pseudocolumn-named-column", "SELECT emp.* FROM emp", "snowflake", {"emp": {"id": "int", "level": "int", "name": "text"}}, ["ID", "LEVEL", "NAME"]),
    ("pseudocolumn-named-column", "WITH c AS (SELECT * FROM emp) SELECT * FROM c", "snowflake", {"emp": {"id": "int", "level": "int"}}, ["ID", "LEVEL"]),
    ("pseudocolumn-named-column", "SELECT * FROM audit_log", "oracle", {"audit_log": {"object_id": "int", "action": "text"}}, ["OBJECT_ID", "ACTION"]),
    ("pseudocolumn-named-column", "SELECT * FROM t", "postgres", {"t": {"level": "int", "rowid": "int", "a": "int"}}, ["level", "rowid", "a"]),
]


def run(tier, seed):
    sk, items, ident = items_for(tier)
    work = items + ident
    order = list(range(len(work)))
    if seed:
        import random

        random.Random(seed).shuffle(order)
    else:
        order.sort(key=lambda i: (i * 2654435761) & 0xFFFFFFFF)
    work = [work[i] for i in order]
    res = harness.pool_map(check_item, work)

    status, by_key, counts = {}, {}, {}
    calls = {"sqlglot.optimizer.qualify.qualify": 0, "sqlglot.optimizer.normalize_identifiers.normalize_identifiers": 0, "Dialect.normalize_identifier": 0}
    evals = nontrivial = ident_evals = names_checked = 0
    fam_status = {}
    for item, (st, viol, nq, nn, ni, extra) in zip(work, res):
        calls["sqlglot.optimizer.qualify.qualify"] += nq
        calls["sqlglot.optimizer.normalize_identifiers.normalize_identifiers"] += nn
        calls["Dialect.normalize_identifier"] += ni
        if st == "ident":
            ident_evals += extra
        else:
            status[st] = status.get(st, 0) + 1
            fs = fam_status.setdefault(item[2], {})
            short = st.split(":")[0]
            fs[short] = fs.get(short, 0) + 1
            if st != "unparsed":
                evals += 1
            if st == "accepted":
                nontrivial += 1
                names_checked += extra
        for key, what, inp in viol:
            counts[key] = counts.get(key, 0) + 1
            lst = by_key.setdefault(key, [])
            size = len(inp.get("sql", inp.get("name", "")))
            simple = 0 if inp.get("kind") == "ident" else (SCHEMES.index(inp["spelling"][0]) if inp["spelling"][0] in SCHEMES else 9) + sum(a != b for a, b in zip(inp["spelling"][::2], inp["spelling"][1::2])) * 10 + inp["mode"][0]
            lst.append((simple, size, str(inp.get("sql", inp.get("name"))), inp.get("dialect", ""), what, inp))
            lst.sort(key=lambda x: x[:4])
            del lst[3:]
    # explicit statements over schemas of their own: columns named like a dialect's pseudocolumns are ordinary columns of the
    # schema (expected names are written in the dialect's normal form)
    for fam, sql, d, schema, expected in EXPLICIT:
        st, viol, nq, nn = check_sql(sql, d, schema, list(expected), None, True, fam, True)
        calls["sqlglot.optimizer.qualify.qualify"] += nq
        evals += st != "unparsed"
        for key, what in viol:
            inp = {"kind": "qualify", "sql": sql, "dialect": d, "schema": schema, "expected_names": list(expected), "alt_expected_names": None,
                   "top_star": True, "all_tables_known": True, "family": fam, "mode": [0, "explicit"], "spelling": ["lower"] * 4}
            counts[key] = counts.get(key, 0) + 1
            by_key.setdefault(key, []).append((0, len(sql), sql, d, what, inp))
    violations = []
    for key in sorted(by_key):
        for _, _, _, _, what, inp in by_key[key][:3]:
            violations.append({"key": key, "what": what, "input": inp, "count": counts[key]})
    ds = qualify_dialects()
    return {
        "evaluations": evals + ident_evals,
        "distinct_nontrivial": nontrivial,
        "rule": "a (query, schema, dialect) triple counts when qualify RETURNED (clauses a,b,e and the normalisation clauses are then all evaluated; "
        "c/d additionally need every star to range over tables known under the dialect's rules: names_checked); rejected triples only exercise the OptimizeError branch",
        "bound": f"tier={tier}: {len(sk)} skeletons x {len(ds)} dialects {ds} x spelling configurations ({len(QUICK_CFGS)} quick / {len(thorough_cfgs())} thorough) x schema depth/reference mode "
        f"(quick: one of {len(MODES)} by rotation; thorough: all {len(MODES)} for the quick configurations, rotation for the rest); nesting <= 2; "
        f"stand-alone identifiers: {len(all_dialects())} dialects x (default + 5 strategies) x {len(IDENT_NAMES)} names x quoted/unquoted",
        "exhaustive": True,
        "inputs": len(items),
        "status": dict(sorted(status.items())),
        "status_by_family": {k: fam_status[k] for k in sorted(fam_status)},
        "names_checked": names_checked,
        "ident_evaluations": ident_evals,
        "samples": [build_input(*items[i][1:])["sql"] + "  [" + items[i][3] + "]" for i in (0, len(items) // 3, len(items) // 2, len(items) - 1)],
        "violations": violations,
        "violation_counts": dict(sorted(counts.items())),
        "contract_evaluations": calls,
    }


def replay(entry):
    _quiet()
    inp = entry["input"]
    if inp.get("kind") == "ident":
        viol, _ = check_ident(inp["dialect"], inp["name"], inp["quoted"])
        keys = [k for k, _ in viol]
        whats = [w for _, w in viol]
    else:
        status, viol, _, _ = check_sql(inp["sql"], inp["dialect"], inp["schema"], inp.get("expected_names"), inp.get("alt_expected_names"),
                                       inp.get("top_star", False), inp["family"], inp.get("all_tables_known", True))
        keys = [k for k, _ in viol]
        whats = [w for _, w in viol] or [f"contract holds (status {status})"]
    return {"violated": entry["key"] in keys, "observed": "; ".join(f"{k} [{w}]" for k, w in zip(keys, whats)) if keys else whats[0] if whats else "contract holds", "keys": keys}


if __name__ == "__main__":
    harness.main(run, replay)
