"""C04 -- quoting is closed: a value can never terminate its own quoting and become SQL.

Bounded (tier B) run-time contract check of the REAL sqlglot functions (generator literal / identifier /
comment emission, the dialect tokenizers, the parsers, the builder API).  Never counted as proved.

Contracts (evaluated for every dialect d of corpus.dialects(), '' = base dialect, key name "base"):

 (a) string      sql = <literal node holding v>.sql(dialect=d[, pretty=True]);  Dialect(d).tokenize(sql) is
                 exactly ONE token, of the string token type the real generator emits for that literal kind,
                 with .text == v; and sqlglot.parse(sql, read=d) is one string-literal node with .this == v.
                 literal kinds: plain    exp.Literal.string(v)   -> Generator.literal_sql    -> STRING
                                national exp.National(this=v)    -> Generator.national_sql   -> NATIONAL_STRING
                                         (STRING where the generator's TRANSFORMS drop the N prefix: hive family,
                                          singlestore -- both token types are accepted, count must still be 1)
                                raw      exp.RawString(this=v)   -> Generator.rawstring_sql  -> STRING
                                byte     exp.ByteString(this=v)  -> Generator.bytestring_sql -> BYTE_STRING if the
                                         dialect has a BYTE_START, else STRING (falls back to a plain literal);
                                         *not constructible* where bytestring_sql calls unsupported() and returns ''
                                         (decided on the benign value 'a').
 (b) identifier  exp.to_identifier(v, quoted=True).sql(dialect=d) lexes to exactly one IDENTIFIER token, text == v.
                 Also  exp.Identifier(this=v, quoted=False).sql(dialect=d, identify=True)  (must be IDENTIFIER v) and
                 exp.to_identifier(v).sql(dialect=d)  (auto quoting: IDENTIFIER v, or -- only when v matches
                 exp.SAFE_IDENTIFIER_RE, i.e. the builder legitimately leaves it bare -- one word token whose text
                 equals v case-insensitively).  v == '': a rejection (exception) is not flagged, SQL that lexes to
                 something else is.
 (c) comment     tree = parse_one("SELECT a FROM t"); comment text v attached to the Select / the Column / the Table
                 (and to all three at once); generated with comments=True, pretty False/True, tokenized in d: the
                 (token_type, text) sequence equals that of the same tree generated without comments.
 (d) builder     select(Literal.string(v)).from_("t").where(column("c").eq(v)).sql(dialect=d) parses back (read=d) to
                 ONE statement whose string literals are exactly [v, v] and whose node-type sequence equals that of
                 the benign instance v='a' in the same dialect.

Applicability (a function of the dialect only, decided on the benign value 'a', never on a failing input): the
parse-level contracts are applied to a dialect only if the benign instance of the same shape reads back in it (DAX /
PRQL have parsers for a different input language than the SQL their base generator emits); listed in
result["not_applicable"].

One defect = one key.  Failures that are mechanically implied by an already recorded failure on the SAME input are
tallied in result["implied_failures"] instead of being keyed again:
   * parse-level failure when the token-level contract already fails on the same SQL text,
   * pretty=True failure of the same kind as the pretty=False failure,
   * national / raw / byte literal failing on a v on which the plain literal fails the same way (national_sql,
     rawstring_sql and bytestring_sql all funnel into escape_str / _replace_line_breaks; the tally distinguishes
     whether the SQL was literally <alnum prefix> + the plain literal's SQL),
   * identifier variant that generates the same SQL text as the quoted variant,
   * builder failure for a v whose plain string literal already violates (a).

Violation keys:  c04:<kind>:<dialect>:<variant>.<how>.<trigger>
   how     = how the contract fails (TokenError, value-changed, extra-tokens, no-tokens, token-type, parse-..., ...)
   trigger = character classes of a 1-minimal input (single character deletions / replacement of a special character
             by 'a') that still violates the same contract variant -- a function of the defect, not of the particular
             input that exposed it.
"""
import itertools
import logging
import random
import time

from bounded import harness  # noqa: F401  (puts /repo on sys.path)
from bounded import corpus

import sqlglot
from sqlglot import exp
from sqlglot.dialects.dialect import Dialect
from sqlglot.errors import SqlglotError, TokenError
from sqlglot.generator import Generator

# ---------------------------------------------------------------------------------------------------
# alphabets, mechanically from the real tokenizer tables

FIXED = ["\\", "\n", "\r", "\0", "$", "[", "]", "{", "}", "-", "/", "*", "#", "@", "a", "1", " ", "\U0001F600"]
PLAIN = {"a", "1", " "}

CHAR_NAMES = {
    "'": "squote", '"': "dquote", "`": "backtick", "\\": "backslash", "\n": "LF", "\r": "CR", "\0": "NUL",
    "$": "dollar", "[": "bracket", "]": "bracket", "{": "brace", "}": "brace", "-": "dash", "/": "slash",
    "*": "star", "#": "hash", "@": "at", "%": "percent", "_": "underscore", "+": "plus", "&": "amp", "!": "bang",
    "\t": "TAB",
}


def _dname(d):
    return d or "base"


def _dialect(d):
    return Dialect.get_or_raise(d or None)


def _chars_of(items):
    out = []
    for it in items or []:
        parts = it if isinstance(it, (tuple, list)) else (it,)
        for p in parts:
            if p:
                out.extend(p)
    return out


def _uniq(seq):
    seen, out = set(), []
    for c in seq:
        if c and c not in seen:
            seen.add(c)
            out.append(c)
    return out


_ALPHA = {}


def alphabets(d):
    """(full, core, comment_core, wide) alphabets of dialect d, as ordered lists of single characters.

    full  = every character of QUOTES, IDENTIFIERS, STRING_ESCAPES, IDENTIFIER_ESCAPES, BYTE_STRING_ESCAPES,
            comment markers (COMMENTS, the derived _COMMENTS incl. jinja and HINT_START), the non-alphanumeric
            characters of format-string delimiters, first characters of the keys and of the values of the dialect's
            UNESCAPED_SEQUENCES, plus FIXED.
    wide  = full plus the dialect's ESCAPE_FOLLOW_CHARS (mysql family: 0 b n r t Z % _); used for lengths <= WIDE_MAX
            and for the pseudo-random sample.
    core  = characters of QUOTES, IDENTIFIERS and the three escape tables, plus backslash, LF and 'a'.
    ccore = comment-marker characters plus LF, CR, backslash, space and 'a'.
    """
    if d in _ALPHA:
        return _ALPHA[d]
    D = _dialect(d)
    T = D.tokenizer_class
    quoting = (
        _chars_of(T.QUOTES)
        + _chars_of(T.IDENTIFIERS)
        + _chars_of(T.STRING_ESCAPES)
        + _chars_of(T.IDENTIFIER_ESCAPES)
        + _chars_of(getattr(T, "BYTE_STRING_ESCAPES", []))
    )
    comment_marks = _chars_of(T.COMMENTS) + _chars_of(list(T._COMMENTS.items())) + list(T.HINT_START or "")
    fmt = [c for c in _chars_of([(k, e) for k, (e, _t) in T._FORMAT_STRINGS.items()]) if not c.isalnum()]
    unesc = []
    for k, v in (D.UNESCAPED_SEQUENCES or {}).items():
        unesc.append(k[:1])
        unesc.append(v[:1])
    full = _uniq(quoting + comment_marks + fmt + unesc + FIXED)
    wide = _uniq(full + _chars_of(T.ESCAPE_FOLLOW_CHARS))
    core = _uniq(quoting + ["\\", "\n", "a"])
    ccore = _uniq(comment_marks + ["\n", "\r", "\\", " ", "a"])
    _ALPHA[d] = (full, core, ccore, wide)
    return _ALPHA[d]


# code points written as escapes on purpose (several are invisible)
UNICODE_SPECIALS = [chr(cp) for cp in (
    0x00A0, 0x0085, 0x2028, 0x2029, 0xFEFF, 0x200B, 0x02BC, 0x2019, 0xFF07, 0xFF3C, 0xFF02,
    0x0130, 0x00DF, 0xFB01, 0x0301, 0x202E, 0x001C, 0x001F, 0x007F, 0x3000, 0xD7FF, 0xE000, 0xFFFF,
    0x10FFFF,
)]


def notable_strings():
    """fixed hand-picked strings (same for every dialect): the generator's line-break sentinel (read from the real
    Generator class), Unicode look-alikes of quotes / backslash, Unicode white space, case-folding oddities."""
    s = Generator.SENTINEL_LINE_BREAK
    out = [s, "a" + s + "b", s + "'", "\n" + s]
    for u in UNICODE_SPECIALS:
        out += [u, "a" + u + "b", u + "'", "'" + u, u + "\\", u + "*/", "/*" + u]
    return out


def sample_strings(d, n=300):
    """n fixed pseudo-random longer strings (length 6..20) over the full alphabet plus arbitrary Unicode."""
    _full, _core, _cc, full = alphabets(d)  # the wide alphabet
    rnd = random.Random(0xC04 * 1000 + corpus.dialects().index(d))
    out = []
    for _ in range(n):
        ln = rnd.randint(6, 20)
        cs = []
        for _ in range(ln):
            r = rnd.random()
            if r < 0.70:
                cs.append(rnd.choice(full))
            elif r < 0.80:
                cs.append(rnd.choice(UNICODE_SPECIALS))
            else:
                while True:
                    cp = rnd.choice((rnd.randrange(0x20, 0x250), rnd.randrange(0, 0x10000), rnd.randrange(0x10000, 0x110000)))
                    if not 0xD800 <= cp <= 0xDFFF:
                        break
                cs.append(chr(cp))
        out.append("".join(cs))
    return out


def product_strings(alphabet, lo, hi):
    for ln in range(lo, hi + 1):
        for tup in itertools.product(alphabet, repeat=ln):
            yield "".join(tup)


# ---------------------------------------------------------------------------------------------------
# plumbing: what is data, what is a checker error


def _exc(prefix, e):
    return f"{prefix}{type(e).__name__}"


def _from_sqlglot(e):
    """an exception is *data* iff it was raised underneath a sqlglot frame (the harness passes no callbacks into
    sqlglot, so a traceback that touches /repo was raised by sqlglot); anything else is a checker error."""
    if isinstance(e, SqlglotError):
        return True
    return harness.repo_frame_key(e)[1] != "?"


def _guard(fn, *args, **kw):
    """-> (value, None) | (None, exception raised by sqlglot).  Harness errors propagate."""
    try:
        return fn(*args, **kw), None
    except Exception as e:  # noqa: BLE001 -- re-raised unless it comes from sqlglot
        if not _from_sqlglot(e):
            raise
        return None, e


def _toks(D, sql):
    return [(t.token_type.name, t.text) for t in D.tokenize(sql)]


def _tok_how(e):
    return "TokenError" if isinstance(e, TokenError) else _exc("tokenize-", e)


def _err(sql, e):
    return {"sql": sql, "error": str(e)[:200]}


# ---------------------------------------------------------------------------------------------------
# the contracts.  Every check returns None (holds / not applicable) or (how, observed: dict)

STRING_KINDS = ("plain", "national", "raw", "byte")


def make_literal(D, lk, v):
    if lk == "plain":
        return exp.Literal.string(v)
    if lk == "national":
        return exp.National(this=v)
    if lk == "raw":
        return exp.RawString(this=v)
    if lk == "byte":
        # same construction as parser.NUMERIC_PARSERS[BYTE_STRING]; avoids the CAST wrapper of bytestring_sql
        return exp.ByteString(this=v, is_bytes=D.BYTE_STRING_IS_BYTES_TYPE or None)
    raise AssertionError(lk)


def gen_string(d, lk, v, pretty):
    return make_literal(_dialect(d), lk, v).sql(dialect=d or None, pretty=pretty)


_CONSTRUCTIBLE = {}


def constructible(d, lk):
    """False iff the real generator emits nothing for the benign literal 'a' of this kind (bytestring_sql ->
    self.unsupported(...); return '').  Athena has to be decided this way: its generator delegates to Trino's."""
    k = (d, lk)
    if k not in _CONSTRUCTIBLE:
        _CONSTRUCTIBLE[k] = gen_string(d, lk, "a", False) != ""
    return _CONSTRUCTIBLE[k]


def expected_string_types(D, lk):
    if lk == "plain" or lk == "raw":
        return ("STRING",)
    if lk == "national":
        return ("NATIONAL_STRING", "STRING")
    if lk == "byte":
        return ("BYTE_STRING",) if D.BYTE_START else ("STRING",)
    raise AssertionError(lk)


PARSE_CLASSES = {
    "plain": (exp.Literal,),
    "national": (exp.National, exp.Literal),
    "raw": (exp.Literal, exp.RawString),
    "byte": (exp.ByteString, exp.Literal),
}


def check_string_tokens(d, lk, v, pretty, sql=None):
    D = _dialect(d)
    if sql is None:
        sql, e = _guard(gen_string, d, lk, v, pretty)
        if e is not None:
            return _exc("generate-", e), _err(None, e)
    toks, e = _guard(_toks, D, sql)
    if e is not None:
        return _tok_how(e), _err(sql, e)
    obs = {"sql": sql, "tokens": toks[:8]}
    if not toks:
        return "no-tokens", obs
    if len(toks) > 1:
        return "extra-tokens", obs
    ty, text = toks[0]
    if ty not in expected_string_types(D, lk):
        return "token-type", obs
    if text != v:
        return "value-changed", obs
    return None


def check_string_parse(d, lk, v, pretty, sql=None):
    if sql is None:
        sql, e = _guard(gen_string, d, lk, v, pretty)
        if e is not None:
            return None  # reported by the token-level contract
    stmts, e = _guard(sqlglot.parse, sql, read=d or None)
    if e is not None:
        return _exc("parse-", e), _err(sql, e)
    obs = {"sql": sql, "parsed": [repr(x)[:200] for x in stmts[:3]]}
    if len(stmts) != 1 or stmts[0] is None:
        return "parse-statement-count", obs
    node = stmts[0]
    if not isinstance(node, PARSE_CLASSES[lk]) or (isinstance(node, exp.Literal) and not node.is_string):
        return "parse-node-type", obs
    if node.this != v:
        return "parse-value-changed", obs
    return None


_PARSE_OK = {}


def string_parse_applicable(d, lk):
    """parse-level contract (a) is applied iff the benign literal 'a' of this kind reads back in d."""
    k = (d, lk)
    if k not in _PARSE_OK:
        _PARSE_OK[k] = check_string_parse(d, lk, "a", False) is None
    return _PARSE_OK[k]


IDENT_VARIANTS = ("quoted", "identify", "auto")


def gen_identifier(d, variant, v):
    if variant == "quoted":
        return exp.to_identifier(v, quoted=True).sql(dialect=d or None)
    if variant == "identify":
        return exp.Identifier(this=v, quoted=False).sql(dialect=d or None, identify=True)
    if variant == "auto":
        return exp.to_identifier(v).sql(dialect=d or None)
    raise AssertionError(variant)


_STRINGISH = {"STRING", "NATIONAL_STRING", "RAW_STRING", "BYTE_STRING", "HEREDOC_STRING", "UNICODE_STRING",
              "HEX_STRING", "BIT_STRING", "NUMBER"}


def check_identifier(d, variant, v, sql=None):
    D = _dialect(d)
    if sql is None:
        sql, e = _guard(gen_identifier, d, variant, v)
        if e is not None:
            if v == "":
                return None  # an empty name may legitimately be rejected
            return _exc("generate-", e), _err(None, e)
    toks, e = _guard(_toks, D, sql)
    if e is not None:
        if v == "":
            return None
        return _tok_how(e), _err(sql, e)
    obs = {"sql": sql, "tokens": toks[:8]}
    if not toks:
        return "no-tokens", obs
    if len(toks) > 1:
        return "extra-tokens", obs
    ty, text = toks[0]
    if ty == "IDENTIFIER":
        return None if text == v else ("value-changed", obs)
    # not a quoted-identifier token: only legitimate when the builder left a safe name bare
    bare_ok = variant == "auto" and bool(exp.SAFE_IDENTIFIER_RE.match(v))
    if not bare_ok or ty in _STRINGISH:
        return "token-type", obs
    if text != v and text.upper() != v.upper():
        return "value-changed", obs
    return None


_BASE_TREE = sqlglot.parse_one("SELECT a FROM t")
COMMENT_POSITIONS = ("select", "column", "table", "all")


_COMMENT_TREES = {}


def _comment_tree(position, v):
    """the tree with comment text v at `position`.  One private tree per position is reused: only the comment lists
    are rewritten (Expr.sql copies the tree before generating, so generation never sees a shared object)."""
    if position not in _COMMENT_TREES:
        tree = _BASE_TREE.copy()
        nodes = {"select": tree, "column": tree.find(exp.Column), "table": tree.find(exp.Table)}
        _COMMENT_TREES[position] = (tree, [n for name, n in nodes.items() if position in (name, "all")], nodes["column"])
    tree, targets, column = _COMMENT_TREES[position]
    for node in targets:
        node.comments = None
        if node is column:
            node.add_comments([v])  # the documented API
        else:
            node.comments = [v]
    return tree


def _gen_comment(d, position, pretty, v):
    return _comment_tree(position, v).sql(dialect=d or None, pretty=pretty, comments=True)


_REF_TOKENS = {}


def _reference_tokens(d, pretty):
    k = (d, pretty)
    if k not in _REF_TOKENS:
        D = _dialect(d)
        _REF_TOKENS[k] = _toks(D, _BASE_TREE.sql(dialect=d or None, pretty=pretty, comments=True))
    return _REF_TOKENS[k]


def check_comment(d, position, pretty, v):
    D = _dialect(d)
    ref = _reference_tokens(d, pretty)  # harness precondition: must not raise
    sql, e = _guard(_gen_comment, d, position, pretty, v)
    if e is not None:
        return _exc("generate-", e), _err(None, e)
    toks, e = _guard(_toks, D, sql)
    if e is not None:
        return _tok_how(e), _err(sql, e)
    if toks == ref:
        return None
    obs = {"sql": sql, "tokens": toks[:12], "expected_tokens": ref}
    if len(toks) > len(ref):
        return "extra-tokens", obs
    if len(toks) < len(ref):
        return "tokens-swallowed", obs
    return "tokens-changed", obs


BUILDER_VARIANTS = ("plain", "pretty-identify", "hosts", "hosts-pretty", "host:distinct-on", "host:ctas-union", "host:ctas-paren", "host:qualify",
                    "host:create-view-union")

# statements (as templates with the benign literal 'p') whose generation goes through a rewrite or an engine switch: DISTINCT ON /
# QUALIFY elimination name or re-parse projections, Athena picks a generator per statement kind
_HOST_TEMPLATES = {
    "host:distinct-on": "SELECT DISTINCT ON (a) 'p', b FROM t",
    "host:ctas-union": "CREATE TABLE x AS SELECT 'p' AS a UNION ALL SELECT 'p' AS a",
    "host:ctas-paren": "CREATE TABLE x AS (SELECT 'p' AS a)",
    "host:qualify": "SELECT 'p', c FROM t QUALIFY ROW_NUMBER() OVER (PARTITION BY c ORDER BY d) = 1",
    "host:create-view-union": "CREATE VIEW v AS SELECT 'p' AS a UNION ALL SELECT 'p' AS a",
}


def _build_template(variant, v):
    tree = sqlglot.parse_one(_HOST_TEMPLATES[variant], read="postgres" if variant == "host:distinct-on" else "duckdb" if variant == "host:qualify" else None)
    for lit in list(tree.find_all(exp.Literal)):
        if lit.is_string and lit.this == "p":
            lit.set("this", v)
    return tree


def _build(v):
    return sqlglot.select(exp.Literal.string(v)).from_("t").where(exp.column("c").eq(v))


def _build_hosts(v):
    """the literal below nodes whose generator methods lay out the literal's text themselves (INTERVAL, CAST, LIKE, a call)"""
    lit = lambda: exp.Literal.string(v)
    return sqlglot.select(
        exp.alias_(exp.Interval(this=lit(), unit=exp.var("DAY")), "i"),
        exp.alias_(exp.cast(lit(), "date"), "d"),
        exp.alias_(exp.column("c").like(lit()), "l"),
        exp.alias_(exp.func("f", lit(), exp.Interval(this=lit(), unit=exp.var("HOUR"))), "f"),
        exp.column("z_end"),
    ).from_("t")


def gen_builder(d, variant, v):
    if variant.startswith("host:"):
        return _build_template(variant, v).sql(dialect=d or None)
    if variant.startswith("hosts"):
        return _build_hosts(v).sql(dialect=d or None, pretty=variant == "hosts-pretty")
    opts = {"pretty": True, "identify": True} if variant == "pretty-identify" else {}
    return _build(v).sql(dialect=d or None, **opts)


def _hosts_observe(d, variant, v):
    """-> ('ok', (sql, [(type, text) of every token that is not a string token])) | (how, obs)"""
    sql, e = _guard(gen_builder, d, variant, v)
    if e is not None:
        return _exc("generate-", e), _err(None, e)
    toks, e = _guard(_toks, _dialect(d), sql)
    if e is not None:
        return _tok_how(e), _err(sql, e)
    if variant.startswith("host:"):
        # the rewrites behind these statements derive alias names from the value, so identifier TEXTS legitimately follow it:
        # the token kinds around the literals are those of the benign instance
        return "ok", (sql, ["NAME" if tt in ("VAR", "IDENTIFIER") else tt for tt, tx in toks if tt not in _STRINGISH])
    return "ok", (sql, [(tt, tx) for tt, tx in toks if tt not in _STRINGISH])


def _builder_observe(d, variant, v):
    """-> ('ok', (sql, literals, shape)) | (how, obs)"""
    sql, e = _guard(gen_builder, d, variant, v)
    if e is not None:
        return _exc("generate-", e), _err(None, e)
    stmts, e = _guard(sqlglot.parse, sql, read=d or None)
    if e is not None:
        return _exc("parse-", e), _err(sql, e)
    if len(stmts) != 1 or stmts[0] is None:
        return "statement-count", {"sql": sql, "parsed": [repr(x)[:120] for x in stmts[:4]]}
    st = stmts[0]
    lits = [n.this for n in st.find_all(exp.Literal) if n.is_string]
    shape = [type(n).__name__ for n in st.walk()]
    return "ok", (sql, lits, shape)


_BUILDER_BASE = {}


def builder_baseline(d, variant):
    """node-type sequence of the benign instance v='a', or None if the dialect cannot read back its own output for
    this statement shape (then contract (d) is not applicable to the dialect)."""
    k = (d, variant)
    if k not in _BUILDER_BASE and variant.startswith("host"):
        r = _hosts_observe(d, variant, "a")
        _BUILDER_BASE[k] = r[1][1] if r[0] == "ok" else None
    if k not in _BUILDER_BASE:
        r = _builder_observe(d, variant, "a")
        _BUILDER_BASE[k] = r[1][2] if r[0] == "ok" and r[1][1] == ["a", "a"] else None
    return _BUILDER_BASE[k]


def check_builder(d, variant, v):
    base = builder_baseline(d, variant)
    if base is None:
        return None
    if variant.startswith("host"):
        if v == "":
            return None  # an empty INTERVAL value is legitimately printed without its string (INTERVAL DAY): not an escape
        # the tokens around the literals are those of the benign instance: no value became SQL
        r = _hosts_observe(d, variant, v)
        if r[0] != "ok":
            return r
        sql, toks = r[1]
        if toks != base:
            return "surrounding-tokens-changed", {"sql": sql, "tokens": toks[:12]}
        return None
    r = _builder_observe(d, variant, v)
    if r[0] != "ok":
        return r
    sql, lits, shape = r[1]
    obs = {"sql": sql, "string_literals": lits[:6]}
    if lits != [v, v]:
        return ("literal-count" if len(lits) != 2 else "value-changed"), obs
    if shape != base:
        obs["shape"] = shape[:20]
        return "shape-changed", obs
    return None


# ---------------------------------------------------------------------------------------------------
# uniform dispatcher (used by the minimiser and by replay)


def evaluate(kind, d, variant, v):
    """variant: string -> (litkind, 'tokens'|'parse', pretty); identifier -> name; comment -> (position, pretty);
    builder -> name.   returns None or (how, obs)."""
    if kind == "string":
        lk, level, pretty = variant
        if not constructible(d, lk):
            return None
        if level == "tokens":
            return check_string_tokens(d, lk, v, pretty)
        if not string_parse_applicable(d, lk):
            return None
        return check_string_parse(d, lk, v, pretty)
    if kind == "identifier":
        return check_identifier(d, variant, v)
    if kind == "comment":
        position, pretty = variant
        return check_comment(d, position, pretty, v)
    if kind == "builder":
        return check_builder(d, variant, v)
    raise AssertionError(kind)


def minimise(kind, d, variant, v, how=None, neutralise=False):
    """1-minimal input violating the same contract variant (in the same way if `how`), under single character deletions
    and -- if neutralise -- replacement of a special character by the plain letter 'a'."""
    cur = v
    changed = True
    while changed and cur:
        changed = False
        cands = [cur[:i] + cur[i + 1 :] for i in range(len(cur))]
        if neutralise:
            cands += [cur[:i] + "a" + cur[i + 1 :] for i in range(len(cur)) if cur[i] not in PLAIN]
        for cand in cands:
            r = evaluate(kind, d, variant, cand)
            if r is not None and (how is None or r[0] == how):
                cur = cand
                changed = True
                break
    return cur


def trigger_class(v):
    if v == "":
        return "empty"
    names = set()
    if Generator.SENTINEL_LINE_BREAK in v:
        names.add("linebreak-sentinel")
        v = v.replace(Generator.SENTINEL_LINE_BREAK, "")
    for ch in v:
        if ch in CHAR_NAMES:
            names.add(CHAR_NAMES[ch])
        elif ch.isascii() and (ch.isalnum() or ch == " "):
            continue
        elif ord(ch) < 0x20 or ord(ch) == 0x7F:
            names.add("ctrl")
        elif ord(ch) > 0xFFFF:
            names.add("astral")
        elif ch.isspace():
            names.add("unicode-space")
        elif not ch.isascii():
            names.add("unicode")
        else:
            names.add("punct")
    return "+".join(sorted(names)) if names else "plain"


def variant_name(kind, variant, pretty_only):
    if kind == "string":
        lk, level, _pretty = variant
        base = lk if level == "tokens" else f"{lk}-parse"
    elif kind == "comment":
        base = variant[0]
    else:
        base = variant
    return base + ("-prettyonly" if pretty_only else "")


# ---------------------------------------------------------------------------------------------------
# bounded run

# tier -> parameters (maximal lengths).
#   str_all : full alphabet, every literal kind x pretty x (tokens, parse), every identifier variant
#   str_lite: full alphabet, plain literal x pretty x (tokens, parse); byte literal tokens (pretty=False) where the
#             dialect has delimited byte strings (BYTE_START); quoted identifier
#   str_min : full alphabet, plain literal tokens (pretty=False) + quoted identifier
#   str_core: core alphabet, as str_all
#   com_each: full alphabet, each comment position and all-at-once, pretty False/True
#   com_full: full alphabet, all positions at once, pretty=False
#   com_core: comment-marker alphabet, all positions at once, pretty False/True
#   bld_full / bld_core: builder variants over the full / core alphabet
WIDE_MAX = 2  # lengths <= WIDE_MAX enumerate the wide alphabet (full + ESCAPE_FOLLOW_CHARS)
PLAN = {
    "quick": dict(str_all=2, str_lite=3, str_min=3, str_core=4, com_each=2, com_full=3, com_core=3, bld_full=2, bld_core=3, shards=6),
    "thorough": dict(str_all=3, str_lite=3, str_min=4, str_core=5, com_each=3, com_full=3, com_core=4, bld_full=3, bld_core=4, shards=24),
}


def _inputs(phase, d, tier):
    """deterministic list of (v, mode) of a phase; mode selects which variants are evaluated on v."""
    p = PLAN[tier]
    full, core, ccore, wide = alphabets(d)
    assert set(core) <= set(full) and set(ccore) <= set(full) <= set(wide)

    def alpha(ln):
        return wide if ln <= WIDE_MAX else full

    extra = notable_strings() + sample_strings(d)
    out = []
    assert p["str_core"] >= max(p["str_all"], p["str_lite"], p["str_min"]) and p["com_core"] >= p["com_full"] >= p["com_each"]
    if phase == "str":
        core_set = set(core)
        for ln in range(0, max(p["str_all"], p["str_lite"], p["str_min"]) + 1):
            mode = "all" if ln <= p["str_all"] else "lite" if ln <= p["str_lite"] else "min"
            upgraded = p["str_all"] < ln <= p["str_core"]  # strings over the core alphabet get every variant
            out += [(v, "all" if upgraded and core_set.issuperset(v) else mode) for v in product_strings(alpha(ln), ln, ln)]
        for ln in range(max(p["str_all"], p["str_lite"], p["str_min"]) + 1, p["str_core"] + 1):
            out += [(v, "all") for v in product_strings(core, ln, ln)]
        out += [(v, "all") for v in extra]
    elif phase == "com":
        ccore_set = set(ccore)
        for ln in range(0, max(p["com_each"], p["com_full"]) + 1):
            mode = "each" if ln <= p["com_each"] else "all-plain"
            upgraded = p["com_each"] < ln <= p["com_core"]  # strings over the comment alphabet also get pretty=True
            out += [(v, "all-both" if upgraded and ccore_set.issuperset(v) else mode) for v in product_strings(alpha(ln), ln, ln)]
        for ln in range(max(p["com_each"], p["com_full"]) + 1, p["com_core"] + 1):
            out += [(v, "all-both") for v in product_strings(ccore, ln, ln)]
        out += [(v, "each") for v in extra]
    elif phase == "bld":
        for ln in range(0, p["bld_full"] + 1):
            out += [(v, "all") for v in product_strings(alpha(ln), ln, ln)]
        out += [(v, "all") for v in product_strings(core, p["bld_full"] + 1, p["bld_core"])]
        out += [(v, "all") for v in extra]
    else:
        raise AssertionError(phase)
    return out


PHASES = ("str", "com", "bld")

FUNC_OF_KIND = {
    "plain": "Generator.literal_sql -> Tokenizer.tokenize",
    "national": "Generator.national_sql -> Tokenizer.tokenize",
    "raw": "Generator.rawstring_sql -> Tokenizer.tokenize",
    "byte": "Generator.bytestring_sql -> Tokenizer.tokenize",
}


class _Acc:
    def __init__(self):
        self.evals = 0
        self.by_func = {}
        self.viol = {}  # key -> {"count": n, "examples": [entry,...]}
        self.implied = {}
        self.nontrivial = 0
        self.inputs = 0
        self.na = set()

    def count(self, func, n=1):
        self.evals += n
        self.by_func[func] = self.by_func.get(func, 0) + n

    def imply(self, kind, d, why):
        k = f"{kind}:{_dname(d)}:{why}"
        self.implied[k] = self.implied.get(k, 0) + 1

    def violation(self, kind, d, variant, v, how, obs, pretty_only=False):
        mv = minimise(kind, d, variant, v, how)  # minimal reproducer of this very failure
        tv = minimise(kind, d, variant, mv, neutralise=True)  # minimal input violating this contract variant at all
        key = f"c04:{kind}:{_dname(d)}:{variant_name(kind, variant, pretty_only)}.{how}.{trigger_class(tv)}"
        slot = self.viol.setdefault(key, {"count": 0, "examples": []})
        slot["count"] += 1
        entry = {
            "key": key,
            "what": f"{kind} contract fails in dialect {_dname(d)}: {how}; variant={variant}; minimal v={mv!r}",
            "input": {"kind": kind, "dialect": d, "variant": list(variant) if isinstance(variant, tuple) else variant, "v": v},
            "minimal_v": mv,
            "trigger_v": tv,
            "observed": obs,
        }
        slot["examples"].append(entry)
        slot["examples"].sort(key=_example_order)
        del slot["examples"][5:]


def _example_order(e):
    return (len(e["input"]["v"]), e["input"]["v"], str(e["input"]["variant"]))


def _is_nontrivial(v):
    return any(ch not in PLAIN for ch in v)


def _is_prefixed(sql, plain_sql):
    """sql == <alphanumeric prefix, possibly empty> + plain_sql"""
    if plain_sql is None or sql is None or not sql.endswith(plain_sql):
        return False
    prefix = sql[: len(sql) - len(plain_sql)]
    return prefix == "" or prefix.isalnum()


def _do_strings(acc, d, v, mode):
    if mode == "all":
        plan = [(lk, (False, True), ("tokens", "parse")) for lk in STRING_KINDS]
        ivs = IDENT_VARIANTS
    elif mode == "lite":
        plan = [("plain", (False, True), ("tokens", "parse"))]
        if _dialect(d).BYTE_START:  # bytestring_sql has its own escaping path only for a delimited byte string
            plan.append(("byte", (False,), ("tokens",)))
        ivs = ("quoted",)
    elif mode == "min":
        plan = [("plain", (False,), ("tokens",))]
        ivs = ("quoted",)
    else:
        raise AssertionError(mode)

    plain_state = {}  # pretty -> (sql, how of the plain literal's failure or None)
    for lk, pretties, levels in plan:
        if not constructible(d, lk):
            acc.na.add(f"string:{_dname(d)}:{lk}-not-constructible")
            continue
        if "parse" in levels and not string_parse_applicable(d, lk):
            acc.na.add(f"string:{_dname(d)}:{lk}-parse-baseline-unreadable")
            levels = ("tokens",)
        base_sql, base_res = None, {}
        for pretty in pretties:
            sql, gen_exc = _guard(gen_string, d, lk, v, pretty)
            res = {}
            for level in levels:
                acc.count(FUNC_OF_KIND[lk] if level == "tokens" else "Parser.parse(literal sql)")
                if gen_exc is not None:
                    r = (_exc("generate-", gen_exc), _err(None, gen_exc)) if level == "tokens" else None
                elif pretty and sql == base_sql:
                    r = base_res.get(level)  # identical SQL text => identical verdict (deterministic functions)
                elif level == "tokens":
                    r = check_string_tokens(d, lk, v, pretty, sql=sql)
                else:
                    r = check_string_parse(d, lk, v, pretty, sql=sql)
                res[level] = r
                if r is None:
                    continue
                if level == "parse" and res.get("tokens") is not None:
                    acc.imply("string", d, f"{lk}-parse-after-token-failure")
                    continue
                if pretty and base_res.get(level) is not None and base_res[level][0] == r[0]:
                    acc.imply("string", d, f"{lk}-pretty-same-as-plain")
                    continue
                if lk != "plain" and pretty in plain_state:
                    psql, phow = plain_state[pretty]
                    if phow == r[0]:
                        acc.imply("string", d, f"{lk}-fails-like-plain-literal" + ("-same-sql" if _is_prefixed(sql, psql) else ""))
                        continue
                acc.violation("string", d, (lk, level, pretty), v, r[0], r[1],
                              pretty_only=pretty and (False in pretties) and base_res.get(level) is None)
            if lk == "plain":
                t = res.get("tokens") or res.get("parse")
                plain_state[pretty] = (sql, t[0] if t else None)
            if not pretty:
                base_sql, base_res = sql, res

    quoted = None  # (sql, how)
    for iv in ivs:
        acc.count("Generator.identifier_sql -> Tokenizer.tokenize")
        sql, gen_exc = _guard(gen_identifier, d, iv, v)
        if gen_exc is not None:
            r = None if v == "" else (_exc("generate-", gen_exc), _err(None, gen_exc))
        else:
            r = check_identifier(d, iv, v, sql=sql)
        if iv == "quoted":
            quoted = (sql, r[0] if r else None)
        elif r is not None and quoted is not None and quoted[0] == sql and quoted[1] == r[0]:
            acc.imply("identifier", d, f"{iv}-same-sql-as-quoted")
            continue
        if r is not None:
            acc.violation("identifier", d, iv, v, r[0], r[1])


def _do_comments(acc, d, v, mode):
    if mode == "each":
        positions, pretties = COMMENT_POSITIONS, (False, True)
    elif mode == "all-plain":
        positions, pretties = ("all",), (False,)
    elif mode == "all-both":
        positions, pretties = ("all",), (False, True)
    else:
        raise AssertionError(mode)
    single = {}
    for pos in positions:
        first = None
        for pretty in pretties:
            acc.count("Generator.maybe_comment -> Tokenizer.tokenize")
            r = check_comment(d, pos, pretty, v)
            if not pretty:
                first = r
            if r is None:
                continue
            if pretty and first is not None and first[0] == r[0]:
                acc.imply("comment", d, "pretty-same-as-plain")
                continue
            if pos == "all" and any(h == r[0] for h in single.get(pretty, [])):
                acc.imply("comment", d, "all-positions-same-as-single-position")
                continue
            single.setdefault(pretty, []).append(r[0])
            acc.violation("comment", d, (pos, pretty), v, r[0], r[1],
                          pretty_only=pretty and (False in pretties) and first is None)


def _do_builder(acc, d, v, mode):
    for bv in BUILDER_VARIANTS:
        if builder_baseline(d, bv) is None:
            acc.na.add(f"builder:{_dname(d)}:{bv}-baseline-unreadable")
            continue
        acc.count("builder select/from_/where -> Generator.generate -> Parser.parse")
        r = check_builder(d, bv, v)
        if r is None:
            continue
        pretty = bv in ("pretty-identify", "hosts-pretty")
        root = check_string_tokens(d, "plain", v, pretty)
        if root is None and string_parse_applicable(d, "plain"):
            root = check_string_parse(d, "plain", v, pretty)
        if root is not None:
            acc.imply("builder", d, f"{bv}-{r[0]}-implied-by-string-{root[0]}")
            continue
        acc.violation("builder", d, bv, v, r[0], r[1])


def _work(task):
    phase, d, k, n, tier = task
    logging.getLogger("sqlglot").setLevel(logging.ERROR)
    acc = _Acc()
    t0 = time.process_time()
    inputs = _inputs(phase, d, tier)
    do = {"str": _do_strings, "com": _do_comments, "bld": _do_builder}[phase]
    for idx in range(k, len(inputs), n):
        v, mode = inputs[idx]
        acc.inputs += 1
        if _is_nontrivial(v):
            acc.nontrivial += 1
        do(acc, d, v, mode)
    return {
        "evals": acc.evals, "by_func": acc.by_func, "viol": acc.viol, "implied": acc.implied,
        "nontrivial": acc.nontrivial, "inputs": acc.inputs, "na": sorted(acc.na), "phase": phase, "dialect": d,
        "cpu": time.process_time() - t0,
    }


def _tasks(tier):
    n = PLAN[tier]["shards"]
    return [(phase, d, k, n, tier) for phase in PHASES for d in corpus.dialects() for k in range(n)]


# ---------------------------------------------------------------------------------------------------
# literal SEQUENCES: two literals printed by ONE generator in one statement.  Relative contract: each literal lexes to the
# same token as when it is generated alone (so the text produced for one literal cannot depend on what the same generator
# printed before it: shared escape tables, memoised escapes keyed too coarsely, ...).
SEQ_KINDS = ("plain", "national", "raw", "byte")
SEQ_CHARS = ["\\", "'", "\"", "a", "\n"]


def _seq_strings():
    out = list(SEQ_CHARS)
    out += [a + b for a in SEQ_CHARS for b in SEQ_CHARS]
    return out


def _seq_work(d):
    logging.getLogger("sqlglot").setLevel(logging.ERROR)
    D = _dialect(d)
    kinds = [lk for lk in SEQ_KINDS if constructible(d, lk)]
    strings = _seq_strings()
    alone = {}
    for lk in kinds:
        for v in strings:
            sql, e = _guard(gen_string, d, lk, v, False)
            toks = None
            if e is None:
                toks, e2 = _guard(_toks, D, sql)
                if e2 is not None or not toks or len(toks) != 1:
                    toks = None
            alone[(lk, v)] = toks[0] if toks else None
    evals = 0
    viol = {}
    for la in kinds:
        for lb in kinds:
            for va in strings:
                if alone[(la, va)] is None:
                    continue
                for vb in strings:
                    if alone[(lb, vb)] is None:
                        continue
                    evals += 1
                    tree = exp.Select(expressions=[make_literal(D, la, va), make_literal(D, lb, vb)])
                    sql, e = _guard(lambda: tree.sql(dialect=d or None))
                    how = None
                    if e is not None:
                        how = _exc("generate-", e)
                    else:
                        toks, e2 = _guard(_toks, D, sql)
                        if e2 is not None:
                            how = _tok_how(e2)
                        else:
                            lits = [t for t in toks if t[0] not in ("SELECT", "COMMA")]
                            if len(lits) != 2:
                                how = "token-count"
                            elif lits[0] != alone[(la, va)]:
                                how = "first-literal-differs-from-alone"
                            elif lits[1] != alone[(lb, vb)]:
                                how = "second-literal-differs-from-alone"
                    if how:
                        key = f"c04:sequence:{_dname(d)}:{la}-then-{lb}.{how}.{trigger_class(vb if 'second' in how else va)}"
                        slot = viol.setdefault(key, {"count": 0, "examples": []})
                        slot["count"] += 1
                        if len(slot["examples"]) < 3:
                            slot["examples"].append({"key": key, "what": f"two literals in one statement ({la} {va!r}, then {lb} {vb!r}) in dialect {_dname(d)}: {how}",
                                                     "input": {"kind": "sequence", "dialect": d, "variant": [la, lb], "v": [va, vb], "sql": sql if e is None else None}})
    return {"evals": evals, "viol": viol, "dialect": d}


def run(tier, seed):
    logging.getLogger("sqlglot").setLevel(logging.ERROR)
    tasks = _tasks(tier)
    order = list(range(len(tasks)))
    random.Random(seed).shuffle(order)  # order / scheduling only, never membership
    results = harness.pool_map(_work, [tasks[i] for i in order], chunksize=1)

    evals, nontrivial, inputs = 0, 0, 0
    by_func, viol, implied, na, per_phase = {}, {}, {}, set(), {}
    cpu = {}
    for r in results:
        cpu[r["phase"]] = cpu.get(r["phase"], 0.0) + r["cpu"]
        evals += r["evals"]
        nontrivial += r["nontrivial"]
        inputs += r["inputs"]
        na.update(r["na"])
        per_phase[r["phase"]] = per_phase.get(r["phase"], 0) + r["evals"]
        for f, c in r["by_func"].items():
            by_func[f] = by_func.get(f, 0) + c
        for f, c in r["implied"].items():
            implied[f] = implied.get(f, 0) + c
        for key, slot in r["viol"].items():
            s = viol.setdefault(key, {"count": 0, "examples": []})
            s["count"] += slot["count"]
            s["examples"] += slot["examples"]
    seq_results = harness.pool_map(_seq_work, corpus.dialects(), chunksize=1)
    seq_evals = 0
    for r in seq_results:
        seq_evals += r["evals"]
        for key, slot in r["viol"].items():
            s_ = viol.setdefault(key, {"count": 0, "examples": []})
            s_["count"] += slot["count"]
            s_["examples"] += slot["examples"]
    evals += seq_evals
    per_phase["seq"] = seq_evals
    by_func["Select-of-two-literals.sql+tokenize"] = seq_evals
    violations = []
    for key in sorted(viol):
        s = viol[key]
        for e in sorted(s["examples"], key=_example_order)[:5]:
            e = dict(e)
            e["count"] = s["count"]
            violations.append(e)

    p = PLAN[tier]
    sizes = {_dname(d): [len(a) for a in alphabets(d)] for d in corpus.dialects()}
    implied_summary = {}
    for k, c in implied.items():
        kind, dn, why = k.split(":", 2)
        slot = implied_summary.setdefault(f"{kind}:{why}", {"count": 0, "dialects": []})
        slot["count"] += c
        slot["dialects"].append(dn)
    for slot in implied_summary.values():
        slot["dialects"] = sorted(set(slot["dialects"]))
    bound = (
        f"per dialect ({len(corpus.dialects())} incl. base), all strings of length <= L over the dialect's mechanically "
        f"derived alphabets. strings/identifiers: L<={p['str_all']} full alphabet and L<={p['str_core']} core alphabet with "
        f"4 literal kinds x pretty x (tokens, parse) and 3 identifier variants; L<={p['str_lite']} full alphabet with plain "
        f"literal x pretty x (tokens, parse), byte literal tokens where BYTE_START, quoted identifier; L<={p['str_min']} full "
        f"alphabet with plain literal tokens + quoted identifier. comments: L<={p['com_each']} full alphabet at each of "
        f"select/column/table and all three, pretty False/True; L<={p['com_full']} full alphabet all three at once, "
        f"pretty=False; L<={p['com_core']} comment-marker alphabet all three at once, pretty False/True. builder (plain and "
        f"pretty+identify): L<={p['bld_full']} full, L<={p['bld_core']} core. plus {len(notable_strings())} fixed notable "
        f"strings and 300 fixed pseudo-random strings of length 6..20 per dialect in every phase (all variants). "
        f"lengths <= {WIDE_MAX} use the wide alphabet (full + ESCAPE_FOLLOW_CHARS). alphabet sizes [full, core, comment, wide] = {sizes}"
    )
    return {
        "evaluations": evals,
        "distinct_nontrivial": nontrivial,
        "distinct_inputs": inputs,
        "rule": "distinct (phase, dialect, v) inputs where v contains at least one character other than 'a', '1', ' ' "
                "(i.e. a delimiter / escape / comment marker / control / non-ASCII character reaches the real escaping code)",
        "bound": bound,
        "exhaustive": True,
        "samples": [repr(x) for x in (list(product_strings(alphabets("mysql")[3], 2, 2))[:6] + sample_strings("mysql")[:3])],
        "violations": violations,
        "distinct_violation_keys": len(viol),
        "violation_counts": {k: viol[k]["count"] for k in sorted(viol)},
        "implied_failures": dict(sorted(implied_summary.items())),
        "contract_evaluations": by_func,
        "evaluations_per_phase": per_phase,
        "worker_cpu_s_per_phase": {k: round(v, 1) for k, v in cpu.items()},
        "not_applicable": sorted(na),
    }


def replay(entry):
    logging.getLogger("sqlglot").setLevel(logging.ERROR)
    inp = entry["input"]
    if inp.get("kind") == "sequence":
        r = _seq_work(inp["dialect"])
        hit = entry["key"] in r["viol"]
        return {"violated": hit, "observed": "; ".join(sorted(r["viol"])) or "contract holds"}
    variant = inp["variant"]
    if isinstance(variant, list):
        variant = tuple(variant)
    r = evaluate(inp["kind"], inp["dialect"], variant, inp["v"])
    if r is None:
        return {"violated": False, "observed": "contract holds"}
    return {"violated": True, "observed": f"{r[0]}: {r[1]}"}


if __name__ == "__main__":
    harness.main(run, replay)
