"""Error funnel: raise_error / validate_expression / _try_parse / check_errors / concat_messages (C14, C05)."""
from pyvc.contract import contract, define, fields, uninterpreted
from contracts.parser_cursor import P, CURSOR

E = "sqlglot/errors.py"
uninterpreted("merged", 1)

define("errors_extended_by", "lambda p, n: len(p.errors) == old(len(p.errors)) + n and p.errors is old(p.errors)"
       " and forall(range(0, old(len(p.errors))), lambda i: p.errors[i] is old(p.errors[i]))")

contract(
    E, "concat_messages", props=["C14"],
    types={"errors": "list", "maximum": "int"},
    requires=["maximum >= 0"],
    ensures=[
        "result == str_join('\\n\\n', msg)",
        "len(msg) == min(len(errors), maximum) + ite(len(errors) > maximum, 1, 0)",
        "forall(range(0, min(len(errors), maximum)), lambda i: msg[i] == str_of(errors[i]))",
    ],
    modifies=[],
    ghost={"post_uses_final_locals": True, "post_locals": {"msg": "list"}},
    must_fail=["len(msg) == len(errors)"],
)

RAISE_ERROR_OPAQUE = {
    "Token.string": dict(returns="fresh:Token"),
    "highlight_sql": dict(returns="tuple:str,str,str,str"),
    "ParseError.new": dict(returns="fresh:ParseError"),
}

contract(
    P, "Parser.raise_error", props=["C14", "C05"],
    types={"message": "str", "token": "Token"},
    ensures=[
        "self.error_level is not ErrorLevel.IMMEDIATE",
        "errors_extended_by(self, 1)",
        "isinstance(self.errors[len(self.errors) - 1], ParseError)",
    ],
    raises={"ParseError": ["self.error_level is ErrorLevel.IMMEDIATE", "errors_extended_by(self, 0)"]},
    modifies=["self.errors[]"],
    opaque=RAISE_ERROR_OPAQUE,
    must_fail=["len(self.errors) == old(len(self.errors))"],
)

contract(
    P, "Parser.validate_expression", props=["C14"],
    types={"expression": "Expr", "args": "list|none"},
    requires=["self.max_nodes >= -1"],
    ensures=[
        "result is expression",
        # under IGNORE the only error that can be recorded is the node-budget one
        "implies(self.error_level is ErrorLevel.IGNORE and not (self.max_nodes > -1 and old(self._node_count) + 1 > self.max_nodes),"
        " errors_extended_by(self, 0))",
        "implies(self.error_level is ErrorLevel.IGNORE, len(self.errors) <= old(len(self.errors)) + 1)",
        "self.error_level is not ErrorLevel.IMMEDIATE or errors_extended_by(self, 0)",
        "len(self.errors) >= old(len(self.errors))",
    ],
    raises={"ParseError": ["self.error_level is ErrorLevel.IMMEDIATE"]},
    modifies=["self.errors[]", "self._node_count"],
    opaque={"expression.error_messages": dict(returns="list[str]")},
    loops={0: dict(
        fp="error_message in expression.error_messages(args)",
        inv=["self.error_level is not ErrorLevel.IGNORE", "len(self.errors) >= old(len(self.errors)) + _k0",
             "self.errors is old(self.errors)", "implies(self.error_level is ErrorLevel.IMMEDIATE, _k0 == 0 and errors_extended_by(self, 0))"],
    )},
)

contract(
    P, "Parser._try_parse", props=["C14", "C05"],
    types={"parse_method": "func", "retreat": "bool"},
    requires=["cursor_ok(self)"],
    ensures=[
        "self.error_level is old(self.error_level)",
        "implies(not truthy(result) or retreat, self._index == old(self._index))",
    ],
    raises={"BaseException": ["self.error_level is old(self.error_level)", "self._index == old(self._index)",
                               "not isinstance(exc, ParseError)"]},
    modifies=None,
    opaque={"parse_method": dict(
        havoc=["*"], raises=["ParseError", "BaseException"],
        # assumed of every sub-parser: it leaves the cursor consistent and does not swap the token list
        ensures=["cursor_ok(self)", "self._tokens_size == old(self._tokens_size)"],
        ensures_exc=["cursor_ok(self)", "self._tokens_size == old(self._tokens_size)"],
    )},
    must_fail=["self._index == old(self._index)"],
)

contract(
    P, "Parser.check_errors", props=["C14"],
    requires=["self.max_errors >= 0"],
    ensures=[
        "not (self.error_level is ErrorLevel.RAISE and len(self.errors) > 0)",
        "implies(self.error_level is ErrorLevel.WARN, ghost_log == len(self.errors))",
        "implies(self.error_level is not ErrorLevel.WARN, ghost_log == 0)",
    ],
    raises={"ParseError": [
        "self.error_level is ErrorLevel.RAISE", "len(self.errors) > 0", "ghost_log == 0",
        "exc.errors is merged(self.errors) or (not truthy(merged(self.errors)) and len(exc.errors) == 0)",
    ]},
    modifies=[],
    ghost={"counters": ["log"], "post_uses_final_locals": True},
    opaque={
        "logger.error": dict(counter="log", returns="none"),
        "merge_errors": dict(pure=True, uf="merged", returns="list"),
        "str": dict(pure=True, returns="str"),
    },
    loops={0: dict(fp="error in self.errors", inv=["ghost_log == _k0", "_k0 <= len(self.errors)", "self.error_level is ErrorLevel.WARN"])},
    must_fail=["ghost_log == 0"],
)
