"""C02 (narrow): NULL-ordering transfer between dialects.  The parser records where NULLs sort in the source dialect
(`nulls_first`), the generator emits NULLS FIRST/LAST exactly when the target's default would place them elsewhere."""
from pyvc.contract import contract, define, fields, uninterpreted

# where NULLs sort for a sort key, from the meaning of the three NULL_ORDERING values:
#   nulls_are_small: NULLs are the smallest values   (first under ASC, last under DESC)
#   nulls_are_large: NULLs are the largest values    (last under ASC, first under DESC)
#   nulls_are_last : NULLs come last whatever the direction
# explicit: 1 = text says NULLS FIRST, -1 = NULLS LAST, 0 = nothing
define("eff_first", "lambda ordering, desc, explicit: ite(explicit == 1, True, ite(explicit == -1, False,"
                    " (ordering == 'nulls_are_small' and not desc) or (ordering == 'nulls_are_large' and desc)))")
define("valid_ordering", "lambda o: o == 'nulls_are_small' or o == 'nulls_are_large' or o == 'nulls_are_last'")
fields(NULL_ORDERING="str", SUPPORTS_ORDER_BY_ALL="bool", dialect="Dialect")

BOOL = dict(returns="bool", havoc=["*"])
contract(
    "sqlglot/parser.py", "Parser._parse_ordered", props=["C02"],
    types={"parse_method": "func|none"},
    requires=["valid_ordering(self.dialect.NULL_ORDERING)"],
    # slice: from entry to the construction of exp.Ordered; the sub-parsers are opaque
    stop_at="if self._match_text_seq('WITH', 'FILL')",
    ensures=[
        "is_bool(nulls_first)",
        "nulls_first == eff_first(old(self.dialect.NULL_ORDERING), truthy(desc), ite(truthy(is_nulls_first), 1, ite(truthy(is_nulls_last), -1, 0)))",
        "desc is None or is_bool(desc)",
    ],
    raises={"Exception": []},
    modifies=None,
    opaque={
        "parse_method": dict(havoc=["*"], raises=["Exception"], returns="Expression|none", ensures=["self.dialect is old(self.dialect)", "self.dialect.NULL_ORDERING == old(self.dialect.NULL_ORDERING)"]),
        "self._parse_disjunction": dict(havoc=["*"], raises=["Exception"], returns="Expression|none", ensures=["self.dialect is old(self.dialect)", "self.dialect.NULL_ORDERING == old(self.dialect.NULL_ORDERING)"]),
        ".name": dict(returns="str"),
        "exp.var": dict(returns="any"),
        "self._match": dict(returns="bool", havoc=["self._index"]),
        "self._match_text_seq": dict(returns="bool", havoc=["self._index"]),
        "self._parse_bitwise": dict(returns="any", havoc=["self._index"]),
        "self._parse_interpolate": dict(returns="any", havoc=["self._index"]),
        "self.expression": dict(returns="any"),
        "exp.WithFill": dict(returns="any"), "exp.Ordered": dict(returns="any"),
    },
)

contract(
    "sqlglot/generator.py", "Generator.ordered_sql", props=["C02"],
    types={"expression": "Expression", "nulls_sort_change": "str"},
    requires=["valid_ordering(self.dialect.NULL_ORDERING)"],
    stop_at="if nulls_sort_change and (not self.NULL_ORDERING_SUPPORTED)",
    ensures=[
        # the emitted clause puts NULLs where the tree says they sort
        "eff_first(self.dialect.NULL_ORDERING, truthy(desc), ite(nulls_sort_change == ' NULLS FIRST', 1, ite(nulls_sort_change == ' NULLS LAST', -1, 0))) == truthy(nulls_first)",
        "nulls_sort_change == ' NULLS FIRST' or nulls_sort_change == ' NULLS LAST' or nulls_sort_change == ''",
        # no clause is emitted when the target default already agrees
        "implies(eff_first(self.dialect.NULL_ORDERING, truthy(desc), 0) == truthy(nulls_first), nulls_sort_change == '')",
        "sort_order == ite(truthy(desc), ' DESC', ite(desc is False, ' ASC', ''))",
    ],
    modifies=None,
    opaque={"self.sql": dict(returns="str"), "expression.args.get": dict(returns="any")},
)

# ------------------------------------------------------------------------------------------------------------------
# The whole function, including the targets without a NULLS FIRST / LAST clause: every way out either keeps the NULL
# placement the tree records, or reports it through Generator.unsupported (ghost counter), or is a sort key that is
# never NULL (RAND()).  `need_first` is where the tree says NULLs sort; a CASE key `CASE WHEN k IS NULL THEN 1 ELSE 0
# END [DESC]` puts NULL keys last when ascending and first when descending, whatever the target's default.
fields(NULL_ORDERING_SUPPORTED="any")
uninterpreted("sqlof", 2)     # Generator.sql(node, key): the text of a child (a function of the node here: nothing is mutated in between)
uninterpreted("this_of", 1)   # Expression.this
define("explicit_of", "lambda chg: ite(chg == ' NULLS FIRST', 1, ite(chg == ' NULLS LAST', -1, 0))")
contract(
    "sqlglot/generator.py", "Generator.ordered_sql", variant="full", props=["C02"],
    types={"expression": "Expression", "nulls_sort_change": "str", "this": "str", "sort_order": "str", "target": "str", "operand_sql": "str", "null_sort_order": "str", "with_fill": "str"},
    requires=["valid_ordering(self.dialect.NULL_ORDERING)"],
    ensures=[
        "result == this + sort_order + nulls_sort_change + with_fill",
        "sort_order == ite(truthy(desc), ' DESC', ite(desc is False, ' ASC', ''))",
        # (a) reported, or (b) the emitted clause (or its absence) yields the recorded placement on the key's own SQL,
        # or (c) the CASE simulation with the right direction, or (d) a key that is never NULL
        "ghost_unsup > 0"
        " or (this is sqlof(expression, 'this') and eff_first(self.dialect.NULL_ORDERING, truthy(desc), explicit_of(nulls_sort_change)) == truthy(nulls_first))"
        " or (self.NULL_ORDERING_SUPPORTED is None and nulls_sort_change == ''"
        "     and defined('operand_sql') and defined('target')"
        "     and this == 'CASE WHEN ' + local_or('operand_sql', '') + ' IS NULL THEN 1 ELSE 0 END' + ite(truthy(nulls_first), ' DESC', '') + ', ' + local_or('target', '')"
        "     and (local_or('operand_sql', '') == local_or('target', '') or local_or('operand_sql', '') == '(' + local_or('target', '') + ')'))"
        " or (self.NULL_ORDERING_SUPPORTED is None and nulls_sort_change == '' and this is sqlof(expression, 'this') and isinstance(this_of(expression), Rand))",
    ],
    modifies=None,
    ghost={"counters": ["unsup"], "post_uses_final_locals": True, "max_paths": 60000,
           "dynamic_isinstance": ["WINDOW_FUNCS_WITH_NULL_ORDERING"]},
    opaque={
        "self.sql": dict(returns="str", pure=True, uf="sqlof"), "expression.args.get": dict(returns="any"), "window.args.get": dict(returns="any"),
        "expression.find_ancestor": dict(returns="Expression|none"),
        "self.unsupported": dict(counter="unsup", returns="none"),
        "self._resolve_ordered_for_null_ordering_simulation": dict(returns="Expression|none"),
        "window_this.sql_name": dict(returns="str"), "ancestor.sql_name": dict(returns="str"), "spec.text": dict(returns="str"),
        ".is_int": dict(returns="bool"), ".this": dict(returns="Expression", pure=True, uf="this_of"),
    },
)
