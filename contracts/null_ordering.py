"""C02 (narrow): NULL-ordering transfer between dialects.  The parser records where NULLs sort in the source dialect
(`nulls_first`), the generator emits NULLS FIRST/LAST exactly when the target's default would place them elsewhere."""
from pyvc.contract import contract, define, fields

# where NULLs sort for a sort key, from the meaning of the three NULL_ORDERING values:
#   nulls_are_small: NULLs are the smallest values   (first under ASC, last under DESC)
#   nulls_are_large: NULLs are the largest values    (last under ASC, first under DESC)
#   nulls_are_last : NULLs come last whatever the direction
# explicit: 1 = text says NULLS FIRST, -1 = NULLS LAST, 0 = nothing
define("eff_first", "lambda ordering, desc, explicit: ite(explicit == 1, True, ite(explicit == -1, False,"
                    " (ordering == 'nulls_are_small' and not desc) or (ordering == 'nulls_are_large' and desc)))")
define("valid_ordering", "lambda o: o == 'nulls_are_small' or o == 'nulls_are_large' or o == 'nulls_are_last'")
fields(NULL_ORDERING="str", SUPPORTS_ORDER_BY_ALL="bool", dialect="Dialect")

BOOL = dict(returns="bool", havoc=["*"])
contract(
    "sqlglot/parser.py", "Parser._parse_ordered", props=["C02"],
    types={"parse_method": "func|none"},
    requires=["valid_ordering(self.dialect.NULL_ORDERING)"],
    # slice: from entry to the construction of exp.Ordered; the sub-parsers are opaque
    stop_at="if self._match_text_seq('WITH', 'FILL')",
    ensures=[
        "is_bool(nulls_first)",
        "nulls_first == eff_first(old(self.dialect.NULL_ORDERING), truthy(desc), ite(truthy(is_nulls_first), 1, ite(truthy(is_nulls_last), -1, 0)))",
        "desc is None or is_bool(desc)",
    ],
    raises={"Exception": []},
    modifies=None,
    opaque={
        "parse_method": dict(havoc=["*"], raises=["Exception"], returns="Expression|none", ensures=["self.dialect is old(self.dialect)", "self.dialect.NULL_ORDERING == old(self.dialect.NULL_ORDERING)"]),
        "self._parse_disjunction": dict(havoc=["*"], raises=["Exception"], returns="Expression|none", ensures=["self.dialect is old(self.dialect)", "self.dialect.NULL_ORDERING == old(self.dialect.NULL_ORDERING)"]),
        ".name": dict(returns="str"),
        "exp.var": dict(returns="any"),
        "self._match": dict(returns="bool", havoc=["self._index"]),
        "self._match_text_seq": dict(returns="bool", havoc=["self._index"]),
        "self._parse_bitwise": dict(returns="any", havoc=["self._index"]),
        "self._parse_interpolate": dict(returns="any", havoc=["self._index"]),
        "self.expression": dict(returns="any"),
        "exp.WithFill": dict(returns="any"), "exp.Ordered": dict(returns="any"),
    },
)

contract(
    "sqlglot/generator.py", "Generator.ordered_sql", props=["C02"],
    types={"expression": "Expression", "nulls_sort_change": "str"},
    requires=["valid_ordering(self.dialect.NULL_ORDERING)"],
    stop_at="if nulls_sort_change and (not self.NULL_ORDERING_SUPPORTED)",
    ensures=[
        # the emitted clause puts NULLs where the tree says they sort
        "eff_first(self.dialect.NULL_ORDERING, truthy(desc), ite(nulls_sort_change == ' NULLS FIRST', 1, ite(nulls_sort_change == ' NULLS LAST', -1, 0))) == truthy(nulls_first)",
        "nulls_sort_change == ' NULLS FIRST' or nulls_sort_change == ' NULLS LAST' or nulls_sort_change == ''",
        # no clause is emitted when the target default already agrees
        "implies(eff_first(self.dialect.NULL_ORDERING, truthy(desc), 0) == truthy(nulls_first), nulls_sort_change == '')",
        "sort_order == ite(truthy(desc), ' DESC', ite(desc is False, ' ASC', ''))",
    ],
    modifies=None,
    opaque={"self.sql": dict(returns="str"), "expression.args.get": dict(returns="any")},
)
