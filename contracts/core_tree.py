"""Tree-link and hash-cache invariants of Expression (C08; also used by C09/C12/C20)."""
from pyvc.contract import contract, define, fields

CORE = "sqlglot/expressions/core.py"

fields(args="dict", parent="Expression|none", arg_key="str|none", index="int|none", _hash="int|none")

# link invariant for one argument slot of node n
define(
    "wf_slot",
    "lambda n, k: implies(has(n.args, k),"
    " implies(isinstance(n.args[k], Expr), n.args[k].parent is n and n.args[k].arg_key == k and n.args[k].index is None)"
    " and implies(is_list(n.args[k]), forall(range(0, len(n.args[k])), lambda i:"
    "   implies(isinstance(n.args[k][i], Expr), n.args[k][i].parent is n and n.args[k][i].arg_key == k and n.args[k][i].index == i))))",
)
# cache invariant: an uncached node has only uncached ancestors (so the invalidation walk may stop at the first uncached one)
define("hc", "lambda: forall('Expr', lambda n: implies(n._hash is None and n.parent is not None, n.parent._hash is None))")
define("hc_except", "lambda x: forall('Expr', lambda n: implies(n._hash is None and n.parent is not None and n.parent is not x, n.parent._hash is None))")
define("only_cleared", "lambda: forall('Expr', lambda n: n._hash is None or n._hash == old(n._hash))")
define("distinct_exprs", "lambda l: forall(int, lambda i, j: implies(0 <= i and i < j and j < len(l) and isinstance(l[i], Expr), l[i] is not l[j]))")
define("same_index", "lambda x: x.index == old(x.index)")
define("index_dec", "lambda x: x.index == old(x.index) - 1")
define("in_list", "lambda l, x: exists(range(0, len(l)), lambda i: l[i] is x)")
define(
    "links_frame",
    "lambda value: forall('Expr', lambda n: implies(n is not value and not (is_list(value) and in_list(value, n)),"
    " n.parent is old(n.parent) and n.arg_key == old(n.arg_key) and n.index == old(n.index)))",
)

LINKS = ["*.parent", "*.arg_key", "*.index"]

contract(
    CORE, "Expression._set_parent", props=["C08"],
    types={"arg_key": "str", "index": "int|none"},
    requires=["implies(is_list(value), distinct_exprs(value))"],
    ensures=[
        "implies(isinstance(value, Expr), value.parent is self and value.arg_key == arg_key and value.index == index)",
        "implies(is_list(value), forall(range(0, len(value)), lambda i: implies(isinstance(value[i], Expr),"
        " value[i].parent is self and value[i].arg_key == arg_key and value[i].index == i)))",
        "links_frame(value)",
    ],
    modifies=LINKS,
    loops={0: dict(
        fp="(i, v) in enumerate(value)",
        inv=[
            "forall(range(0, _k0), lambda j: implies(isinstance(value[j], Expr), value[j].parent is self and value[j].arg_key == arg_key and value[j].index == j))",
            "links_frame(value)", "_k0 <= len(value)",
        ],
        dec="len(value) - _k0",
    )},
    must_fail=["value.parent is old(value.parent)"],
)

WALK = dict(
    fp="node and node._hash is not None",
    inv=["only_cleared()", "hc_except(node)", "node is None or isinstance(node, Expr)",
         "implies(node is not self, self._hash is None)"],
)
define("args_frame", "lambda s, key: forall(val, lambda k: implies(k != key, iff(has(s.args, k), old(has(s.args, k))) and s.args[k] is old(s.args[k])))")
define("detached_from", "lambda v, l: implies(isinstance(v, Expr), not in_list(l, v))")

contract(
    CORE, "Expression.append", props=["C08"],
    types={"arg_key": "str", "node": "Expression|none"},
    requires=[
        "hc()", "wf_slot(self, arg_key)",
        # the appended node is not already an element of that list (no node stored twice)
        "implies(has(self.args, arg_key) and is_list(self.args[arg_key]), detached_from(value, self.args[arg_key]) and distinct_exprs(self.args[arg_key]))",
        # list arguments are not shared with another node
        "not is_list(value)",
    ],
    ensures=[
        "hc()", "self._hash is None", "only_cleared()",
        "has(self.args, arg_key) and is_list(self.args[arg_key])",
        "self.args[arg_key][len(self.args[arg_key]) - 1] is value",
        "implies(old(has(self.args, arg_key) and is_list(self.args[arg_key])), self.args[arg_key] is old(self.args[arg_key])"
        " and len(self.args[arg_key]) == old(len(self.args[arg_key])) + 1"
        " and forall(range(0, old(len(self.args[arg_key]))), lambda i: self.args[arg_key][i] is old(self.args[arg_key][i])))",
        "implies(not old(has(self.args, arg_key) and is_list(self.args[arg_key])), len(self.args[arg_key]) == 1)",
        "wf_slot(self, arg_key)",
        "args_frame(self, arg_key)",
    ],
    modifies=LINKS + ["*._hash", "self.args{}", "self.args[arg_key][]"],
    loops={0: WALK},
)

define("norm_pos", "lambda l, i: ite(i < 0, i + len(l), i)")
define("valid_pos", "lambda l, i: 0 <= norm_pos(l, i) and norm_pos(l, i) < len(l) and l[norm_pos(l, i)] is not None")
define("all_exprs", "lambda l: forall(range(0, len(l)), lambda i: isinstance(l[i], Expr))")
define("slot_list", "lambda s, k: has(s.args, k) and is_list(s.args[k])")

contract(
    CORE, "Expression.set", props=["C08"],
    types={"arg_key": "str", "index": "int|none", "overwrite": "bool", "node": "Expression|none", "v": "Expr"},
    requires=[
        "hc()", "wf_slot(self, arg_key)", "index is None or index >= 0 or value is None",
        # positional edits address a list-valued slot holding distinct expression nodes
        "implies(index is not None and has(self.args, arg_key), is_list(self.args[arg_key]) and all_exprs(self.args[arg_key]) and distinct_exprs(self.args[arg_key]))",
        # the inserted value is not already stored in that slot, and a list value is duplicate free and not the slot's own list
        "implies(slot_list(self, arg_key), detached_from(value, self.args[arg_key]))",
        "implies(is_list(value), distinct_exprs(value) and implies(slot_list(self, arg_key), value is not self.args[arg_key]"
        " and forall(range(0, len(value)), lambda i: not in_list(self.args[arg_key], value[i]))))",
    ],
    ensures=[
        "hc()", "self._hash is None", "only_cleared()",
        "wf_slot(self, arg_key)",
        "args_frame(self, arg_key)",
        "implies(index is None and value is None, not has(self.args, arg_key))",
        "implies(index is None and value is not None, has(self.args, arg_key) and self.args[arg_key] is value)",
        # positional overwrite: same list object, same length, only position `index` changes
        "implies(index is not None and old(slot_list(self, arg_key) and index < len(self.args[arg_key]) and self.args[arg_key][index] is not None)"
        " and value is not None and not is_list(value) and overwrite,"
        " self.args[arg_key] is old(self.args[arg_key]) and len(self.args[arg_key]) == old(len(self.args[arg_key])) and self.args[arg_key][index] is value"
        " and forall(range(0, len(self.args[arg_key])), lambda i: implies(i != index, self.args[arg_key][i] is old(self.args[arg_key][i]))))",
        # positional removal (the position may be counted from the end): the element is gone and the tail moved down by one
        "implies(index is not None and value is None and old(slot_list(self, arg_key) and valid_pos(self.args[arg_key], index)),"
        " self.args[arg_key] is old(self.args[arg_key]) and len(self.args[arg_key]) == old(len(self.args[arg_key])) - 1"
        " and forall(range(0, old(norm_pos(self.args[arg_key], index))), lambda i: self.args[arg_key][i] is old(self.args[arg_key][i]))"
        " and forall(range(old(norm_pos(self.args[arg_key], index)), len(self.args[arg_key])), lambda i: self.args[arg_key][i] is old(self.args[arg_key][i + 1])))",
        # an out-of-range position is a no-op on the arguments
        "implies(index is not None and not old(slot_list(self, arg_key) and valid_pos(self.args[arg_key], index)),"
        " iff(has(self.args, arg_key), old(has(self.args, arg_key))) and self.args[arg_key] is old(self.args[arg_key]))",
    ],
    modifies=LINKS + ["*._hash", "self.args{}", "self.args[arg_key][]"],
    loops={0: WALK, 1: dict(
        fp="v in expressions[index:]",
        inv=["_k1 <= len(_seq1)", "len(_seq1) == len(expressions) - index", "expressions is old(self.args[arg_key])",
             "forall(range(0, len(_seq1)), lambda j: _seq1[j] is expressions[index + j])",
             "forall(range(0, index + _k1), lambda i: expressions[i].index == i)",
             "forall(range(index + _k1, len(expressions)), lambda i: expressions[i].index == i + 1)",
             "forall('Expr', lambda n: implies(not (n.parent is self and n.arg_key == arg_key), n.index == old(n.index)))"],
        dec="len(_seq1) - _k1",
    )},
)

# `n` is stored in its parent exactly where its own link fields say
define(
    "stored_in_parent",
    "lambda n: n.arg_key is not None and has(n.parent.args, n.arg_key)"
    " and ite(n.index is None, n.parent.args[n.arg_key] is n,"
    "  is_list(n.parent.args[n.arg_key]) and 0 <= n.index and n.index < len(n.parent.args[n.arg_key]) and n.parent.args[n.arg_key][n.index] is n)",
)

contract(
    CORE, "Expression.replace", props=["C08"],
    types={"parent": "Expression|none", "key": "str|none", "value": "any"},
    requires=[
        "hc()", "expression is not self", "not is_list(expression)",
        "implies(self.parent is not None, stored_in_parent(self) and wf_slot(self.parent, self.arg_key) and self.arg_key != '')",
        "implies(self.parent is not None and self.index is not None,"
        " all_exprs(self.parent.args[self.arg_key]) and distinct_exprs(self.parent.args[self.arg_key]) and detached_from(expression, self.parent.args[self.arg_key]))",
    ],
    ensures=[
        "result is expression", "hc()", "only_cleared()",
        "implies(old(self.parent) is not None and old(self.parent) is not expression,"
        " self.parent is None and self.arg_key is None and self.index is None"
        " and old(self.parent)._hash is None and wf_slot(old(self.parent), old(self.arg_key)))",
        # scalar slot: the parent now holds the replacement (or nothing, for pop)
        "implies(old(self.parent) is not None and old(self.parent) is not expression and old(self.index) is None,"
        " ite(expression is None, not has(old(self.parent).args, old(self.arg_key)), old(self.parent).args[old(self.arg_key)] is expression))",
        # list slot: position `index` now holds the replacement; for pop the list is one shorter
        "implies(old(self.parent) is not None and old(self.parent) is not expression and old(self.index) is not None and expression is not None,"
        " old(self.parent).args[old(self.arg_key)][old(self.index)] is expression"
        " and len(old(self.parent).args[old(self.arg_key)]) == old(len(self.parent.args[self.arg_key])))",
        "implies(old(self.parent) is not None and old(self.index) is not None and expression is None,"
        " len(old(self.parent).args[old(self.arg_key)]) == old(len(self.parent.args[self.arg_key])) - 1)",
        "implies(old(self.parent) is None or old(self.parent) is expression, self.parent is old(self.parent) and self._hash == old(self._hash))",
    ],
    modifies=LINKS + ["*._hash", "self.parent.args{}", "self.parent.args[self.arg_key][]"],
)

contract(
    CORE, "Expression.pop", props=["C08"],
    requires=[
        "hc()",
        "implies(self.parent is not None, stored_in_parent(self) and wf_slot(self.parent, self.arg_key) and self.arg_key != '')",
        "implies(self.parent is not None and self.index is not None,"
        " all_exprs(self.parent.args[self.arg_key]) and distinct_exprs(self.parent.args[self.arg_key]))",
    ],
    ensures=[
        "result is self", "hc()", "self.parent is None",
        "implies(old(self.parent) is not None, self.arg_key is None and self.index is None and old(self.parent)._hash is None"
        " and wf_slot(old(self.parent), old(self.arg_key)))",
        "implies(old(self.parent) is not None and old(self.index) is None, not has(old(self.parent).args, old(self.arg_key)))",
        "implies(old(self.parent) is not None and old(self.index) is not None,"
        " len(old(self.parent).args[old(self.arg_key)]) == old(len(self.parent.args[self.arg_key])) - 1)",
    ],
    modifies=LINKS + ["*._hash", "self.parent.args{}", "self.parent.args[self.arg_key][]"],
)
