"""C20: accounting invariant of the diff matcher -- whatever the similarity heuristics return, a node is matched at
most once and leaves the unmatched set exactly when it is matched."""
from pyvc.contract import contract, define, fields

D = "sqlglot/diff.py"
fields(_unmatched_source_nodes="set", _unmatched_target_nodes="set", args="dict", _source_index="dict", _target_index="dict", parent="any")

define("pair_in", "lambda ms, s, t: has(ms, (s, t))")
# matched and unmatched are disjoint, and the matching is a partial injection
define(
    "acct",
    "lambda d, ms: forall(int, lambda s, t: implies(pair_in(ms, s, t), not has(d._unmatched_source_nodes, s) and not has(d._unmatched_target_nodes, t)))"
    " and forall(int, lambda s, t, t2: implies(pair_in(ms, s, t) and pair_in(ms, s, t2), t == t2))"
    " and forall(int, lambda s, s2, t: implies(pair_in(ms, s, t) and pair_in(ms, s2, t), s == s2))",
)
# nodes only ever leave the unmatched sets, and a node that left is the end of a matched pair
define(
    "only_matched_leave",
    "lambda d, ms: forall(int, lambda s: implies(old(has(d._unmatched_source_nodes, s)) and not has(d._unmatched_source_nodes, s), exists(int, lambda t: pair_in(ms, s, t))))"
    " and forall(int, lambda t: implies(old(has(d._unmatched_target_nodes, t)) and not has(d._unmatched_target_nodes, t), exists(int, lambda s: pair_in(ms, s, t))))"
    " and forall(int, lambda s: implies(has(d._unmatched_source_nodes, s), old(has(d._unmatched_source_nodes, s))))"
    " and forall(int, lambda t: implies(has(d._unmatched_target_nodes, t), old(has(d._unmatched_target_nodes, t))))",
)

contract(
    D, "ChangeDistiller._compute_leaf_matching_set", props=["C20"],
    # mechanically extracted statement: the greedy consumption loop; the heap order (similarity scores) is arbitrary
    slice_from="while candidate_matchings",
    types={"candidate_matchings": "list", "matching_set": "set"},
    requires=["acct(self, matching_set)", "self._unmatched_source_nodes is not self._unmatched_target_nodes",
              "matching_set is not self._unmatched_source_nodes", "matching_set is not self._unmatched_target_nodes",
              "forall(int, lambda s, t: not pair_in(matching_set, s, t))"],
    ensures=["acct(self, matching_set)", "only_matched_leave(self, matching_set)"],
    modifies=["self._unmatched_source_nodes{}", "self._unmatched_target_nodes{}", "matching_set{}", "candidate_matchings[]"],
    ghost={"post_uses_final_locals": True},
    opaque={"heappop": dict(havoc=["candidate_matchings[]"], returns="tuple:any,any,any,Expression,Expression")},
    loops={0: dict(fp="candidate_matchings", inv=["acct(self, matching_set)", "only_matched_leave(self, matching_set)"])},
)

# "paired nodes have the same type": the matcher only ever pairs nodes for which _is_same_type holds
contract(
    D, "_is_same_type", props=["C20"],
    types={"source": "Expression", "target": "Expression"},
    ensures=["implies(truthy(result), same_class(source, target))", "is_bool(result)"],
    modifies=[],
    inline=["this"],
    must_fail=["not truthy(result)"],
)

# the edit script accounts for every node once: one Remove per unmatched source node, one Insert per unmatched target node, and for every
# matched pair exactly one of Keep / Update (no Keep at all, and at most one Update, with delta_only) -- counted by ghost counters on the
# edit constructors, whatever the similarity / equality tests answer
contract(
    D, "ChangeDistiller._generate_edit_script", props=["C20"],
    types={"matchings": "dict", "delta_only": "bool", "edit_script": "list"},
    # entry heap well-formedness: what self holds was allocated before the call
    requires=["matchings is not self._source_index", "matchings is not self._target_index",
              "not fresh(self._unmatched_source_nodes)", "not fresh(self._unmatched_target_nodes)", "not fresh(self._source_index)", "not fresh(self._target_index)"],
    # a node id missing from its index (KeyError) is the caller's broken precondition, not an accounting question
    raises={"KeyError": [], "AttributeError": [], "TypeError": []},
    ensures=[
        "ghost_rm == len(self._unmatched_source_nodes)",
        "ghost_ins == len(self._unmatched_target_nodes)",
        "implies(not delta_only, ghost_keep + ghost_upd == len(matchings))",
        "implies(delta_only, ghost_keep == 0 and ghost_upd <= len(matchings))",
        "fresh(result)",
    ],
    modifies=["fresh"],   # neither input index, neither unmatched set, nor the matching is written
    ghost={"counters": ["rm", "ins", "keep", "upd"], "post_uses_final_locals": True},
    opaque={
        "Remove": dict(counter="rm", returns="fresh:object"), "Insert": dict(counter="ins", returns="fresh:object"),
        "Keep": dict(counter="keep", returns="fresh:object"), "Update": dict(counter="upd", returns="fresh:object"),
        "Move": dict(returns="fresh:object"),
        "self._generate_move_edits": dict(returns="list"),
        "_get_non_expression_leaves": dict(returns="any"),
        "dict": dict(returns="any"),
        "id": dict(returns="int", pure=True),
        "matchings.get": dict(returns="any"),
    },
    loops={
        0: dict(fp="removed_node_id in self._unmatched_source_nodes", inv=["len(self._unmatched_source_nodes) == old(len(self._unmatched_source_nodes))", "len(self._unmatched_target_nodes) == old(len(self._unmatched_target_nodes))", "len(matchings) == old(len(matchings))", "ghost_rm == _k0", "_k0 <= len(self._unmatched_source_nodes)", "ghost_ins == 0", "ghost_keep == 0", "ghost_upd == 0", "fresh(edit_script)"]),
        1: dict(fp="inserted_node_id in self._unmatched_target_nodes", inv=["len(self._unmatched_source_nodes) == old(len(self._unmatched_source_nodes))", "len(self._unmatched_target_nodes) == old(len(self._unmatched_target_nodes))", "len(matchings) == old(len(matchings))", "ghost_rm == len(self._unmatched_source_nodes)", "ghost_ins == _k1", "_k1 <= len(self._unmatched_target_nodes)", "ghost_keep == 0", "ghost_upd == 0", "fresh(edit_script)"]),
        2: dict(fp="(kept_source_node_id, kept_target_node_id) in matchings.items()",
                inv=["len(self._unmatched_source_nodes) == old(len(self._unmatched_source_nodes))", "len(self._unmatched_target_nodes) == old(len(self._unmatched_target_nodes))", "len(matchings) == old(len(matchings))", "ghost_rm == len(self._unmatched_source_nodes)", "ghost_ins == len(self._unmatched_target_nodes)", "fresh(edit_script)",
                     "_k2 <= len(matchings)", "implies(not delta_only, ghost_keep + ghost_upd == _k2)", "implies(delta_only, ghost_keep == 0 and ghost_upd <= _k2)"]),
    },
)
