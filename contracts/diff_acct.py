"""C20: accounting invariant of the diff matcher -- whatever the similarity heuristics return, a node is matched at
most once and leaves the unmatched set exactly when it is matched."""
from pyvc.contract import contract, define, fields

D = "sqlglot/diff.py"
fields(_unmatched_source_nodes="set", _unmatched_target_nodes="set", args="dict")

define("pair_in", "lambda ms, s, t: has(ms, (s, t))")
# matched and unmatched are disjoint, and the matching is a partial injection
define(
    "acct",
    "lambda d, ms: forall(int, lambda s, t: implies(pair_in(ms, s, t), not has(d._unmatched_source_nodes, s) and not has(d._unmatched_target_nodes, t)))"
    " and forall(int, lambda s, t, t2: implies(pair_in(ms, s, t) and pair_in(ms, s, t2), t == t2))"
    " and forall(int, lambda s, s2, t: implies(pair_in(ms, s, t) and pair_in(ms, s2, t), s == s2))",
)
# nodes only ever leave the unmatched sets, and a node that left is the end of a matched pair
define(
    "only_matched_leave",
    "lambda d, ms: forall(int, lambda s: implies(old(has(d._unmatched_source_nodes, s)) and not has(d._unmatched_source_nodes, s), exists(int, lambda t: pair_in(ms, s, t))))"
    " and forall(int, lambda t: implies(old(has(d._unmatched_target_nodes, t)) and not has(d._unmatched_target_nodes, t), exists(int, lambda s: pair_in(ms, s, t))))"
    " and forall(int, lambda s: implies(has(d._unmatched_source_nodes, s), old(has(d._unmatched_source_nodes, s))))"
    " and forall(int, lambda t: implies(has(d._unmatched_target_nodes, t), old(has(d._unmatched_target_nodes, t))))",
)

contract(
    D, "ChangeDistiller._compute_leaf_matching_set", props=["C20"],
    # mechanically extracted statement: the greedy consumption loop; the heap order (similarity scores) is arbitrary
    slice_from="while candidate_matchings",
    types={"candidate_matchings": "list", "matching_set": "set"},
    requires=["acct(self, matching_set)", "self._unmatched_source_nodes is not self._unmatched_target_nodes",
              "matching_set is not self._unmatched_source_nodes", "matching_set is not self._unmatched_target_nodes",
              "forall(int, lambda s, t: not pair_in(matching_set, s, t))"],
    ensures=["acct(self, matching_set)", "only_matched_leave(self, matching_set)"],
    modifies=["self._unmatched_source_nodes{}", "self._unmatched_target_nodes{}", "matching_set{}", "candidate_matchings[]"],
    ghost={"post_uses_final_locals": True},
    opaque={"heappop": dict(havoc=["candidate_matchings[]"], returns="tuple:any,any,any,Expression,Expression")},
    loops={0: dict(fp="candidate_matchings", inv=["acct(self, matching_set)", "only_matched_leave(self, matching_set)"])},
)

# "paired nodes have the same type": the matcher only ever pairs nodes for which _is_same_type holds
contract(
    D, "_is_same_type", props=["C20"],
    types={"source": "Expression", "target": "Expression"},
    ensures=["implies(truthy(result), same_class(source, target))", "is_bool(result)"],
    modifies=[],
    inline=["this"],
    must_fail=["not truthy(result)"],
)
