"""Identifier normalisation (C10): idempotent, and case-sensitive identifiers are left alone."""
from pyvc.contract import contract, define, fields, axiom, uninterpreted
import contracts.core_tree  # Expression.set contract (args frame, hash invalidation)

D = "sqlglot/dialects/dialect.py"
fields(normalization_strategy="NormalizationStrategy", ASCII_ONLY_NORMALIZATION="bool")

# case maps are idempotent (checked against CPython for every code point by selftest/axioms.py)
axiom("upper-idempotent", "lambda s: s.upper().upper() == s.upper()", types={"s": "str"}, check="lambda c: c.upper().upper() == c.upper()")
axiom("lower-idempotent", "lambda s: s.lower().lower() == s.lower()", types={"s": "str"}, check="lambda c: c.lower().lower() == c.lower()")
axiom("ascii-upper-idempotent", "lambda s: s.translate(ASCII_UPPER).translate(ASCII_UPPER) == s.translate(ASCII_UPPER)", types={"s": "str"},
      check="lambda c: c.translate(ASCII_UPPER).translate(ASCII_UPPER) == c.translate(ASCII_UPPER)")
axiom("ascii-lower-idempotent", "lambda s: s.translate(ASCII_LOWER).translate(ASCII_LOWER) == s.translate(ASCII_LOWER)", types={"s": "str"},
      check="lambda c: c.translate(ASCII_LOWER).translate(ASCII_LOWER) == c.translate(ASCII_LOWER)")

define("folds_quoted", "lambda d: d.normalization_strategy is NormalizationStrategy.CASE_INSENSITIVE or d.normalization_strategy is NormalizationStrategy.CASE_INSENSITIVE_UPPERCASE")
define("uppercases", "lambda d: d.normalization_strategy is NormalizationStrategy.UPPERCASE or d.normalization_strategy is NormalizationStrategy.CASE_INSENSITIVE_UPPERCASE")
define("is_quoted", "lambda e: truthy(e.args.get('quoted'))")
# the identifier is left alone exactly in the cases the property names
define("untouched", "lambda d, e: not isinstance(e, Identifier) or d.normalization_strategy is NormalizationStrategy.CASE_SENSITIVE or (is_quoted(e) and not folds_quoted(d))")
# the case map the dialect applies
define("case_map", "lambda d, s: ite(uppercases(d), ite(d.ASCII_ONLY_NORMALIZATION, s.translate(ASCII_UPPER), s.upper()),"
                   " ite(d.ASCII_ONLY_NORMALIZATION, s.translate(ASCII_LOWER), s.lower()))")

contract(
    D, "Dialect.normalize_identifier", props=["C10"],
    types={"expression": "Expression"},
    requires=["hc()", "wf_slot(expression, 'this')",
              "implies(isinstance(expression, Identifier), has(expression.args, 'this') and is_str(expression.args['this']))"],
    ensures=[
        "result is expression",
        "implies(old(untouched(self, expression)), iff(has(expression.args, 'this'), old(has(expression.args, 'this'))) and expression.args['this'] is old(expression.args['this']) and expression._hash == old(expression._hash))",
        "implies(not old(untouched(self, expression)), expression.args['this'] == case_map(self, old(expression.args['this'])))",
        # idempotent: applying the dialect's case map to the result changes nothing
        "implies(not old(untouched(self, expression)), case_map(self, expression.args['this']) == expression.args['this'])",
        # the quoting flag is never touched
        "iff(has(expression.args, 'quoted'), old(has(expression.args, 'quoted'))) and expression.args['quoted'] is old(expression.args['quoted'])",
    ],
    modifies=["*.parent", "*.arg_key", "*.index", "*._hash", "expression.args{}", "expression.args['this'][]"],
    inline=["quoted", "this"],
    must_fail=["expression.args['this'] is old(expression.args['this'])"],
)

uninterpreted("cs_m", 1)     # self.case_sensitive(text): a function of the text (the dialect is fixed during the call)
uninterpreted("safe_re", 1)  # bool(exp.SAFE_IDENTIFIER_RE.match(text))
define("is_safe", "lambda d, e: not truthy(cs_m(e.args.get('this'))) and truthy(safe_re(e.args.get('this')))")

contract(
    D, "Dialect.can_quote", props=["C10", "C07"],
    types={"identifier": "Identifier", "identify": "any"},
    ensures=[
        "is_bool(result)",
        "implies(is_quoted(identifier), result is True)",
        "implies(not is_quoted(identifier) and not truthy(identify), result is False)",
        "implies(not is_quoted(identifier) and truthy(identify) and isinstance(identifier.parent, Func), result is False)",
        "implies(not is_quoted(identifier) and identify is True and not isinstance(identifier.parent, Func), result is True)",
        # 'safe' quotes exactly the identifiers that quoting cannot change the meaning of; 'unsafe' the others
        "implies(not is_quoted(identifier) and identify == 'safe' and not isinstance(identifier.parent, Func), result == is_safe(self, identifier))",
        "implies(not is_quoted(identifier) and identify == 'unsafe' and not isinstance(identifier.parent, Func), result == (not is_safe(self, identifier)))",
    ],
    # total on the documented values; anything else is rejected loudly instead of silently quoting or not
    raises={"ValueError": ["not is_quoted(identifier)", "truthy(identify)", "identify is not True", "identify != 'safe'", "identify != 'unsafe'"]},
    modifies=[],
    inline=["quoted", "this"],
    opaque={"self.case_sensitive": dict(pure=True, uf="cs_m"), "exp.SAFE_IDENTIFIER_RE.match": dict(pure=True, uf="safe_re")},
)
