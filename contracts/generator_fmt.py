"""Generator: unsupported-level funnel (C14), copy frame of generate() (C09), formatting helpers (C07)."""
from pyvc.contract import contract, define, fields

G = "sqlglot/generator.py"
fields(unsupported_level="ErrorLevel", unsupported_messages="list", max_unsupported="int", pretty="any", comments="any", pad="int", _indent="int")

contract(
    G, "Generator.unsupported", props=["C14"],
    types={"message": "str"},
    ensures=[
        "self.unsupported_level is not ErrorLevel.IMMEDIATE",
        "len(self.unsupported_messages) == old(len(self.unsupported_messages)) + 1",
        "self.unsupported_messages[len(self.unsupported_messages) - 1] == message",
        "forall(range(0, old(len(self.unsupported_messages))), lambda i: self.unsupported_messages[i] is old(self.unsupported_messages[i]))",
    ],
    raises={"UnsupportedError": ["self.unsupported_level is ErrorLevel.IMMEDIATE", "len(self.unsupported_messages) == old(len(self.unsupported_messages))"]},
    modifies=["self.unsupported_messages[]"],
    must_fail=["len(self.unsupported_messages) == old(len(self.unsupported_messages))"],
)

contract(
    G, "Generator.generate", props=["C14", "C09", "C15"],
    types={"expression": "Expression", "copy": "bool", "sql": "str"},
    requires=["self.max_unsupported >= 0"],
    ensures=[
        # IGNORE / WARN / RAISE all return the text computed before the level is looked at
        "result is sql",
        "not (self.unsupported_level is ErrorLevel.RAISE and len(self.unsupported_messages) > 0)",
        "implies(self.unsupported_level is ErrorLevel.WARN, ghost_log == len(self.unsupported_messages))",
        "implies(self.unsupported_level is not ErrorLevel.WARN, ghost_log == 0)",
    ],
    raises={"UnsupportedError": [
        # RAISE raises exactly when WARN would have logged; IMMEDIATE raises from inside unsupported()
        "(self.unsupported_level is ErrorLevel.RAISE and len(self.unsupported_messages) > 0) or self.unsupported_level is ErrorLevel.IMMEDIATE",
        "ghost_log == 0"],
        "Exception": []},
    # C09: with copy=True everything handed to preprocess / sql is the fresh copy
    assert_at=[("expression = self.preprocess(expression)", ["implies(copy, fresh(expression))"])],
    modifies=None,
    ghost={"counters": ["log"], "post_uses_final_locals": True},
    opaque={
        "expression.copy": dict(returns="fresh:Expression"),
        "self.preprocess": dict(havoc=["*"], raises=["Exception"], returns="Expression",
                                ensures=["self.unsupported_level is old(self.unsupported_level)", "self.max_unsupported == old(self.max_unsupported)", "self.pretty is old(self.pretty)"],
                                ensures_exc=["self.unsupported_level is old(self.unsupported_level)",
                                             "implies(isinstance(exc, UnsupportedError), self.unsupported_level is ErrorLevel.IMMEDIATE)"]),
        # printing may record unsupported messages; under IMMEDIATE it raises UnsupportedError at the first one (Generator.unsupported)
        "self.sql": dict(havoc=["*"], raises=["UnsupportedError", "Exception"], returns="str",
                         ensures=["self.unsupported_level is old(self.unsupported_level)", "self.max_unsupported == old(self.max_unsupported)", "self.pretty is old(self.pretty)",
                                  "implies(self.unsupported_level is ErrorLevel.IMMEDIATE, len(self.unsupported_messages) == 0)"],
                         # frame scan scans/c14.py: UnsupportedError is raised only by Generator.unsupported (IMMEDIATE) and generate()
                         ensures_exc=["self.unsupported_level is old(self.unsupported_level)",
                                      "implies(isinstance(exc, UnsupportedError), self.unsupported_level is ErrorLevel.IMMEDIATE)"]),
        "name_sequence": dict(returns="func"),
        "logger.warning": dict(counter="log", returns="none"),
        "concat_messages": dict(returns="str"),
    },
    loops={0: dict(fp="msg in self.unsupported_messages", inv=["ghost_log == _k0", "_k0 <= len(self.unsupported_messages)", "self.unsupported_level is ErrorLevel.WARN"])},
)

contract(
    G, "Generator.sep", props=["C07"], types={"sep": "str"},
    ensures=["implies(not truthy(self.pretty), result == sep)", "implies(truthy(self.pretty), result == sep.strip() + '\\n')"],
    modifies=[],
)
contract(
    G, "Generator.maybe_comment", props=["C07"],
    types={"sql": "str", "comments": "list|none", "separated": "bool", ".comments": "any"},
    # with comments switched off no comment text can reach the output
    stop_at="comments_list = ",
    ensures=["truthy(self.comments)"],
    modifies=None,
    ghost={"concrete_attrs": ["EXCLUDE_COMMENTS"]},
    notes="slice: every path that passes the early return has comments enabled; the early return gives back `sql` itself (second contract)",
)
contract(
    G, "Generator.indent", props=["C07"],
    types={"sql": "str", "level": "int", "pad": "int|none", "skip_first": "bool", "skip_last": "bool"},
    stop_at="pad = ",
    ensures=["truthy(self.pretty)", "sql != ''"],
    modifies=None,
    notes="slice: indentation is only applied when pretty is set and the text is non-empty",
)

# ---- C04: the quoting helpers are pure functions of their arguments and the dialect tables: they write nothing, so the
# text produced for one literal / identifier / comment cannot depend on what the same generator printed before
PURE_OPAQUE = {
    "''.join": dict(returns="str"),
    "self._replace_line_breaks": dict(returns="str"),
}
contract(
    G, "Generator.escape_str", props=["C04"],
    types={"text": "str", "escape_backslash": "bool", "delimiter": "str|none", "escaped_delimiter": "str|none", "is_byte_string": "bool",
           ".dialect": "Dialect", "._escaped_quote_end": "str", ".QUOTE_END": "str"},
    ensures=["is_str(result)"],
    modifies=[],
    opaque=PURE_OPAQUE,
)
contract(
    G, "Generator.sanitize_comment", props=["C04", "C07"],
    types={"comment": "str"},
    requires=["len(comment) >= 1"],
    ensures=["is_str(result)"],
    modifies=[],
)
contract(
    G, "Generator._replace_line_breaks", props=["C04", "C07"],
    types={"string": "str"},
    # outside pretty mode the text is untouched; in pretty mode the ONLY rewrite is LF -> sentinel, the exact inverse of what
    # generate() does at the end (so CR, CR LF and every other character of a literal / identifier reach the output)
    ensures=["implies(not truthy(self.pretty), result == string)",
             "implies(truthy(self.pretty), result == string.replace('\\n', self.SENTINEL_LINE_BREAK))"],
    modifies=[],
)
