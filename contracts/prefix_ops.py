"""C01 / C04: prefix operators never glue into another token.  '- -x' must not be generated as '--x' (a comment) and '~ ~x' not as
'~~x' (the LIKE operator): whatever text the operand generates to (`opsql`, uninterpreted), the result is the operator character, then
something that is not the same character, and it ends with the operand's text.  Stated over the argument, not over the code's locals."""
from pyvc.contract import contract, uninterpreted

G = "sqlglot/generator.py"
uninterpreted("opsql", 2, "str")   # Generator.sql(expression, key): the operand's text (any string)

contract(
    G, "Generator.neg_sql", props=["C01"],
    types={"expression": "Expression"},
    requires=["is_str(opsql(expression, 'this'))"],
    ensures=["result[0] == '-'", "len(result) >= 2", "result[1] != '-'", "result.endswith(opsql(expression, 'this'))"],
    raises={"IndexError": ["len(opsql(expression, 'this')) == 0"]},
    modifies=[],
    opaque={"self.sql": dict(returns="str", pure=True, uf="opsql")},
    must_fail=["result[1] == ' '"],
)

contract(
    G, "Generator.bitwisenot_sql", props=["C01"],
    types={"expression": "Expression"},
    requires=["is_str(opsql(expression, 'this'))"],
    ensures=["result[0] == '~'", "implies(len(opsql(expression, 'this')) > 0, result[1] != '~')", "result.endswith(opsql(expression, 'this'))"],
    modifies=[],
    opaque={"self.sql": dict(returns="str", pure=True, uf="opsql")},
    must_fail=["len(result) > 1 and result[1] == ' '"],
)
