"""Python executor: subquery ANY/ALL comparison and join-match kernels against SQL three-valued logic (C11)."""
from pyvc.contract import contract, define, fields, uninterpreted

PY = "sqlglot/executor/python.py"
fields(rows="list", env="dict")
uninterpreted("cmp", 2)     # the comparison operator taken from ENV (itself NULL-propagating: contracts/env_kernels.py)

define("c3", "lambda value, row: ite(cmp(value, row[0]) is None, 0, ite(truthy(cmp(value, row[0])), 1, -1))")
ROWS = "old_rows"

contract(
    PY, "PythonExecutor._subquery_comparison", props=["C11"],
    types={"quantifier": "str", "row": "list", "saw_null": "bool", "is_any": "bool"},
    requires=["has(self.env, op)"],
    ensures=[
        # value <op> ANY (rows)  is the Kleene OR of the row comparisons, ALL the Kleene AND (empty subquery: FALSE / TRUE)
        "implies(quantifier == 'ANY' and exists(range(0, len(_seq0)), lambda i: c3(value, _seq0[i]) == 1), result is True)",
        "implies(quantifier == 'ANY' and not exists(range(0, len(_seq0)), lambda i: c3(value, _seq0[i]) == 1) and exists(range(0, len(_seq0)), lambda i: c3(value, _seq0[i]) == 0), result is None)",
        "implies(quantifier == 'ANY' and forall(range(0, len(_seq0)), lambda i: c3(value, _seq0[i]) == -1), result is False)",
        "implies(quantifier != 'ANY' and exists(range(0, len(_seq0)), lambda i: c3(value, _seq0[i]) == -1), result is False)",
        "implies(quantifier != 'ANY' and not exists(range(0, len(_seq0)), lambda i: c3(value, _seq0[i]) == -1) and exists(range(0, len(_seq0)), lambda i: c3(value, _seq0[i]) == 0), result is None)",
        "implies(quantifier != 'ANY' and forall(range(0, len(_seq0)), lambda i: c3(value, _seq0[i]) == 1), result is True)",
    ],
    modifies=None,
    ghost={"post_uses_final_locals": True, "alias": {}},
    opaque={
        "self._subquery_table": dict(returns="fresh:Table", ensures=[
            "is_list(result.rows)",
            "forall(range(0, len(result.rows)), lambda i: is_list(result.rows[i]) and len(result.rows[i]) >= 1)"]),
        "compare": dict(pure=True, uf="cmp"),
    },
    loops={0: dict(
        fp="row in self._subquery_table(plan_name, scope, args).rows",
        inv=["_k0 <= len(_seq0)", "is_any == (quantifier == 'ANY')",
             "forall(range(0, len(_seq0)), lambda i: is_list(_seq0[i]) and len(_seq0[i]) >= 1)",
             "saw_null == exists(range(0, _k0), lambda i: c3(value, _seq0[i]) == 0)",
             "forall(range(0, _k0), lambda i: c3(value, _seq0[i]) != ite(is_any, 1, -1))"],
        dec="len(_seq0) - _k0",
    )},
    assert_at=[],
)
