"""Contracts for the parser cursor discipline and the error funnel (C05, C14, C13)."""
from pyvc.contract import contract, define, fields

P = "sqlglot/parser.py"

fields(
    _index="int", _tokens="list[Token]", _tokens_size="int", _curr="Token", _next="Token", _prev="Token",
    _prev_comments="list", token_type="TokenType", text="str", comments="list", errors="list",
    error_level="ErrorLevel", line="int", col="int", start="int", end="int", max_errors="int", sql="str",
    _chunks="list", _chunk_index="int", max_nodes="int", _node_count="int", error_message_context="int",
)

define("tok", "lambda p, i: ite(0 <= i and i < p._tokens_size, p._tokens[i], SENTINEL_NONE)")
define(
    "cursor_ok",
    "lambda p: p._index >= 0 and p._index <= p._tokens_size and p._tokens_size == len(p._tokens)"
    " and p._curr is tok(p, p._index) and p._next is tok(p, p._index + 1) and p._prev is tok(p, p._index - 1)",
)
define("tokens_real", "lambda p: forall(range(0, p._tokens_size), lambda i: p._tokens[i].token_type is not TokenType.SENTINEL)")
define("cursor_fields_same", "lambda p: p._index == old(p._index) and p._curr is old(p._curr) and p._next is old(p._next) and p._prev is old(p._prev)")

CURSOR = ["self._index", "self._curr", "self._next", "self._prev", "self._prev_comments"]

contract(
    P, "Parser._advance", props=["C05", "C13"],
    requires=["self._tokens_size == len(self._tokens)", "self._index + times >= 0", "self._index + times <= self._tokens_size"],
    ensures=["self._index == old(self._index) + times", "cursor_ok(self)"],
    modifies=CURSOR,
    must_fail=["self._index == old(self._index)"],
)
