"""Contracts for the parser cursor discipline and the error funnel (C05, C14, C13)."""
from pyvc.contract import contract, define, fields

P = "sqlglot/parser.py"

fields(
    _index="int", _tokens="list[Token]", _tokens_size="int", _curr="Token", _next="Token", _prev="Token",
    _prev_comments="list", token_type="TokenType", text="str", comments="list", errors="list",
    error_level="ErrorLevel", line="int", col="int", start="int", end="int", max_errors="int", sql="str",
    _chunks="list", _chunk_index="int", max_nodes="int", _node_count="int", error_message_context="int",
)

define("tok", "lambda p, i: ite(0 <= i and i < p._tokens_size, p._tokens[i], SENTINEL_NONE)")
define(
    "cursor_ok",
    "lambda p: p._index >= 0 and p._index <= p._tokens_size and p._tokens_size == len(p._tokens)"
    " and p._curr is tok(p, p._index) and p._next is tok(p, p._index + 1) and p._prev is tok(p, p._index - 1)",
)
define("tokens_real", "lambda p: forall(range(0, p._tokens_size), lambda i: p._tokens[i].token_type is not TokenType.SENTINEL)")
define("cursor_fields_same", "lambda p: p._index == old(p._index) and p._curr is old(p._curr) and p._next is old(p._next) and p._prev is old(p._prev)")

CURSOR = ["self._index", "self._curr", "self._next", "self._prev", "self._prev_comments"]

contract(
    P, "Parser._advance", props=["C05", "C13"],
    requires=["self._tokens_size == len(self._tokens)", "self._index + times >= 0", "self._index + times <= self._tokens_size"],
    ensures=["self._index == old(self._index) + times", "cursor_ok(self)"],
    modifies=CURSOR,
    must_fail=["self._index == old(self._index)"],
)

contract(
    P, "Parser._retreat", props=["C05"],
    requires=["self._tokens_size == len(self._tokens)", "index >= 0", "index <= self._tokens_size", "cursor_ok(self)"],
    ensures=["self._index == index", "cursor_ok(self)"],
    modifies=CURSOR,
)

contract(
    P, "Parser._advance_chunk", props=["C05"],
    requires=["self._chunk_index >= 0", "self._chunk_index < len(self._chunks)", "is_list(self._chunks[self._chunk_index])"],
    ensures=["self._index == 0", "self._tokens is old(self._chunks[self._chunk_index])", "cursor_ok(self)",
             "self._chunk_index == old(self._chunk_index) + 1"],
    modifies=CURSOR + ["self._tokens", "self._tokens_size", "self._chunk_index"],
    
)

# _add_comments only touches comments (expression.comments, self._prev_comments): declared opaque with that frame
ADD_COMMENTS = {"self._add_comments": dict(havoc=["self._prev_comments", "*.comments", "*._hash"], returns="none")}

MATCH_REQ = ["cursor_ok(self)", "tokens_real(self)"]

contract(
    P, "Parser._match", props=["C05"],
    requires=MATCH_REQ + ["token_type is not TokenType.SENTINEL"],
    ensures=[
        "is_bool(result)",
        "implies(result is True and advance, self._index == old(self._index) + 1)",
        "implies(result is False or not advance, cursor_fields_same(self))",
        "iff(result is True, old(self._curr.token_type) is token_type)",
        "cursor_ok(self)",
    ],
    modifies=CURSOR + ["*.comments", "*._hash"],
    opaque=ADD_COMMENTS,
    types={"token_type": "TokenType", "advance": "bool"},
)

contract(
    P, "Parser._match_set", props=["C05"],
    requires=MATCH_REQ + ["not (TokenType.SENTINEL in types)"],
    ensures=[
        "implies(result is True and advance, self._index == old(self._index) + 1)",
        "implies(result is False or not advance, cursor_fields_same(self))",
        "cursor_ok(self)", "is_bool(result)",
    ],
    modifies=CURSOR,
    types={"advance": "bool"},
)

contract(
    P, "Parser._match_pair", props=["C05"],
    requires=MATCH_REQ + ["token_type_a is not TokenType.SENTINEL", "token_type_b is not TokenType.SENTINEL"],
    ensures=[
        "implies(result is True and advance, self._index == old(self._index) + 2)",
        "implies(result is False or not advance, cursor_fields_same(self))",
        "cursor_ok(self)", "is_bool(result)",
    ],
    modifies=CURSOR,
    types={"token_type_a": "TokenType", "token_type_b": "TokenType", "advance": "bool"},
)

contract(
    P, "Parser._match_texts", props=["C05"],
    requires=MATCH_REQ + ["TokenType.SENTINEL in self.TEXT_MATCH_EXCLUDED_TOKENS"],
    ensures=[
        "implies(result is True and advance, self._index == old(self._index) + 1)",
        "implies(result is False or not advance, cursor_fields_same(self))",
        "cursor_ok(self)", "is_bool(result)",
    ],
    modifies=CURSOR,
    types={"advance": "bool"},
)

contract(
    P, "Parser._match_text_seq", props=["C05"],
    requires=MATCH_REQ + ["TokenType.SENTINEL in self.TEXT_MATCH_EXCLUDED_TOKENS"],
    ensures=[
        "implies(result is True and advance, self._index == old(self._index) + len(texts))",
        "implies(result is False or not advance, cursor_fields_same(self))",
        "cursor_ok(self)", "is_bool(result)",
    ],
    modifies=CURSOR,
    types={"advance": "bool", "texts": "str", "index": "int"},
    loops={0: dict(
        fp="text in texts",
        inv=["self._index == index + _k0", "index == old(self._index)", "cursor_ok(self)", "_k0 <= len(texts)",
             "excluded_tokens is self.TEXT_MATCH_EXCLUDED_TOKENS"],
        dec="len(texts) - _k0",
    )},
)
