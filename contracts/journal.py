"""C08 / C09: the optimizer's undo journal.  record() stores the CURRENT value of one arg (a list by shallow copy, so later in-place
edits of the live list do not change the record); revert() puts every recorded value back THROUGH Expression.set -- the operation that
re-links parent / arg_key / index and drops the cached hashes up the parent chain (contracts/core_tree.py) -- newest first, once per entry,
and empties the journal.  A revert that writes node.args directly keeps hashes cached between the rule and the roll-back."""
from pyvc.contract import contract, fields

fields(args="dict")
J = "sqlglot/optimizer/journal.py"

contract(
    J, "record", props=["C08", "C09"],
    types={"journal": "list[tuple]", "node": "Expression", "arg_key": "str"},
    requires=["not fresh(node.args)"],
    ensures=[
        "len(journal) == old(len(journal)) + 1",
        "journal[len(journal) - 1][0] is node",
        "journal[len(journal) - 1][1] is arg_key",
        # a scalar / node value is recorded as it is; a list is recorded as a NEW list (the live one may be edited in place afterwards)
        "implies(not is_list(node.args.get(arg_key)), journal[len(journal) - 1][2] is node.args.get(arg_key))",
        "implies(is_list(node.args.get(arg_key)), fresh(journal[len(journal) - 1][2]) and len(journal[len(journal) - 1][2]) == old(len(node.args.get(arg_key))))",
        # earlier entries stay
        "forall(int, lambda i: implies(0 <= i and i < old(len(journal)), journal[i] is old(journal[i])))",
    ],
    modifies=["journal[]", "fresh"],
)

contract(
    J, "revert", props=["C08", "C09"],
    types={"journal": "list[tuple]"},
    ensures=["len(journal) == 0", "ghost_sets == old(len(journal))"],
    modifies=["journal[]"],
    ghost={"counters": ["sets"], "post_uses_final_locals": True},
    opaque={"node.set": dict(counter="sets", returns="any")},
    loops={0: dict(fp="(node, arg_key, value) in reversed(journal)", inv=["ghost_sets == _k0", "_k0 <= len(journal)", "len(journal) == old(len(journal))"])},
    must_fail=["ghost_sets == 0"],
)
