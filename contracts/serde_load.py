"""C12: serde._load rebuilds one node from its payload -- the class named by the payload, and type / comments / meta taken
from the payload as they are (not re-derived from one another, not shared with anything else the function reads)."""
from pyvc.contract import contract, fields, uninterpreted

uninterpreted("loadf", 1)     # serde.load on the nested type payload (a function of that payload)
fields(_type="any", comments="any", _meta="any", args="dict")

contract(
    "sqlglot/serde.py", "_load", props=["C12"],
    types={"payload": "dict", "class_name": "str", "module_path": "str"},
    requires=["has(payload, 'c')", "is_str(payload['c'])"],
    ensures=[
        # a node (not a bare DType value): a fresh object carrying exactly what the payload recorded
        "implies(payload['c'] != 'DataType.Type', fresh(result))",
        "implies(payload['c'] != 'DataType.Type', result._type is loadf(payload.get('t')))",
        "implies(payload['c'] != 'DataType.Type', result.comments is payload.get('o'))",
        "implies(payload['c'] != 'DataType.Type', result._meta is payload.get('m'))",
    ],
    raises={"Exception": []},
    # nothing that existed before the call is written: neither the payload nor anything reachable from it
    modifies=["fresh"],
    opaque={
        "load": dict(returns="any", pure=True, uf="loadf"),
        "exp.DType": dict(returns="any", raises=["Exception"]),
        "__import__": dict(returns="any", raises=["Exception"]),
        "class_name.rsplit": dict(returns="tuple:str,str"),
        "getattr(module, class_name)": dict(returns="fresh:Expression", raises=["Exception"]),
    },
    must_fail=["result._meta is None"],
)

# serde.dump (per-node payload = that node's own comments / meta / type) was attempted as assert_at clauses at the end of each
# iteration of its stack loop; with two nested stack-filling loops the path count and the quantified frame conditions made VC
# generation take minutes and most VCs time out, so dump stays with the bounded check (DESIGN 9.8).
