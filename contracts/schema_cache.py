"""MappingSchema: cache coherence of find() w.r.t. the abstract view (mapping, mapping_trie)  (C18)."""
from pyvc.contract import contract, define, fields, uninterpreted

S = "sqlglot/schema.py"
fields(_find_cache="dict", view_version="int", mapping="dict", mapping_trie="dict", _depth="int", normalize="bool")

# F(view, table): what the uncached AbstractMappingSchema.find returns for the registrations `view`
uninterpreted("F", 2)
uninterpreted("dictcomp0", 1)
# G: the answer find() must give = F, with str types converted when ensure_data_types is set
define("G", "lambda view, table, edt: ite(truthy(edt) and isinstance(F(view, table), dict), dictcomp0(F(view, table)), F(view, table))")
# coherence: every (non-None) cache entry equals the answer computed from the current registrations
define("coh", "lambda s: forall(val, lambda t, e: implies(has(s._find_cache, (t, e)) and s._find_cache[(t, e)] is not None and is_bool(e),"
              " s._find_cache[(t, e)] is G(s.view_version, t, e)))")

# the uncached computation is the definition of F (assumed; its only inputs are the registrations and the table)
contract(
    S, "AbstractMappingSchema.find", props=["C18"], verify=False,
    ensures=["result is F(self.view_version, table)"],
    raises={"SchemaError": []},
    modifies=[],
)

contract(
    S, "MappingSchema.find", props=["C18"],
    types={"table": "Table", "raise_on_missing": "bool", "ensure_data_types": "bool"},
    requires=["coh(self)"],
    ensures=["coh(self)", "result is G(self.view_version, table, ensure_data_types)", "self.view_version == old(self.view_version)"],
    raises={"SchemaError": ["coh(self)", "self.view_version == old(self.view_version)"]},
    modifies=["self._find_cache{}"],
    must_fail=["result is None"],
)

contract(
    S, "MappingSchema.add_table", props=["C18"],
    types={"table": "any", "normalize": "bool|none", "match_depth": "bool", "normalized_table": "Table", "parts": "list"},
    requires=["coh(self)"],
    # whatever the new registrations are, no cache entry may survive that does not equal the answer a fresh schema gives
    ensures=["coh(self)"],
    raises={"SchemaError": ["coh(self)", "self.view_version == old(self.view_version)"]},
    modifies=["self._find_cache{}", "self.view_version", "self._depth"],
    opaque={
        "self._normalize_table": dict(returns="fresh:Table"),
        ".parts": dict(returns="list"), ".dialect": dict(returns="any"),
        "normalized_table.sql": dict(returns="str"),
        "self.depth": dict(havoc=["self._depth"], returns="int"),
        "ensure_column_mapping": dict(returns="dict"),
        "self.table_parts": dict(returns="list"),
        # the two mutators of the registrations: the abstract view changes arbitrarily
        "nested_set": dict(havoc=["self.view_version"]),
        "new_trie": dict(havoc=["self.view_version"]),
        "tuple": dict(returns="any"), "reversed": dict(returns="any"),
    },
    inline=["empty"],
)
