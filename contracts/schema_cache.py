"""MappingSchema: cache coherence of find() w.r.t. the abstract view (mapping, mapping_trie)  (C18)."""
from pyvc.contract import contract, define, fields, uninterpreted

S = "sqlglot/schema.py"
fields(_find_cache="dict", view_version="int", mapping="dict", mapping_trie="dict", _depth="int", normalize="bool")

# F(view, table): what the uncached AbstractMappingSchema.find returns for the registrations `view`
uninterpreted("F", 2)
uninterpreted("dictcomp0", 1)
# G: the answer find() must give = F, with str types converted when ensure_data_types is set
define("G", "lambda view, table, edt: ite(truthy(edt) and isinstance(F(view, table), dict), dictcomp0(F(view, table)), F(view, table))")
# Miss(view, table): the table does not resolve to exactly one registration (absent, or an ambiguous prefix)
uninterpreted("Miss", 2, "bool")
# coherence: every (non-None) cache entry is for a table that resolves, and equals the answer computed from the current
# registrations
define("coh", "lambda s: forall(val, lambda t, e: implies(has(s._find_cache, (t, e)) and s._find_cache[(t, e)] is not None and is_bool(e),"
              " not Miss(s.view_version, t) and s._find_cache[(t, e)] is G(s.view_version, t, e)))")

# the uncached computation is the definition of F and Miss (assumed; its only inputs are the registrations and the
# table).  Shape taken from _find_in_trie / nested_get: an unresolved table raises when raise_on_missing, else is None;
# a resolved one is the (non-None) registered mapping.
contract(
    S, "AbstractMappingSchema.find", props=["C18", "C15"], verify=False,
    ensures=["implies(Miss(self.view_version, table), result is None and not truthy(raise_on_missing))",
             "implies(not Miss(self.view_version, table), result is F(self.view_version, table) and result is not None)"],
    raises={"SchemaError": ["Miss(self.view_version, table)", "truthy(raise_on_missing)"]},
    modifies=[],
)

# the answer of a reused schema is the answer of a fresh one (C15) / of the current registrations (C18), whatever the
# cache holds and whichever way (strict / lenient) the table was asked for before
contract(
    S, "MappingSchema.find", props=["C18", "C15"],
    types={"table": "Table", "raise_on_missing": "bool", "ensure_data_types": "bool"},
    requires=["coh(self)"],
    ensures=["coh(self)", "self.view_version == old(self.view_version)",
             "implies(Miss(self.view_version, table), result is None and not truthy(raise_on_missing))",
             "implies(not Miss(self.view_version, table), result is G(self.view_version, table, ensure_data_types))"],
    raises={"SchemaError": ["coh(self)", "self.view_version == old(self.view_version)",
                            "Miss(self.view_version, table)", "truthy(raise_on_missing)"]},
    modifies=["self._find_cache{}"],
    must_fail=["result is None"],
)

contract(
    S, "MappingSchema.add_table", props=["C18"],
    types={"table": "any", "normalize": "bool|none", "match_depth": "bool", "normalized_table": "Table", "parts": "list"},
    requires=["coh(self)"],
    # whatever the new registrations are, no cache entry may survive that does not equal the answer a fresh schema gives
    ensures=["coh(self)"],
    raises={"SchemaError": ["coh(self)", "self.view_version == old(self.view_version)"]},
    modifies=["self._find_cache{}", "self.view_version", "self._depth"],
    opaque={
        "self._normalize_table": dict(returns="fresh:Table"),
        ".parts": dict(returns="list"), ".dialect": dict(returns="any"),
        "normalized_table.sql": dict(returns="str"),
        "self.depth": dict(havoc=["self._depth"], returns="int"),
        "ensure_column_mapping": dict(returns="dict"),
        "self.table_parts": dict(returns="list"),
        # the two mutators of the registrations: the abstract view changes arbitrarily
        "nested_set": dict(havoc=["self.view_version"]),
        "new_trie": dict(havoc=["self.view_version"]),
        "tuple": dict(returns="any"), "reversed": dict(returns="any"),
    },
    inline=["empty"],
)

# ------------------------------------------------------------------------------------------------------------------
# the two memo tables behind find(): a memoised answer equals the uncached one for *these* arguments, i.e. the key holds
# every input the uncached computation reads.  NN / TY stand for the uncached computations (assumed to be functions of
# exactly the listed arguments: for an Identifier, its text and its quoted flag; a string is parsed first, which the key records
# as quoted = None: the same text given as a string and as an unquoted Identifier may normalise differently, e.g. "a b").
uninterpreted("NN", 5)
uninterpreted("TY", 2)
uninterpreted("dkey", 1)       # schema._dialect_cache_key: type + version + strategy + settings of a Dialect instance (else the value itself)
uninterpreted("name_of", 1)    # Identifier.name / .quoted (properties over args): functions of the node, which is not mutated here
uninterpreted("quoted_of", 1)
fields(_normalized_name_cache="dict", _type_mapping_cache="dict", _dialect="Dialect", quoted="bool")
define("name_coh", "lambda s: forall(val, lambda n, q, d, t, z: implies(has(s._normalized_name_cache, (n, q, d, t, z)) and (is_bool(q) or q is None) and is_bool(t) and is_bool(z),"
                   " is_str(s._normalized_name_cache[(n, q, d, t, z)]) and implies(truthy(s._normalized_name_cache[(n, q, d, t, z)]),"
                   " s._normalized_name_cache[(n, q, d, t, z)] is NN(n, q, d, t, z))))")
define("type_coh", "lambda s: forall(val, lambda x, d: implies(has(s._type_mapping_cache, (x, d)), s._type_mapping_cache[(x, d)] is TY(x, d)))")

# what normalize_name reads of its first argument, stated over the ARGUMENT (not over the locals the code derives its key from)
define("arg_text", "lambda x: x if is_str(x) else name_of(x)")
define("arg_quoted", "lambda x: None if is_str(x) else quoted_of(x)")

contract(
    S, "MappingSchema._normalize_name", props=["C18", "C15"],
    types={"name": "str|Identifier", "dialect": "any", "is_table": "bool", "normalize": "bool|none", "name_str": "str"},
    requires=["name_coh(self)", "is_bool(self.normalize)"],
    ensures=["name_coh(self)",
             # whatever the cache held, the answer is the uncached one for this very name (text + quoted flag), dialect and flags
             "result is NN(arg_text(name), arg_quoted(name), dkey(dialect), is_table, normalize)"],
    modifies=["self._normalized_name_cache{}"],
    ghost={"post_uses_final_locals": True},
    opaque={
        # assumed: the uncached computation depends on the dialect only through what the cache key records of it
        "normalize_name": dict(returns="Identifier", ensures=["name_of(result) is NN(arg_text(a0), arg_quoted(a0), dkey(dialect), is_table, normalize)"]),
        "_dialect_cache_key": dict(returns="any", pure=True, uf="dkey"),
        ".name": dict(returns="str", pure=True, uf="name_of"), ".quoted": dict(returns="bool", pure=True, uf="quoted_of"),
    },
    inline=["dialect"],
)

contract(
    S, "MappingSchema._to_data_type", props=["C18", "C15"],
    types={"schema_type": "str", "dialect": "any"},
    requires=["type_coh(self)"],
    ensures=["type_coh(self)", "result is TY(schema_type, dkey(dialect))"],
    raises={"SchemaError": ["type_coh(self)"]},
    modifies=["self._type_mapping_cache{}"],
    ghost={"post_uses_final_locals": True},
    opaque={
        "Dialect.get_or_raise": dict(returns="Dialect", pure=True),
        ".SUPPORTS_USER_DEFINED_TYPES": dict(returns="bool"),
        "exp.DataType.from_str": dict(returns="Expression", raises=["AttributeError"], ensures=["result is TY(schema_type, dkey(dialect))"]),
        "_dialect_cache_key": dict(returns="any", pure=True, uf="dkey"),
        # normalises the identifiers of the freshly built type in place; returns the same node
        "expression.transform": dict(returns="any", raises=["AttributeError"]),
    },
    inline=["dialect"],
)
