"""C09: the copy funnels -- with copy=True only freshly allocated objects are handed on / written."""
from pyvc.contract import contract, define, fields
import contracts.generator_fmt  # Generator.generate carries the C09 clause for sql()

CORE = "sqlglot/expressions/core.py"

contract(
    CORE, "maybe_copy", props=["C09"],
    types={"instance": "Expression|none", "copy": "bool"},
    ensures=[
        "implies(copy and instance is not None, fresh(result))",
        "implies(not copy or instance is None, result is instance)",
    ],
    modifies=[],   # nothing that existed before the call is written
    opaque={"instance.copy": dict(returns="fresh:Expression")},
    must_fail=["result is instance"],
)

contract(
    CORE, "maybe_parse", props=["C09"],
    types={"sql_or_expression": "any", "copy": "bool", "prefix": "str|none"},
    ensures=[
        "implies(isinstance(sql_or_expression, Expr) and copy, fresh(result))",
        "implies(isinstance(sql_or_expression, Expr) and not copy, result is sql_or_expression)",
        "implies(not isinstance(sql_or_expression, Expr), fresh(result))",
    ],
    raises={"ParseError": [], "Exception": []},
    modifies=[],
    opaque={
        "sql_or_expression.copy": dict(returns="fresh:Expression"),
        "sqlglot.parse_one": dict(returns="fresh:Expression", raises=["Exception"]),
        "str": dict(returns="str"),
    },
    must_fail=["result is sql_or_expression"],
)

contract(
    "sqlglot/optimizer/optimizer.py", "optimize", props=["C09"],
    # mechanically extracted statement: the entry copy; scans/c09.py checks `expression` is not used afterwards
    slice_from="optimized = exp.maybe_parse(",
    types={"expression": "any"},
    ensures=["implies(isinstance(expression, Expr), fresh(optimized))"],
    raises={"ParseError": [], "Exception": []},
    ghost={"post_uses_final_locals": True},
    modifies=[],
)

# the conjunction builders (where / having / on / qualify ...): with copy=True the result is never the instance itself -- also when
# there is nothing to add -- and the instance is not written
contract(
    CORE, "_apply_conjunction_builder", props=["C09"],
    types={"expressions": "tuple", "instance": "Expression", "arg": "str", "into": "any", "append": "bool", "copy": "bool", "dialect": "any", "opts": "any"},
    ensures=[
        "implies(copy, fresh(result))",
        "implies(not copy, result is instance)",
    ],
    raises={"Exception": []},
    modifies=["fresh", "implies(not copy, instance.*)"],
    opaque={
        "instance.copy": dict(returns="fresh:Expression"),
        "and_": dict(returns="fresh:Expression", raises=["Exception"]),
        "into": dict(returns="fresh:Expression"),
        "inst.set": dict(returns="any"),
        "inst.args.get": dict(returns="any"),
    },
    must_fail=["result is instance"],
)

contract(
    CORE, "_apply_builder", props=["C09"],
    types={"expression": "any", "instance": "Expression", "arg": "str", "copy": "bool", "prefix": "str|none", "into": "any", "dialect": "any", "into_arg": "str", "opts": "any"},
    ensures=["implies(copy, fresh(result))", "implies(not copy, result is old(instance))"],
    raises={"Exception": []},
    modifies=["fresh"],   # the instance handed in is written only through set() on the object returned by maybe_copy
    opaque={
        "_is_wrong_expression": dict(returns="bool", pure=True),
        "into": dict(returns="fresh:Expression"),
        "maybe_parse": dict(returns="any", raises=["Exception"]),
        "instance.set": dict(returns="any"),
        "instance.copy": dict(returns="fresh:Expression"),
    },
    must_fail=["result is old(instance)"],
)

# _apply_list_builder / _apply_child_list_builder build their argument lists in comprehensions / loops that call maybe_parse per element:
# outside the engine's comprehension support; they stay with the bounded builder family of bounded/c09.py.
