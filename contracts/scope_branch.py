"""C10 / C17: Scope.branch gives the child scope its OWN map of visible CTEs: the inherited definitions overridden, name by name,
by the ones defined so far in the enclosing WITH (an inner definition shadows an outer one), and never the parent's dict object
(a child registering its CTEs must not make them visible to its parent's other children)."""
from pyvc.contract import contract, fields

fields(cte_sources="dict", parent="any", can_be_correlated="bool")

contract(
    "sqlglot/optimizer/scope.py", "Scope.branch", props=["C10", "C17"],
    types={"expression": "Expression", "scope_type": "any", "sources": "dict|none", "cte_sources": "dict|none", "lateral_sources": "dict|none", "outer_columns": "list|none"},
    # heap well-formedness at entry: what self holds was allocated before the call (true of every real heap; the engine only knows it
    # relative to the allocation point of the load)
    requires=["not fresh(self.cte_sources)"],
    # `nonempty` antecedents: the engine tracks the length and the key set of an arbitrary dict separately; a real dict holding a key is
    # non-empty, so on real heaps the antecedent is implied by has(...) (stated per clause, not as a quantified precondition, so the
    # satisfiability guards stay quantifier-free)
    ensures=[
        "fresh(result)",
        "result.cte_sources is not self.cte_sources",
        "fresh(result.cte_sources)",
        # inner definitions win; everything else is inherited
        "forall(val, lambda k: implies(cte_sources is not None and has(cte_sources, k) and len(cte_sources) > 0, has(result.cte_sources, k)))",
        "forall(val, lambda k: implies(cte_sources is not None and has(cte_sources, k) and len(cte_sources) > 0, result.cte_sources[k] is cte_sources[k]))",
        "forall(val, lambda k: implies(has(self.cte_sources, k) and len(self.cte_sources) > 0 and (cte_sources is None or not has(cte_sources, k)), has(result.cte_sources, k) and result.cte_sources[k] is self.cte_sources[k]))",
        "forall(val, lambda k: implies(has(result.cte_sources, k), has(self.cte_sources, k) or (cte_sources is not None and has(cte_sources, k))))",
    ],
    modifies=["fresh"],
    opaque={
        "expression.unnest": dict(returns="Expression"),
        "sources.copy": dict(returns="fresh:dict"), "lateral_sources.copy": dict(returns="fresh:dict"),
        # Scope.__init__ stores `cte_sources or {}`
        "Scope": dict(returns="fresh:Scope", ensures=["implies(truthy(cte_sources), result.cte_sources is cte_sources)",
                                                       "implies(not truthy(cte_sources), fresh(result.cte_sources) and len(result.cte_sources) == 0 and forall(val, lambda k: not has(result.cte_sources, k)))"]),
    },
)
