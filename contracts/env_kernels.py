"""Executor NULL-propagating kernels against SQL three-valued logic (C11)."""
from pyvc.contract import contract, define, uninterpreted

ENV = "sqlglot/executor/env.py"

# t3: SQL truth value of a python value as seen by the executor: None -> NULL (0), falsy -> FALSE (-1), truthy -> TRUE (1)
define("t3", "lambda v: ite(v is None, 0, ite(truthy(v), 1, -1))")
define("not3", "lambda a: 0 - a")
define("and3", "lambda a, b: min(a, b)")
define("or3", "lambda a, b: max(a, b)")

SCALAR = "none|bool|int"
uninterpreted("leftval", 0)
uninterpreted("rightval", 0)

contract(
    ENV, "sql_not", props=["C11"], types={"value": SCALAR},
    ensures=["t3(result) == not3(t3(value))", "result is None or is_bool(result)"],
    modifies=[], must_fail=["result is None"],
)

THUNKS = {
    "left": dict(pure=True, uf="leftval", returns=SCALAR),
    "right": dict(pure=True, uf="rightval", returns=SCALAR),
}
for name, op in (("sql_and", "and3"), ("sql_or", "or3")):
    contract(
        ENV, name, props=["C11"], types={"left": "func", "right": "func"},
        # the thunks are pure (deterministic, no effect): the result must be the Kleene connective of their values,
        # whether or not the short-circuit evaluated the right one
        ensures=[f"t3(result) == {op}(t3(leftval()), t3(rightval()))", "result is None or is_bool(result)"],
        modifies=[], opaque=THUNKS, must_fail=["result is None"],
    )

VAL = "none|bool|int|str"
EQ = "exists(range(0, len(candidates)), lambda j: candidates[j] is not None and value == candidates[j])"
NUL = "exists(range(0, len(candidates)), lambda j: candidates[j] is None)"
contract(
    ENV, "sql_in", props=["C11"], types={"value": VAL, "candidates": VAL, "has_null": "bool"},
    ensures=[
        "implies(value is None, result is None)",
        f"implies(value is not None and {EQ}, result is True)",
        f"implies(value is not None and not {EQ} and {NUL}, result is None)",
        f"implies(value is not None and not {EQ} and not {NUL}, result is False)",
    ],
    modifies=[],
    loops={0: dict(
        fp="candidate in candidates",
        inv=["value is not None", "_k0 <= len(candidates)",
             "has_null == exists(range(0, _k0), lambda j: candidates[j] is None)",
             "forall(range(0, _k0), lambda j: candidates[j] is None or not (value == candidates[j]))"],
        dec="len(candidates) - _k0",
    )},
    must_fail=["result is None"],
)

uninterpreted("wrapped", 1)
WRAPPED = {"func": dict(pure=True, uf="wrapped")}
ANYNULL = "exists(range(0, len(args)), lambda i: args[i] is None)"
contract(
    ENV, "null_if_any.decorator._func", variant="all_args", props=["C11"],
    types={"^func": "func"}, ghost={"bind": {"predicate": 1}},
    ensures=[f"implies({ANYNULL}, result is None)", f"implies(not {ANYNULL}, result is wrapped(args))"],
    modifies=[], opaque=WRAPPED, must_fail=["result is None"],
)
REQNULL = "exists(range(0, len(required_indices)), lambda j: args[required_indices[j]] is None)"
contract(
    ENV, "null_if_any.decorator._func", variant="required", props=["C11"],
    types={"^func": "func", "^required_indices": "list[int]"}, ghost={"bind": {"predicate": 0}},
    requires=["forall(range(0, len(required_indices)), lambda j: 0 <= required_indices[j] and required_indices[j] < len(args))"],
    ensures=[f"implies({REQNULL}, result is None)", f"implies(not {REQNULL}, result is wrapped(args))"],
    modifies=[], opaque=WRAPPED, must_fail=["result is None"],
)

contract(
    ENV, "filter_nulls._func", props=["C11"],
    types={"values": "list", "^func": "func", "^empty_null": "bool"},
    ensures=[
        "implies(forall(range(0, len(values)), lambda i: values[i] is None) and empty_null, result is None)",
        "implies(not (forall(range(0, len(values)), lambda i: values[i] is None) and empty_null), result is wrapped(filtered))",
        # the aggregate sees exactly the non-NULL values
        "forall(range(0, len(filtered)), lambda i: filtered[i] is not None and exists(range(0, len(values)), lambda j: values[j] is filtered[i]))",
        "forall(range(0, len(values)), lambda j: values[j] is None or exists(range(0, len(filtered)), lambda i: filtered[i] is values[j]))",
        "len(filtered) <= len(values)",
    ],
    modifies=[], opaque=WRAPPED, ghost={"post_uses_final_locals": True, "post_locals": {"filtered": "list"}},
    must_fail=["result is None"],
)
