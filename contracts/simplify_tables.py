"""C06: the range-reasoning table of Simplifier._simplify_comparison, against SQL three-valued logic."""
from pyvc.contract import contract, define, fields

S = "sqlglot/optimizer/simplify.py"

define("is_cmp", "lambda n: isinstance(n, LT) or isinstance(n, LTE) or isinstance(n, GT) or isinstance(n, GTE) or isinstance(n, EQ) or isinstance(n, NEQ)")
# truth of the comparison `column <op> v` for a non-NULL column value x
define("holds", "lambda n, v, x: ite(isinstance(n, LT), x < v, ite(isinstance(n, LTE), x <= v, ite(isinstance(n, GT), x > v,"
                " ite(isinstance(n, GTE), x >= v, ite(isinstance(n, EQ), x == v, x != v)))))")
define("ev3", "lambda n, v, x: ite(holds(n, v, x), 1, -1)")                      # 1 TRUE, -1 FALSE (0 would be NULL)
define("res3", "lambda res, left, l, right, r, x: ite(isinstance(res, Boolean), -1, ite(res is left, ev3(left, l, x), ev3(right, r, x)))")

contract(
    S, "Simplifier._simplify_comparison", props=["C06"],
    # mechanically extracted slice: the decision table (the loop over both operand orders); l, r are the two literal values
    slice_from="for (a, av), (b, bv) in itertools.permutations",
    types={"left": "Expression", "right": "Expression", "l": "int", "r": "int", "or_": "bool"},
    requires=["is_cmp(left)", "is_cmp(right)", "left is not right"],
    ensures=[
        "result is None or isinstance(result, Boolean) or result is left or result is right",
        # for every non-NULL column value the replacement has the truth value of the connective of both comparisons
        "forall(int, lambda x: implies(result is not None, res3(result, left, l, right, r, x) == ite(or_, max(ev3(left, l, x), ev3(right, r, x)), min(ev3(left, l, x), ev3(right, r, x)))))",
        # for a NULL column both comparisons are NULL, so the connective is NULL: a FALSE replacement changes the value
        "implies(result is not None, not isinstance(result, Boolean))",
    ],
    modifies=[],
    opaque={"exp.false": dict(returns="fresh:Boolean")},
    ghost={"concrete_attrs": ["LT_LTE", "GT_GTE"]},
)

# ---- the connector table (AND / OR over the constant-like operands) against Kleene logic -----------------------------
from pyvc.contract import uninterpreted

uninterpreted("tv", 1, "int")   # truth value of a node under an arbitrary fixed assignment: 1 TRUE, 0 NULL, -1 FALSE
for _p in ("p_false", "p_null", "p_zero", "p_true"):
    uninterpreted(_p, 1)
# meaning of the leaf predicates (read off their definitions: FALSE literal, NULL, numeric literal 0, TRUE / non-zero number)
LEAF = [
    "forall(val, lambda n: implies(truthy(p_false(n)), tv(n) == -1))",
    "forall(val, lambda n: implies(truthy(p_null(n)), tv(n) == 0))",
    "forall(val, lambda n: implies(truthy(p_zero(n)), tv(n) == -1))",
    "forall(val, lambda n: implies(truthy(p_true(n)), tv(n) == 1))",
    "forall(val, lambda n: tv(n) == 1 or tv(n) == 0 or tv(n) == -1)",
]
contract(
    S, "Simplifier.simplify_connectors._simplify_connectors", props=["C06"],
    types={"expression": "Expression", "left": "Expression", "right": "Expression", "^self": "Simplifier"},
    requires=LEAF,
    ensures=[
        "implies(result is not None and isinstance(expression, And), tv(result) == min(tv(left), tv(right)))",
        "implies(result is not None and isinstance(expression, Or), tv(result) == max(tv(left), tv(right)))",
        "implies(not isinstance(expression, And) and not isinstance(expression, Or), result is None)",
    ],
    modifies=[],
    opaque={
        "is_false": dict(pure=True, uf="p_false"), "is_null": dict(pure=True, uf="p_null"), "is_zero": dict(pure=True, uf="p_zero"),
        "always_true": dict(pure=True, uf="p_true"),
        # always_false(x) = is_false(x) or is_null(x) or is_zero(x)   (its definition, checked by the contract below)
        "always_false": dict(pure=True, uf="p_afalse", ensures=["truthy(result) == (truthy(p_false(a0)) or truthy(p_null(a0)) or truthy(p_zero(a0)))"]),
        "exp.false": dict(returns="fresh:Boolean", ensures=["tv(result) == -1"]),
        "exp.true": dict(returns="fresh:Boolean", ensures=["tv(result) == 1"]),
        "exp.null": dict(returns="fresh:Null", ensures=["tv(result) == 0"]),
        # the range table: sound for non-NULL operands (proved above); None = no rewrite
        "self._simplify_comparison": dict(returns="Expression|none", ensures=[
            "implies(result is not None and isinstance(expression, And), tv(result) == min(tv(left), tv(right)))",
            "implies(result is not None and isinstance(expression, Or), tv(result) == max(tv(left), tv(right)))"]),
    },
)
uninterpreted("p_afalse", 1)

contract(
    S, "always_false", props=["C06"],
    types={"expression": "any"},
    ensures=["truthy(result) == (truthy(p_false(expression)) or truthy(p_null(expression)) or truthy(p_zero(expression)))"],
    modifies=[],
    opaque={"is_false": dict(pure=True, uf="p_false"), "is_null": dict(pure=True, uf="p_null"), "is_zero": dict(pure=True, uf="p_zero")},
)
