"""C06: the range-reasoning table of Simplifier._simplify_comparison, against SQL three-valued logic."""
from pyvc.contract import contract, define, fields

S = "sqlglot/optimizer/simplify.py"

define("is_cmp", "lambda n: isinstance(n, LT) or isinstance(n, LTE) or isinstance(n, GT) or isinstance(n, GTE) or isinstance(n, EQ) or isinstance(n, NEQ)")
# truth of the comparison `column <op> v` for a non-NULL column value x
define("holds", "lambda n, v, x: ite(isinstance(n, LT), x < v, ite(isinstance(n, LTE), x <= v, ite(isinstance(n, GT), x > v,"
                " ite(isinstance(n, GTE), x >= v, ite(isinstance(n, EQ), x == v, x != v)))))")
define("ev3", "lambda n, v, x: ite(holds(n, v, x), 1, -1)")                      # 1 TRUE, -1 FALSE (0 would be NULL)
define("res3", "lambda res, left, l, right, r, x: ite(isinstance(res, Boolean), -1, ite(res is left, ev3(left, l, x), ev3(right, r, x)))")

contract(
    S, "Simplifier._simplify_comparison", props=["C06"],
    # mechanically extracted slice: the decision table (the loop over both operand orders); l, r are the two literal values
    slice_from="for (a, av), (b, bv) in itertools.permutations",
    types={"left": "Expression", "right": "Expression", "l": "int", "r": "int", "or_": "bool"},
    requires=["is_cmp(left)", "is_cmp(right)", "left is not right"],
    ensures=[
        "result is None or isinstance(result, Boolean) or result is left or result is right",
        # for every non-NULL column value the replacement has the truth value of the connective of both comparisons
        "forall(int, lambda x: implies(result is not None, res3(result, left, l, right, r, x) == ite(or_, max(ev3(left, l, x), ev3(right, r, x)), min(ev3(left, l, x), ev3(right, r, x)))))",
        # for a NULL column both comparisons are NULL, so the connective is NULL: a FALSE replacement changes the value
        "implies(result is not None, not isinstance(result, Boolean))",
    ],
    modifies=[],
    opaque={"exp.false": dict(returns="fresh:Boolean")},
    ghost={"concrete_attrs": ["LT_LTE", "GT_GTE"]},
)
