"""Tokenizer position bookkeeping and the TokenError funnel (C13, C05)."""
from pyvc.contract import contract, define, fields, axiom

T = "sqlglot/tokenizer_core.py"
fields(sql="str", size="int", _current="int", _line="int", _col="int", _char="str", _peek="str", _end="bool", _start="int", tokens="list[Token]",
       _comments="list", _prev_token_line="int")

axiom("empty-string-is-not-alnum", "lambda: not ''.isalnum()", check="lambda c: not ''.isalnum()")

# the cursor caches agree with the offset:  _char is the character just consumed, _peek the next one
define("tcursor_ok", "lambda s: s.size == len(s.sql) and 1 <= s._current and s._current <= s.size and s._char == s.sql[s._current - 1]"
       " and s._end == (s._current >= s.size) and s._peek == ite(s._end, '', s.sql[s._current])")

ADV_ENS = [
    "self._current == old(self._current) + i", "tcursor_ok(self)",
    # leaving a line break starts a new line (a CR directly followed by LF does not), otherwise the column moves by i
    "implies(old(self._char) != '\\n' and old(self._char) != '\\r', self._line == old(self._line) and self._col == old(self._col) + i)",
    "implies(old(self._char) == '\\n' or (old(self._char) == '\\r' and old(self._peek) != '\\n'), self._line == old(self._line) + 1 and self._col == i)",
    "implies(old(self._char) == '\\r' and old(self._peek) == '\\n', self._line == old(self._line) and self._col == old(self._col))",
]
ADV_MOD = ["self._current", "self._line", "self._col", "self._char", "self._peek", "self._end"]

contract(
    T, "TokenizerCore._advance", variant="plain", props=["C13", "C05"],
    types={"i": "int", "alnum": "bool", "char": "str", "sql": "str", "size": "int"},
    requires=["self.size == len(self.sql)", "not alnum", "self._current + i >= 1", "self._current + i <= self.size"],
    ensures=ADV_ENS, modifies=ADV_MOD,
    must_fail=["self._line == old(self._line)"],
)

# the batched alnum path: after the first step the cursor may run on over alphanumerics, one column per character
contract(
    T, "TokenizerCore._advance", variant="alnum", props=["C13", "C05"],
    types={"i": "int", "alnum": "bool", "char": "str", "sql": "str", "size": "int", "_col": "int", "_current": "int", "_end": "bool", "_peek": "str"},
    requires=["self.size == len(self.sql)", "alnum", "i == 1", "self._current + i >= 1", "self._current + i <= self.size",
              "old_char_is_not_newline(self)"],
    ensures=[
        "self._current >= old(self._current) + 1", "tcursor_ok(self)", "self._line == old(self._line)",
        "self._col - self._current == old(self._col) - old(self._current)",
        # every character run over is alphanumeric, and the run stops at the first non-alphanumeric one
        "forall(range(old(self._current) + 1, self._current), lambda j: self.sql[j].isalnum())",
        "implies(self.sql[old(self._current)].isalnum(), not self._peek.isalnum())",
        "implies(not self.sql[old(self._current)].isalnum(), self._current == old(self._current) + 1)",
    ],
    modifies=ADV_MOD,
    loops={0: dict(
        fp="_peek.isalnum()",
        inv=["_current >= old(self._current) + 1", "_current <= size", "size == len(sql)", "sql is self.sql", "size == self.size",
             "_end == (_current >= size)", "_peek == ite(_end, '', sql[_current])",
             "_col - _current == old(self._col) - old(self._current)",
             "forall(range(old(self._current) + 1, _current), lambda j: sql[j].isalnum())",
             "self._line == old(self._line)", "self._char == sql[old(self._current)]", "self._char.isalnum()"],
        dec="size - _current",
    )},
)
define("old_char_is_not_newline", "lambda s: s._char != '\\n' and s._char != '\\r'")

contract(
    T, "TokenizerCore._chars", props=["C13"],
    types={"size": "int"},
    requires=["tcursor_ok(self)", "size >= 1"],
    ensures=["implies(self._current - 1 + size <= self.size, result == substr(self.sql, self._current - 1, self._current - 1 + size))",
             "implies(self._current - 1 + size > self.size and size != 1, result == '')"],
    modifies=[],
)

contract(
    T, "TokenizerCore.tokenize", props=["C05", "C13", "C15"],
    types={"sql": "str"},
    # every scan starts from the state of a fresh tokenizer, whatever the object tokenized before (positions of the
    # first token depend on _char / _line / _col at this point)
    assert_at=[("try:", ["self._char == ''", "self._peek == ''", "self._current == 0", "self._start == 0", "self._line == 1", "self._col == 0",
                         "self._end is False", "len(self.tokens) == 0", "len(self._comments) == 0", "self._prev_token_line == -1"])],
    ensures=["result is self.tokens", "self.sql == sql", "self.size == len(sql)"],
    # whatever the scanner raises, only a TokenError (with an in-range context window) leaves tokenize
    raises={"TokenError": ["0 <= exc.start", "exc.end <= len(sql) - 1", "exc.start <= self._current", "exc.end <= self._current + 50"]},
    modifies=None,
    inline=["reset"],
    opaque={"self._scan": dict(havoc=["*"], raises=["Exception"], returns="none",
                               ensures=["self.sql == old(self.sql)", "self.size == old(self.size)"],
                               ensures_exc=["self.sql == old(self.sql)", "self.size == old(self.size)", "self._current >= 0"])},
)

fields(token_type="TokenType", text="str", line="int", col="int", start="int", end="int", comments="list")
define("last_token", "lambda s: s.tokens[len(s.tokens) - 1]")

contract(
    T, "TokenizerCore._add", props=["C13"],
    types={"token_type": "TokenType", "text": "str|none"},
    requires=["self.size == len(self.sql)", "0 <= self._start", "self._start <= self._current", "self._current <= self.size",
              # separation: comment buffers are not the token list itself
              "self._comments is not self.tokens", "forall(range(0, len(self.tokens)), lambda i: self.tokens[i].comments is not self.tokens)"],
    # verified slice: everything up to the command-rest handling; the stamped token describes the scanned span
    stop_at="if token_type in self.commands",
    ensures=[
        "len(self.tokens) == old(len(self.tokens)) + 1",
        "isinstance(last_token(self), Token)",
        "last_token(self).start == self._start", "last_token(self).end == self._current - 1",
        "last_token(self).line == self._line", "last_token(self).col == self._col",
        "last_token(self).token_type is token_type",
        "implies(old(text) is None, last_token(self).text == substr(self.sql, self._start, self._current))",
        "implies(old(text) is not None, last_token(self).text == old(text))",
        "self._prev_token_line == self._line",
    ],
    modifies=None,
    inline=["Token"],
)
