#!/usr/bin/env python3
"""check.py <Cxx> [--tier quick|thorough] [--replay path]

Decides one property on /repo's current working tree:
  tier A  contracts discharged by PyVC (python3-vt + z3/cvc5 subprocesses)            -> proved, all inputs
  scans   mechanical frame scans of the real source (reads of error_level etc.)        -> checked frame conditions
  tier B  run-time contract checks under exhaustive small-scope enumeration (/venv py) -> bounded, labelled so
Exit 0 held / 1 VIOLATION / 2 undecided / 3 checker error.
"""
import argparse
import hashlib
import importlib
import json
import os
import subprocess
import sys
import tempfile
import time

HERE = os.path.dirname(os.path.abspath(__file__))
sys.path.insert(0, HERE)
from vlib import common  # noqa: E402
import props as P  # noqa: E402

REPO = common.REPO
BASELINE = os.path.join(HERE, "baseline", "functions.json")


def run_json(cmd, env=None, timeout=None):
    with tempfile.NamedTemporaryFile("r", suffix=".json", delete=False) as tf:
        out = tf.name
    try:
        p = subprocess.run(cmd + [out], cwd=HERE, env=env, capture_output=True, text=True, timeout=timeout)
        if p.returncode != 0:
            return None, (p.stdout[-3000:] + "\n" + p.stderr[-3000:])
        with open(out) as f:
            return json.load(f), p.stderr[-2000:]
    finally:
        try:
            os.unlink(out)
        except OSError:
            pass


def tier_a(prop, mods, tier):
    if not mods:
        return None
    mods = [m for m in mods if os.path.exists(os.path.join(HERE, m.replace(".", "/") + ".py"))]
    if not mods:
        return None
    env = dict(os.environ, PYTHONPATH=f"{HERE}:{REPO}", VERIF_REPO=REPO)
    timeout = "10" if tier == "quick" else "60"
    res, err = run_json([common.VT_PY, "-m", "pyvc.run", *mods, "--prop", prop, "--timeout", timeout, "--json"], env=env, timeout=3600)
    if res is None:
        raise RuntimeError("tier A driver failed:\n" + err)
    return res


def tier_b(prop, mod, tier):
    if not mod or not os.path.exists(os.path.join(HERE, mod.replace(".", "/") + ".py")):
        return None
    env = dict(os.environ, PYTHONPATH=f"{HERE}:{REPO}", VERIF_REPO=REPO, PYTHONHASHSEED="0")
    res, err = run_json(["/venv/bin/python", "-m", mod, "--tier", tier, "--seed", str(common.seed()), "--out"], env=env, timeout=7200)
    if res is None:
        raise RuntimeError("tier B driver failed:\n" + err)
    return res


def run_scans(prop, names):
    out = []
    for n in names or []:
        path = os.path.join(HERE, "scans", n + ".py")
        if not os.path.exists(path):
            continue
        env = dict(os.environ, PYTHONPATH=f"{HERE}:{REPO}", VERIF_REPO=REPO)
        res, err = run_json([common.VT_PY, "-m", "scans." + n, "--out"], env=env, timeout=600)
        if res is None:
            raise RuntimeError(f"scan {n} failed:\n{err}")
        out.append(res)
    return out


def baseline():
    if os.path.exists(BASELINE):
        return json.load(open(BASELINE))
    return {}


def okey(func, ob):
    h = hashlib.sha1(ob["text"].encode()).hexdigest()[:8]
    return f"pyvc:{func}:{ob['kind']}:{h}"


def main():
    ap = argparse.ArgumentParser()
    ap.add_argument("prop")
    ap.add_argument("--tier", default=os.environ.get("VERIF_TIER", "quick"), choices=["quick", "thorough"])
    ap.add_argument("--replay")
    ap.add_argument("--write-baseline", action="store_true")
    a = ap.parse_args()
    prop = a.prop
    cfg = P.PROPS.get(prop)
    if cfg is None:
        print(f"property {prop} is not claimed: {P.NOT_APPLICABLE.get(prop, 'unknown id')}")
        sys.exit(2)
    if a.replay:
        entry = json.load(open(a.replay))
        if entry.get("tier") == "A" and entry.get("native_witness"):
            # re-run the native evaluation of the kernel contracts on the real function and look for the same failing case
            wit = os.path.join("/tmp", f"replay-{os.getpid()}.json")
            subprocess.run(["/venv/bin/python", os.path.join(HERE, "selftest", "crosscheck.py"), "--json", wit], cwd=HERE, capture_output=True, text=True,
                           env=dict(os.environ, PYTHONPATH=f"{HERE}:{REPO}", VERIF_REPO=REPO), timeout=600)
            hits = json.load(open(wit))
            os.remove(wit)
            w = entry["native_witness"]
            same = [h for h in hits if h["function"] == w["function"] and h["args"] == w["args"] and h["clause"] == w["clause"]]
            print(json.dumps({"violated": bool(same), "observed": same[0] if same else "the recorded input satisfies the contract on this tree"}, indent=1))
            sys.exit(1 if same else 0)
        if entry.get("tier") == "A":
            print(json.dumps({k: entry[k] for k in ("key", "what", "function") if k in entry}, indent=1))
            print("tier-A obligation: re-run the check to re-derive it; solver output is in the replay file")
            sys.exit(1)
        mod = cfg.get("tier_b")
        p = subprocess.run(["/venv/bin/python", "-m", mod, "--replay", a.replay], cwd=HERE, env=dict(os.environ, PYTHONPATH=f"{HERE}:{REPO}", VERIF_REPO=REPO))
        sys.exit(p.returncode)

    t0 = time.time()
    violations = []
    undecided = []
    assumptions = set()
    trusted = set()
    cov = {}
    base = baseline()
    try:
        ra = tier_a(prop, cfg.get("tier_a"), a.tier)
        extra = []
        if cfg.get("regtrans") and os.path.exists(os.path.join(HERE, "pyvc", "regtrans.py")):
            r = run_json([common.VT_PY, "-m", "pyvc.regtrans", "--prop", prop, "--out"], env=dict(os.environ, PYTHONPATH=f"{HERE}:{REPO}", VERIF_REPO=REPO), timeout=1800)
            if r[0] is None:
                raise RuntimeError("regtrans failed:\n" + r[1])
            extra.append(r[0])
        if cfg.get("projection") and os.path.exists(os.path.join(HERE, "pyvc", "projection.py")):
            r = run_json([common.VT_PY, "-m", "pyvc.projection", "--out"], env=dict(os.environ, PYTHONPATH=f"{HERE}:{REPO}", VERIF_REPO=REPO), timeout=1800)
            if r[0] is None:
                raise RuntimeError("projection failed:\n" + r[1])
            extra.append(r[0])
        scans = run_scans(prop, cfg.get("scans"))
        rb = tier_b(prop, cfg.get("tier_b"), a.tier)
    except Exception as ex:  # checker error
        print(f"CHECKER-ERROR property={prop}: {ex}")
        sys.exit(3)

    n_obl = n_dis = 0
    functions = []
    solver_time = 0.0
    backends = {}
    demoted = []
    for res in [ra] + extra:
        if not res:
            continue
        solver_time += res.get("solver_time_s", 0)
        for f in res["functions"]:
            if f.get("projection"):
                # projection-mode obligations over-approximate: a refutation is a violation only if the method was proved
                # (or had a better bound) at baseline; otherwise it is UNDECIDED and left to the bounded check
                b = base.get(prop, {}).get(f["function"])
                o = f["obligations"][0]
                n_obl += 1
                functions.append({"function": f["function"], "sha256": f["sha256"][:16], "status": f["status"], "obligations": 1,
                                  "discharged": int(o["verdict"] == "discharged"), "guards": 0, "guard_undecided": 0, "delta_lo": f.get("delta_lo")})
                if o["verdict"] == "discharged":
                    n_dis += 1
                    backends["interval"] = backends.get("interval", 0) + 1
                elif b is not None and b.get("delta_lo") is not None and f.get("delta_lo", -10**9) < b["delta_lo"]:
                    violations.append({"key": okey(f["function"], o), "tier": "A", "function": f["function"],
                                       "what": f"index bound regressed: {o['text']} | was delta >= {b['delta_lo']}, now {f.get('delta_lo')} | {o['model']}",
                                       "obligation": o["id"], "solver": "interval", "model": o["model"], "source_sha256": f["sha256"], "no_failing_input": True})
                else:
                    undecided.append(f"{f['function']}: projection cannot show monotonicity (delta_lo={f.get('delta_lo')}; keyword un-consume convention or lost correlation)")
                    demoted.append(f["function"])
                assumptions.update(f.get("assumptions", []))
                continue
            obs = [o for o in f["obligations"] if o["kind"] not in ("cover", "mustfail")]
            guards = [o for o in f["obligations"] if o["kind"] in ("cover", "mustfail")]
            d = [o for o in obs if o["verdict"] == "discharged"]
            refuted = [o for o in obs if o["verdict"] == "refuted"]
            und = [o for o in obs if o["verdict"] == "undecided"]
            vac = [o for o in guards if o["verdict"] == "vacuous"]
            n_obl += len(obs)
            n_dis += len(d)
            for o in d:
                backends[o["solver"]] = backends.get(o["solver"], 0) + 1
            functions.append({"function": f["function"], "sha256": f["sha256"][:16], "status": f["status"], "obligations": len(obs),
                              "discharged": len(d), "guards": len(guards), "guard_undecided": sum(o["verdict"] == "guard-undecided" for o in guards)})
            assumptions.update(f.get("assumptions", []))
            for x in f.get("opaque", []):
                trusted.add(f"opaque callee in {f['function']}: {x}")
            for x in f.get("inlined", []):
                trusted.add(f"inlined from real source: {x}")
            if vac:
                print(f"CHECKER-ERROR property={prop}: vacuous contract for {f['function']}: {vac[0]['text']}")
                sys.exit(3)
            if f["status"] != "ok" or (not obs and f["status"] == "ok"):
                undecided.append(f"{f['function']}: {f['reason'] or 'zero obligations'}")
                demoted.append(f["function"])
            for o in refuted:
                violations.append({"key": okey(f["function"], o), "tier": "A", "function": f["function"], "what": f"obligation refuted: {o['id']} | {o['text']}",
                                   "obligation": o["id"], "solver": o["solver"], "model": o["model"], "source_sha256": f["sha256"],
                                   "no_failing_input": True})
            if und:
                undecided.append(f"{f['function']}: {len(und)} obligations undecided (solver limits), e.g. {und[0]['id']}")
                demoted.append(f["function"])
    for sc in scans:
        n_obl += sc["obligations"]
        n_dis += sc["discharged"]
        for v in sc.get("violations", []):
            violations.append(dict(v, tier="scan", no_failing_input=True))
        functions += sc.get("functions", [])
        assumptions.update(sc.get("assumptions", []))

    nb_viol = 0
    if rb:
        for v in rb.get("violations", []):
            violations.append(dict(v, tier="B"))
            nb_viol += 1

    # Refuted obligations of the executor kernels (scalar / small-tuple arguments): look for a concrete failing input by
    # evaluating the SAME contract clauses natively on the real function over its exhaustive small domain
    # (selftest/crosscheck.py); a hit makes the violation replayable on the real code instead of no-failing-input-found.
    kernel_viol = [v for v in violations if v.get("tier") == "A" and v.get("no_failing_input") and "sqlglot/executor/env.py:" in v.get("function", "")]
    if kernel_viol:
        wit = os.path.join(common.REPLAY_DIR, f"{prop}-kernel-witnesses.json")
        os.makedirs(common.REPLAY_DIR, exist_ok=True)
        subprocess.run(["/venv/bin/python", os.path.join(HERE, "selftest", "crosscheck.py"), "--json", wit], cwd=HERE, capture_output=True, text=True,
                       env=dict(os.environ, PYTHONPATH=f"{HERE}:{REPO}", VERIF_REPO=REPO), timeout=600)
        try:
            hits = json.load(open(wit))
        except (OSError, ValueError):
            hits = []
        for v in kernel_viol:
            base_name = v["function"].split(":", 1)[1].split(".")[0].split("#")[0]  # sql_and, null_if_any, filter_nulls
            mine = [h for h in hits if h["function"].split("#")[0].split("(")[0] == base_name]
            if mine:
                h = mine[0]
                v["no_failing_input"] = False
                v["native_witness"] = h
                v["what"] += f" | failing input on the real function: {base_name}{h['args']} -> {h['result']} violates `{h['clause'][:120]}`"
    # a tier-A refutation with a concrete tier-B failing input for the same property is not "no-failing-input-found"
    new = common.report(prop, violations)

    level = "proof" if (not rb and n_obl) else "other"
    try:  # the evidence level is the one claimed in MANIFEST.json for this property
        man = json.load(open(os.path.join(HERE, "MANIFEST.json")))
        level = next(c["level_claimed"]["category"] for c in man["checks"] if c["property_id"] == prop)
    except (OSError, StopIteration, KeyError, ValueError):
        pass
    cov = {
        "explanation": (f"tier A (proved for all inputs): {n_dis}/{n_obl} verification conditions generated from the real source and discharged; "
                        + (f"tier B (bounded, NOT proved): {rb.get('evaluations', 0)} run-time contract evaluations, bound: {rb.get('bound', '')}" if rb else "no bounded part")),
        "obligations": n_obl, "discharged": n_dis,
        "checker_cmd": f"python3-vt -m pyvc.run {' '.join(cfg.get('tier_a') or [])} --prop {prop}",
        "trusted_base": sorted(trusted)[:200],
        "functions_under_contract": functions,
        "solver_backends": backends, "solver_time_s": round(solver_time, 2),
        "demoted_to_bounded": sorted(set(demoted)), "undecided": undecided[:50],
    }
    if rb:
        cov.update({
            "evaluations": rb.get("evaluations", 0), "distinct_nontrivial": rb.get("distinct_nontrivial", 0), "rule": rb.get("rule", ""),
            "bound": rb.get("bound", ""), "exhaustive": bool(rb.get("exhaustive", False)), "samples": rb.get("samples", [])[:10],
            "bounded_contract_evaluations": rb.get("contract_evaluations", {}), "bounded_wall_s": rb.get("wall_s"),
        })
    else:
        cov["samples"] = [f"{f['function']} ({f['discharged']}/{f['obligations']})" for f in functions][:10]
    base_assumptions = [
        "Python semantics of the PyVC encoding (DESIGN.md 2.1): mathematical ints, modelled exception set, no threads/reflection",
        "heap well-formedness: field types from contracts.fields(...) hold for every object; stored references are allocated",
        "spec functions in contracts/*.py and spec/*.py are the trusted oracle",
    ]
    common.write_evidence(prop, a.tier, level, cov, base_assumptions + sorted(assumptions), time.time() - t0, len(violations))

    if a.write_baseline:
        base[prop] = {f["function"]: dict({"sha256": f["sha256"], "obligations": f["obligations"], "discharged": f["discharged"]},
                                          **({"delta_lo": f["delta_lo"]} if f.get("delta_lo") is not None else {})) for f in functions}
        os.makedirs(os.path.dirname(BASELINE), exist_ok=True)
        json.dump(base, open(BASELINE, "w"), indent=1, sort_keys=True)

    print(f"property={prop} tier={a.tier} tierA={n_dis}/{n_obl} tierB={'%d evals' % rb.get('evaluations', 0) if rb else 'n/a'} "
          f"violations={len(violations)} new={new} undecided={len(undecided)} wall={time.time() - t0:.1f}s")
    if new:
        sys.exit(1)
    # regression rule on the unchanged tree: functions fully discharged in the baseline must be discharged again
    for fn, b in base.get(prop, {}).items():
        cur = [f for f in functions if f["function"] == fn]
        if cur and cur[0]["sha256"] == b["sha256"][:16] and b["discharged"] == b["obligations"] and cur[0]["discharged"] < cur[0]["obligations"]:
            und_here = [u for u in undecided if u.startswith(fn)]
            if und_here and not any(v.get("function") == fn for v in violations):
                print(f"CHECKER-ERROR property={prop}: {fn} verified at baseline on identical source but is now undecided: {und_here[0]}")
                sys.exit(3)
    if undecided and not rb:
        print("UNDECIDED (no bounded stand-in): " + "; ".join(undecided[:5]))
        sys.exit(2)
    if undecided:
        print("demoted to the bounded check for this run: " + "; ".join(sorted(set(demoted))[:8]))
    sys.exit(0)


if __name__ == "__main__":
    main()
