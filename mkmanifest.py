#!/usr/bin/env python3
"""Regenerates MANIFEST.json from props.py and the files that actually exist (a property whose machinery is
not built is listed under not_applicable with that reason, never claimed on paper)."""
import json
import os

import props as P

HERE = os.path.dirname(os.path.abspath(__file__))

TEXT = {
    "C01": ("other", "the only tier-A part: nested prefix operators never glue into another token, whatever the operand generates to (Generator.neg_sql never starts with '--', bitwisenot_sql never with '~~'; proved over an uninterpreted operand text); time.format_time could not be brought under contract (string joins over symbolic lists time out in every solver); the round-trip fixpoint is a run-time contract check of Dialect.parse/generate on an enumerated grammar x all dialects", "3 C01, 9.1"),
    "C02": ("other", "the NULL-ordering clause proved for all dialect pairs (slice contracts on Parser._parse_ordered and Generator.ordered_sql against the eff_first spec); result equality itself is a bounded run-time contract check of sqlglot.transpile on the real engines (sqlite3 3.40, duckdb 1.5: enumerated query families x 3 NULL-bearing databases x the 4 dialect pairs, plus a MySQL target emulated on DuckDB for the CASE simulation)", "3 C02, 9.6"),
    "C04": ("other", "'cannot terminate its own quoting' decided for all strings by the RegTrans automaton back end for comments (sanitize_comment) and quoted identifiers (identifier_sql doubling, 34 dialects) on the real replace chains; escape_str / sanitize_comment / _replace_line_breaks proved to be functions of their arguments (purity frames); string-literal escaping and the decode-side lex-back round trip are a bounded exhaustive check (all strings up to a length over a per-dialect adversarial alphabet), also with the value placed in statement templates that go through rewrites (DISTINCT ON / QUALIFY elimination, Athena engine choice)", "3 C04, 9.1, 9.11"),
    "C05": ("other", "cursor discipline, index restore, error funnel proved for all states by PyVC; index monotonicity of the retreating _parse_* methods (53 of 77 proved, the rest undecided at a recorded baseline) and progress of the parser's while loops (86 of 90 token loops) by projection-mode VCs; total behaviour on mutated and growing inputs is a bounded step-counted run-time check", "3 C05, 9.1"),
    "C06": ("other", "connector / comparison decision tables proved sound in 3VL for all literals; every rewrite step of simplify/normalize checked equivalent under all order-relevant assignments on an exhaustive expression space up to a depth (bounded)", "3 C06"),
    "C07": ("other", "sep, maybe_comment and indent (slices) and the sentinel restoration in generate proved, with a frame scan that the layout options are stored only in Generator.__init__; sentinel replacement decided for all strings by RegTrans; option product parse-back is a bounded run-time contract check", "3 C07"),
    "C08": ("other", "link invariant and hash-invalidation of all ancestors proved for Expression.set/append/_set_parent/replace/pop for all heaps (PyVC, 490+ VCs); the optimizer's undo journal (record / revert restores every entry through Expression.set) proved; all operation sequences up to a length on small trees checked at run time (bounded)", "3 C08"),
    "C09": ("other", "copy=True => modifies only fresh objects proved for the copy funnels (maybe_copy, maybe_parse, the optimize entry copy, _apply_conjunction_builder, _apply_builder) and the undo journal; fingerprint-unchanged checked at run time on corpus x functions x dialects (bounded)", "3 C09"),
    "C10": ("other", "normalize_identifier idempotent and case-sensitive identifiers untouched proved for all strategies; Scope.branch proved to give each child scope its own CTE map (inherited definitions overridden name by name by the inner ones, never the parent's dict object); qualify postcondition + idempotence bounded", "3 C10"),
    "C11": ("other", "operator kernels only: Kleene AND/OR/NOT, IN, null_if_any, filter_nulls, unmatched-row rule proved against SQL 3VL for all values; joins/set operations/aggregates vs a bag spec on all tiny tables (bounded). Agreement of execute() with an external engine is not claimed", "3 C11"),
    "C12": ("other", "serde._load proved to rebuild a node that carries exactly the payload's type / comments / meta while writing nothing that existed before (the only tier-A part; serde.dump's stack loop could not be brought under contract); dump/load/json/pickle/copy round trip on every node class x arg kinds, the corpus, dialect statements whose trees hold explicit None / empty-list args or non-node values, and trees with marker comments is a bounded run-time contract check", "3 C12, 9.8, 9.9, 9.11"),
    "C13": ("other", "tokenizer _advance/_add offset and line/col consistency, raise_error position transfer proved; token order/gap/position relation on enumerated layouts bounded", "3 C13"),
    "C14": ("other", "the whole error-level relation at the funnel (raise_error, validate_expression, check_errors, _try_parse, concat_messages, Generator.unsupported/generate tail) proved for all states, plus mechanical frame scans that error_level / unsupported_level are read nowhere else and that no generator method re-enters generate(); four-run relation end to end (levels called in an input-dependent rotation and once more in reverse order; Dialect.parse_into as well) bounded", "3 C14, 9.9, 9.11"),
    "C15": ("other", "reused Parser/Tokenizer == fresh one by mechanical frame scans comparing reset() with __init__ (syntactic) and a proved fresh-state assertion at TokenizerCore.tokenize; generator per-call frame scan; MappingSchema.find answers independent of earlier strict / lenient questions proved; hash-seed / call-order relation in subprocesses, and class-level tables unchanged by loading or defining other dialects, bounded", "3 C15"),
    "C17": ("other", "Scope.branch (the step that decides which CTE definition a name resolves to) proved: inner definitions shadow inherited ones, key by key, in a fresh map; lineage leaves == construction-recorded flow on an enumerated query family and three presentation invariances are a bounded run-time contract check", "3 C17"),
    "C18": ("other", "cache coherence of MappingSchema.find/add_table w.r.t. the abstract view proved (PyVC), the name / type memo tables proved to answer as the uncached computation of the ARGUMENT would; all interleavings up to a length vs a freshly built schema bounded", "3 C18"),
    "C20": ("other", "accounting invariant of the leaf matcher's greedy loop (a node is matched at most once and leaves the unmatched sets exactly when matched, whatever the similarity heuristics return) class equality of _is_same_type, and the accounting of _generate_edit_script (one Remove / Insert per unmatched node, exactly one Keep / Update per matched pair) proved; node-level accounting of whole diffs and delta-empty <=> equal on edited pairs bounded", "3 C20"),
}

NOTE = ("Trusted: the PyVC encoding of Python semantics (DESIGN.md 2.1, 6), declared-opaque callees and assumed field types listed in the evidence, "
        "spec functions under spec/ and contracts/; tier B covers only the stated bound and is never counted as proved.")


def exists(mod):
    return os.path.exists(os.path.join(HERE, mod.replace(".", "/") + ".py"))


def main():
    checks, na = [], []
    for pid in sorted(set(P.PROPS) | set(P.NOT_APPLICABLE)):
        if pid in P.NOT_APPLICABLE:
            na.append({"property_id": pid, "reason": P.NOT_APPLICABLE[pid]})
            continue
        cfg = P.PROPS[pid]
        have_a = [m for m in cfg.get("tier_a") or [] if exists(m)]
        have_b = cfg.get("tier_b") and exists(cfg["tier_b"])
        have_x = (cfg.get("regtrans") and exists("pyvc.regtrans")) or (cfg.get("projection") and exists("pyvc.projection"))
        if pid not in P.READY:
            na.append({"property_id": pid, "reason": "machinery for this property is still being built / triaged in this session; not claimed yet"})
            continue
        if not (have_a or have_b or have_x):
            na.append({"property_id": pid, "reason": "machinery for this property is not built yet (see DESIGN.md build order); not claimed"})
            continue
        cat, text, ref = TEXT[pid]
        if not have_b and cat == "other" and have_a:
            tech = "contract-based deductive verification (PyVC: VCs from real source, z3/cvc5)"
        elif have_b and not (have_a or have_x):
            tech = "run-time contract checking under exhaustive small-scope enumeration (bounded stand-in)"
        else:
            tech = "contract-based deductive verification (PyVC VCs from real source, z3/cvc5) + bounded run-time contract enumeration as stand-in"
        checks.append({
            "property_id": pid,
            "quick_cmd": f"python3 check.py {pid} --tier quick",
            "thorough_cmd": f"python3 check.py {pid} --tier thorough",
            "evidence_file": f"/verif/evidence/{pid}.json",
            "replay_cmd_template": f"python3 check.py {pid} --replay {{path}}",
            "engine": "pyvc+bounded",
            "level_claimed": {"category": cat if (have_a or have_x) or cat == "exploration" else "exploration", "text": text, "design_ref": "DESIGN.md section " + ref},
            "level_note": NOTE,
            "technique": tech,
        })
    man = {
        "version": 1,
        "setup_cmd": "python3 setup_check.py",
        "hooks": {
            "guard": "SQLGLOT_VERIF",
            "enable": "no source hooks: contracts are sidecars under /verif/contracts and run-time wrappers are installed by monkeypatching from /verif",
            "baseline_off_cmd": "cd /repo && /venv/bin/python -m pytest -ra -q -p no:cacheprovider --timeout=900 --continue-on-collection-errors",
            "source_commits": [],
            "add_only": True,
        },
        "engines": [
            {"name": "pyvc", "path": "/verif/pyvc", "serves_properties": sorted(P.PROPS), "kind_free_text": "verification-condition generator from the real Python source (ast -> SMT-LIB2), sidecar contracts, z3 5.1 / z3 4.8 / cvc5 subprocess portfolio"},
            {"name": "bounded", "path": "/verif/bounded", "serves_properties": sorted(p for p, c in P.PROPS.items() if c.get("tier_b")), "kind_free_text": "run-time contract checks of the real functions under exhaustive small-scope enumeration (bounded stand-in, never counted as proved)"},
        ],
        "checks": checks,
        "not_applicable": na,
        "notes": "Technique family: contract-based deductive verification of the real code. Every check rebuilds its VCs from /repo's working tree on every run. See DESIGN.md.",
    }
    json.dump(man, open(os.path.join(HERE, "MANIFEST.json"), "w"), indent=1)
    print("claimed:", [c["property_id"] for c in checks])
    print("n/a:", [x["property_id"] for x in na])


if __name__ == "__main__":
    main()
