#!/usr/bin/env python3
"""Build-time helper: evaluate one seeded change against the checks.
usage: try_seed.py <seed dir with patch.diff + demo.py> <Cxx> [more props]
Applies the patch to /repo, runs the demo and the property's quick check, and ALWAYS reverts /repo afterwards."""
import json
import os
import subprocess
import sys
import time

seed, props = sys.argv[1], sys.argv[2:]
patch = os.path.join(seed, "patch.diff")
demo = os.path.join(seed, "demo.py")
out = {"seed": seed, "props": {}}


def sh(cmd, cwd=None, timeout=3600):
    p = subprocess.run(cmd, cwd=cwd, shell=True, capture_output=True, text=True, timeout=timeout)
    return p.returncode, (p.stdout + p.stderr)


assert sh("git -C /repo status --porcelain")[1].strip() == "", "/repo is not clean"
rc, o = sh(f"git -C /repo apply --check {patch}")
out["applies"] = rc == 0
if rc != 0:
    print(json.dumps(out), o)
    sys.exit(2)
rc, o = sh(f"/venv/bin/python {demo}", cwd="/repo")
out["demo_clean_rc"] = rc
try:
    sh(f"git -C /repo apply {patch}")
    rc, o = sh(f"/venv/bin/python {demo}", cwd="/repo")
    out["demo_patched_rc"] = rc
    out["demo_patched_tail"] = o[-300:]
    for p in props:
        t0 = time.time()
        rc, o = sh(f"python3 check.py {p} --tier quick", cwd="/verif")
        lines = [l for l in o.splitlines() if l.startswith(("VIOLATION", "  what", "property=", "CHECKER", "UNDECIDED", "demoted"))]
        out["props"][p] = {"rc": rc, "wall": round(time.time() - t0), "lines": lines[:12]}
finally:
    sh("git -C /repo checkout -- .")
assert sh("git -C /repo status --porcelain")[1].strip() == ""
print(json.dumps(out, indent=1))
