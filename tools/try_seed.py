#!/usr/bin/env python3
"""Build-time helper: evaluate one seeded change against the checks.
usage: try_seed.py <seed dir with patch.diff + demo.py> <Cxx> [more props]
Applies the patch to /repo (or, with TRY_SEED_REPO=<scratch worktree of /repo at HEAD>, to that worktree, the checks then
run with VERIF_REPO pointing at it), runs the demo and the property's quick check, and ALWAYS reverts the tree afterwards.
Evidence and replay files of these runs go to /tmp/try_seed_out (VERIF_SCRATCH_OUT), not to /verif."""
import json
import os
import subprocess
import sys
import time

seed, props = sys.argv[1], sys.argv[2:]
REPO = os.environ.get("TRY_SEED_REPO", "/repo")
ENVP = "VERIF_SCRATCH_OUT=/tmp/try_seed_out " + ("" if REPO == "/repo" else f"VERIF_REPO={REPO} ")
os.makedirs("/tmp/try_seed_out/evidence", exist_ok=True)
os.makedirs("/tmp/try_seed_out/replays", exist_ok=True)
patch = os.path.join(seed, "patch.diff")
demo = os.path.join(seed, "demo.py")
out = {"seed": seed, "props": {}}


def sh(cmd, cwd=None, timeout=3600):
    p = subprocess.run(cmd, cwd=cwd, shell=True, capture_output=True, text=True, timeout=timeout)
    return p.returncode, (p.stdout + p.stderr)


assert sh(f"git -C {REPO} status --porcelain")[1].strip() == "", "tree is not clean"
rc, o = sh(f"git -C {REPO} apply --check {patch}")
out["applies"] = rc == 0
if rc != 0:
    print(json.dumps(out), o)
    sys.exit(2)
rc, o = sh(f"/venv/bin/python {demo}", cwd=REPO)
out["demo_clean_rc"] = rc
try:
    sh(f"git -C {REPO} apply {patch}")
    rc, o = sh(f"/venv/bin/python {demo}", cwd=REPO)
    out["demo_patched_rc"] = rc
    out["demo_patched_tail"] = o[-300:]
    for p in props:
        t0 = time.time()
        rc, o = sh(f"{ENVP}python3 check.py {p} --tier quick", cwd="/verif")
        lines = [l for l in o.splitlines() if l.startswith(("VIOLATION", "  what", "property=", "CHECKER", "UNDECIDED", "demoted"))]
        out["props"][p] = {"rc": rc, "wall": round(time.time() - t0), "lines": lines[:12]}
finally:
    sh(f"git -C {REPO} checkout -- .")
assert sh(f"git -C {REPO} status --porcelain")[1].strip() == ""
print(json.dumps(out, indent=1))
