import json,sys
d=json.load(sys.stdin)
print(d['seed'], 'demo clean', d.get('demo_clean_rc'), 'patched', d.get('demo_patched_rc'))
for p,v in d['props'].items():
    print(' ',p,'rc',v['rc'],'wall',v['wall'])
    for l in v['lines'][:7]: print('    ',l[:260])
