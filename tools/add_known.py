#!/usr/bin/env python3
"""Build-time helper (never run by a check): append `known:` lines for the violation keys in a tier-B result JSON
after manual triage.  usage: add_known.py <Cxx> <result.json> [key-prefix]"""
import json
import sys

sys.path.insert(0, __import__("os").path.dirname(__import__("os").path.dirname(__import__("os").path.abspath(__file__))))
from vlib import common

prop, path = sys.argv[1], sys.argv[2]
prefix = sys.argv[3] if len(sys.argv) > 3 else ""
res = json.load(open(path))
have = common.known_findings().get(prop, {})
keys = {}
for v in res["violations"]:
    keys.setdefault(v["key"], v)
with open(common.KNOWN_FILE, "a", encoding="utf-8") as f:
    for k, v in sorted(keys.items()):
        if k in have or not k.startswith(prefix):
            continue
        what = str(v.get("what", "")).replace("\n", " ")[:160]
        inp = json.dumps(v.get("input"), default=repr, ensure_ascii=False).replace("\n", " ")[:220]
        f.write(f"known: property={prop} key={k} {what} | example input: {inp}\n")
        print("added", k)
