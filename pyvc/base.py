"""Executor core: obligations, feasibility, typing assumptions, heap access, list / dict / set primitives."""
import z3

from . import smt, contract as C
from .smt import Val, IntS
from .state import SV, State, TypeSpec, Unsupported, ClassRegistry, fresh_array, sv_int, sv_bool, SV_NONE


class Oblig:
    def __init__(self, oid, kind, pc, goal, lineno, text, after_havoc=False):
        self.oid = oid
        self.kind = kind  # post | pre | inv-entry | inv-pres | dec | frame | exc | assert | cover | mustfail
        self.pc = list(pc)
        self.goal = goal
        self.lineno = lineno
        self.text = text
        self.after_havoc = after_havoc
        self.expect = "unsat"  # cover/mustfail expect sat


class Outcome:
    __slots__ = ("kind", "st", "val")

    def __init__(self, kind, st, val=None):
        self.kind = kind  # next | return | raise | break | continue | stop
        self.st = st
        self.val = val


class Base:
    def __init__(self, ext, con, classes=None):
        self.ext = ext  # source.Extracted
        self.con = con  # contract.Contract
        self.classes = classes or ClassRegistry()
        self.obligs = []
        self.global_axioms = []
        self.assumptions = set()
        self.entry = None
        self._oid = 0
        self.havoc_depth = 0
        self.uf = {}
        self.feas_calls = 0
        self.path_count = 0
        self.max_paths = 4000

    # ---------------------------------------------------------------- obligations
    def oblige(self, st, goal, kind, node=None, text=""):
        """Record `pc => goal`; then assume goal on the path."""
        if z3.is_true(goal):
            return
        self._oid += 1
        lineno = getattr(node, "lineno", 0)
        tag = "".join(ch if ch.isalnum() else "_" for ch in text)[:40]
        oid = f"{self.ext.qualname}:{kind}:{self._kindctr(kind)}:{tag}"
        self.obligs.append(Oblig(oid, kind, st.pc, goal, lineno, text, after_havoc=getattr(st, "havocked", False)))
        st.assume(goal)

    def _kindctr(self, kind, _c={}):
        k = (id(self), kind)
        _c[k] = _c.get(k, 0) + 1
        return _c[k]

    def note(self, s):
        self.assumptions.add(s)

    # ---------------------------------------------------------------- feasibility (pruning only)
    def feasible(self, st, extra=None):
        """False only if pc (+extra) is definitely unsat.  In-process z3 with a short timeout;
        `unknown` keeps the path (sound)."""
        if extra is not None:
            e = z3.simplify(extra)
            if z3.is_false(e):
                return False
        s = z3.Solver()
        # pruning only.  Under quantified path conditions (dict / set iteration, frames) z3 never answers `sat`, only `unsat` at once or
        # `unknown` after the whole budget: after a run of unknowns the budget is cut (refutations of infeasible paths take milliseconds)
        unk = getattr(self, "_feas_unknown_run", 0)
        s.set("timeout", 400 if unk < 8 else 60)
        for f in st.pc:
            s.add(f)
        if extra is not None:
            s.add(extra)
        for a in self.quick_axioms():
            s.add(a)
        self.feas_calls += 1
        r = s.check()
        self._feas_unknown_run = unk + 1 if r == z3.unknown else 0
        return r != z3.unsat

    def quick_axioms(self):
        return self.global_axioms

    # ---------------------------------------------------------------- types
    def type_fact(self, term, ts):
        """z3 Bool: `term` inhabits TypeSpec ts."""
        if isinstance(ts, str):
            ts = TypeSpec(ts)
        alts = []
        for a in ts.alts:
            if a == "any":
                return z3.BoolVal(True)
            if a == "int":
                alts.append(smt.is_int(term))
            elif a == "bool":
                alts.append(smt.is_bool(term))
            elif a == "str":
                alts.append(smt.is_str(term))
            elif a == "none":
                alts.append(smt.is_none(term))
            elif a == "real":
                alts.append(smt.is_real(term))
            elif a == "tuple":
                alts.append(z3.Or(smt.is_nil(term), smt.is_cons(term), z3.And(smt.is_ref(term), smt.CLS[Val.r(term)] == smt.CLS_TUPLE)))
            elif a in ("list", "dict", "set", "func"):
                cid = {"list": smt.CLS_LIST, "dict": smt.CLS_DICT, "set": smt.CLS_SET, "func": smt.CLS_FUNC}[a]
                alts.append(z3.And(smt.is_ref(term), smt.CLS[Val.r(term)] == cid))
            else:
                cls = self.resolve_class_name(a)
                alts.append(z3.And(smt.is_ref(term), self.classes.isa(cls, smt.CLS[Val.r(term)])))
        return z3.Or(*alts) if len(alts) != 1 else alts[0]

    def resolve_class_name(self, name):
        if name in self.classes.by_name:
            return self.classes.by_name[name]
        cls = self.lookup_global_class(name)
        self.classes.register(cls, name)
        return cls

    def lookup_global_class(self, name):
        raise Unsupported(f"unknown class {name}")

    def typed(self, st, term, tyname):
        """Assume the typing fact and return an SV with the static hint."""
        if tyname is None:
            return SV(term)
        ts = TypeSpec(tyname) if isinstance(tyname, str) else tyname
        st.assume(self.type_fact(term, ts))
        sv = SV(term, ts.single)
        if ts.elem is not None:
            sv.meta = ("elemtype", ts.elem)
        return sv

    def field_type(self, field):
        return self.con.types.get("." + field) or C.FIELD_TYPES.get(field) or self.auto_field_types().get(field)

    def auto_field_types(self):
        """Field types read mechanically from the annotated assignments `self.x: T = ...` in the __init__ methods of the
        class under verification (the code base is type-checked; same status as the declared field types: assumed)."""
        if not hasattr(self, "_auto_ft"):
            self._auto_ft = {}
            try:
                import ast as _ast
                import inspect
                import textwrap
                from .execu import ann_to_type

                cname = self.con.self_class or self.ext.class_name
                cls = self.resolve_class_name(cname) if cname else None
                for c in (cls.__mro__ if cls else ()):
                    init = vars(c).get("__init__")
                    if init is None or not hasattr(init, "__code__"):
                        continue
                    tree = _ast.parse(textwrap.dedent(inspect.getsource(init)))
                    for n in _ast.walk(tree):
                        if isinstance(n, _ast.AnnAssign) and isinstance(n.target, _ast.Attribute) and isinstance(n.target.value, _ast.Name) and n.target.value.id == "self":
                            ty = ann_to_type(n.annotation)
                            if ty != "any":
                                self._auto_ft.setdefault(n.target.attr, ty)
            except Exception:
                pass
        return self._auto_ft

    # ---------------------------------------------------------------- heap access
    def load_field(self, st, ref_term, field):
        v = z3.Select(st.H(field), Val.r(ref_term))
        sv = self.typed(st, v, self.field_type(field))
        # every reference stored in the heap is allocated
        st.assume(z3.Implies(smt.is_ref(v), Val.r(v) < st.alloc))
        return sv

    def store_field(self, st, ref_term, field, val_term, node=None):
        self.check_write(st, Val.r(ref_term), field, node)
        st.setH(field, z3.Store(st.H(field), Val.r(ref_term), val_term))
        self.written.add(field)

    # ---------------------------------------------------------------- frame (modifies) discipline
    def allowed_refs(self, field):
        """refs (int terms over the entry state) whose `field` the contract allows to be written;
        None = any object.  Objects allocated during the call may always be written."""
        if self.con.modifies is None:
            return None
        if not hasattr(self, "_allowed"):
            self._allowed = {}
            entry = self.entry
            for m in self.con.modifies:
                if m in ("fresh",):
                    continue
                if m == "*":
                    self._allowed = None
                    break
                if m.startswith("*."):
                    self._allowed[m[2:]] = None
                    continue
                if m.endswith("[]") or m.endswith("{}"):
                    tgt = self.spec_val(m[:-2], entry, entry.locals, old=entry)
                    for f in (("$items", "$len") if m.endswith("[]") else ("$dhas", "$dval", "$len")):
                        if self._allowed.get(f, []) is not None:
                            self._allowed.setdefault(f, []).append(Val.r(tgt.t))
                    continue
                objsrc, f = m.rsplit(".", 1)
                tgt = self.spec_val(objsrc, entry, entry.locals, old=entry)
                if self._allowed.get(f, []) is not None:
                    self._allowed.setdefault(f, []).append(Val.r(tgt.t))
        if self._allowed is None:
            return None
        return self._allowed.get(field, [])

    def check_write(self, st, ref_int, field, node=None, what=None):
        if self.con.modifies is None or self.entry is None:
            return
        al = self.allowed_refs(field)
        if al is None:
            return
        g = z3.Or(ref_int >= self.entry.alloc, *[ref_int == a for a in al])
        self.oblige(st, g, "frame", node, what or f"write to .{field} is allowed by modifies {self.con.modifies}")

    def check_write_all(self, st, field, node=None):
        if self.con.modifies is None or self.entry is None:
            return
        if self.allowed_refs(field) is not None:
            self.oblige(st, z3.BoolVal(False), "frame", node, f"callee may write .{field} of any object; not allowed by modifies {self.con.modifies}")

    def new_ref(self, st, cls_id=None, cls=None):
        r = st.alloc
        st.alloc = st.alloc + 1
        # name the new reference to keep terms small
        rr = smt.fresh("new", IntS)
        st.assume(rr == r)
        st.alloc = rr + 1
        if cls is not None:
            st.assume(self.exact_class_fact(cls, smt.CLS[rr]))
        elif cls_id is not None:
            st.assume(smt.CLS[rr] == cls_id)
        return smt.mk_ref(rr)

    def exact_class_fact(self, cls, cls_term):
        return cls_term == self.classes.cid(cls)

    def name_int(self, st, term, prefix="n"):
        """name a non-trivial integer term with a fresh constant (keeps VCs small)."""
        t = z3.simplify(term)
        if z3.is_int_value(t) or (z3.is_const(t) and t.decl().kind() == z3.Z3_OP_UNINTERPRETED):
            return t
        c = smt.fresh(prefix, IntS)
        st.assume(c == t)
        return c

    # ---------------------------------------------------------------- lists
    def list_len(self, st, ref_term):
        n = z3.Select(st.H("$len"), Val.r(ref_term))
        st.assume(n >= 0)
        return n

    def list_items(self, st, ref_term):
        return z3.Select(st.H("$items"), Val.r(ref_term))

    def list_get(self, st, ref_term, idx, elemtype=None):
        v = z3.Select(self.list_items(st, ref_term), idx)
        st.assume(z3.Implies(smt.is_ref(v), Val.r(v) < st.alloc))
        if elemtype is not None:
            return self.typed(st, v, elemtype)
        return SV(v)

    def set_list(self, st, ref_term, items, length, node=None, fresh=False):
        if not fresh:
            self.check_write(st, Val.r(ref_term), "$items", node, "write to list contents is allowed by modifies")
        st.setH("$items", z3.Store(st.H("$items"), Val.r(ref_term), items))
        st.setH("$len", z3.Store(st.H("$len"), Val.r(ref_term), length))
        self.written.add("$items")
        self.written.add("$len")

    def new_list(self, st, elems=(), kind=smt.CLS_LIST):
        ref = self.new_ref(st, cls_id=kind)
        arr = smt.fresh("items", z3.ArraySort(IntS, Val))
        for k, e in enumerate(elems):
            arr = z3.Store(arr, k, e)
        self.set_list(st, ref, arr, z3.IntVal(len(elems)), fresh=True)
        return ref

    def list_slice_copy(self, st, ref_term, lo, hi, kind=smt.CLS_LIST):
        """new list holding items[lo:hi] (lo/hi already clamped int terms)."""
        src = self.list_items(st, ref_term)
        n = z3.If(hi > lo, hi - lo, z3.IntVal(0))
        ref = self.new_ref(st, cls_id=kind)
        arr = smt.fresh("slice", z3.ArraySort(IntS, Val))
        j = z3.Int("j!sl")
        st.assume(z3.ForAll([j], z3.Implies(z3.And(j >= 0, j < n), z3.Select(arr, j) == z3.Select(src, lo + j)), patterns=[z3.Select(arr, j)]))
        self.set_list(st, ref, arr, n, fresh=True)
        return ref

    def clamp_slice(self, st, n, lo_sv, hi_sv):
        """Python slice bound clamping for step 1."""

        def clamp(sv, default):
            if sv is None:
                return default
            i = Val.i(sv.t)
            i2 = z3.If(i < 0, i + n, i)
            return z3.If(i2 < 0, z3.IntVal(0), z3.If(i2 > n, n, i2))

        return clamp(lo_sv, z3.IntVal(0)), clamp(hi_sv, n)

    # ---------------------------------------------------------------- dicts / sets
    def dict_has(self, st, ref_term, key):
        return z3.Select(z3.Select(st.H("$dhas"), Val.r(ref_term)), key)

    def dict_val(self, st, ref_term, key):
        return z3.Select(z3.Select(st.H("$dval"), Val.r(ref_term)), key)

    def dict_store(self, st, ref_term, key, val, fresh=False):
        r = Val.r(ref_term)
        if not fresh:
            self.check_write(st, r, "$dhas", None, "write to dict/set contents is allowed by modifies")
        has = z3.Select(st.H("$dhas"), r)
        n = z3.Select(st.H("$len"), r)
        st.setH("$len", z3.Store(st.H("$len"), r, z3.If(z3.Select(has, key), n, n + 1)))
        st.setH("$dhas", z3.Store(st.H("$dhas"), r, z3.Store(has, key, True)))
        if val is not None:
            st.setH("$dval", z3.Store(st.H("$dval"), r, z3.Store(z3.Select(st.H("$dval"), r), key, val)))
            self.written.add("$dval")
        self.written.update(("$dhas", "$len"))

    def dict_del(self, st, ref_term, key):
        r = Val.r(ref_term)
        self.check_write(st, r, "$dhas", None, "write to dict/set contents is allowed by modifies")
        has = z3.Select(st.H("$dhas"), r)
        n = z3.Select(st.H("$len"), r)
        st.setH("$len", z3.Store(st.H("$len"), r, z3.If(z3.Select(has, key), n - 1, n)))
        st.setH("$dhas", z3.Store(st.H("$dhas"), r, z3.Store(has, key, False)))
        self.written.update(("$dhas", "$len"))

    def new_dict(self, st, kind=smt.CLS_DICT):
        ref = self.new_ref(st, cls_id=kind)
        r = Val.r(ref)
        st.setH("$dhas", z3.Store(st.H("$dhas"), r, z3.K(Val, z3.BoolVal(False))))
        st.setH("$len", z3.Store(st.H("$len"), r, z3.IntVal(0)))
        self.written.update(("$dhas", "$len"))
        return ref

    # ---------------------------------------------------------------- truthiness / equality
    def truthy(self, st, sv):
        t = sv.t
        ty = sv.ty
        if ty == "bool":
            return Val.b(t)
        if ty == "int":
            return Val.i(t) != 0
        if ty == "none":
            return z3.BoolVal(False)
        if ty == "str":
            return z3.Length(Val.s(t)) > 0
        if ty in ("list", "dict", "set"):
            return self.list_len(st, t) > 0
        if ty == "func":
            return z3.BoolVal(True)
        if ty and ty.startswith("obj:"):
            return self.obj_truthy(st, t, self.resolve_class_name(ty[4:]))
        if sv.meta and sv.meta[0] in ("class", "func", "module", "lambda", "bound"):
            return z3.BoolVal(True)
        if sv.meta and sv.meta[0] == "tuple":
            return z3.BoolVal(len(sv.meta[1]) > 0)
        ref_case = self.ref_truthy_general(st, t)
        return z3.If(
            smt.is_none(t),
            False,
            z3.If(
                smt.is_bool(t),
                Val.b(t),
                z3.If(
                    smt.is_int(t),
                    Val.i(t) != 0,
                    z3.If(
                        smt.is_str(t),
                        z3.Length(Val.s(t)) > 0,
                        z3.If(smt.is_nil(t), False, z3.If(smt.is_cons(t), True, z3.If(smt.is_real(t), Val.x(t) != 0, ref_case))),
                    ),
                ),
            ),
        )

    def obj_truthy(self, st, t, cls):
        b = getattr(cls, "__bool__", None)
        ln = getattr(cls, "__len__", None)
        if b is None and ln is None:
            # but a subclass might define one
            from .state import _all_subclasses

            if any("__bool__" in vars(s) or "__len__" in vars(s) for s in _all_subclasses(cls)):
                return smt.fresh("truthy", z3.BoolSort())
            return z3.BoolVal(True)
        if cls.__name__ == "Token" and b is not None:
            # Token.__bool__: token_type != TokenType.SENTINEL  (re-read from the real source)
            self.check_token_bool(cls)
            sent = self.const_sv(getattr(self.token_type_enum(cls), "SENTINEL"))
            tt = z3.Select(st.H("token_type"), Val.r(t))
            return tt != sent.t
        return smt.fresh("truthy", z3.BoolSort())

    def ref_truthy_general(self, st, t):
        r = Val.r(t)
        c = smt.CLS[r]
        n = z3.Select(st.H("$len"), r)
        tf = self.get_uf("truthy_obj", [IntS, IntS], z3.BoolSort())
        other = tf(r, getattr(st, "heap_epoch", z3.IntVal(0)))
        self.note("truthiness of an object of statically unknown class is an uninterpreted function of (object, havoc epoch)")
        # containers by length; every other object through the uninterpreted truthy_obj, which engine.uf_axioms pins
        # to True for registered classes that define neither __bool__ nor __len__ (independent of registration order)
        return z3.If(z3.Or(c == smt.CLS_LIST, c == smt.CLS_DICT, c == smt.CLS_SET, c == smt.CLS_TUPLE), n > 0, z3.If(c == smt.CLS_FUNC, True, other))

    def check_token_bool(self, cls):
        import inspect, ast

        src = inspect.getsource(cls.__bool__).strip()
        body = ast.parse(src).body[0].body
        ok = len(body) == 1 and ast.unparse(body[0]) == "return self.token_type != TokenType.SENTINEL"
        if not ok:
            raise Unsupported("Token.__bool__ changed: " + src)

    def token_type_enum(self, cls):
        import sys

        return getattr(sys.modules[cls.__module__], "TokenType")

    def const_sv(self, obj):
        """SV for a real python constant object (None/bool/int/str/enum member/other object)."""
        if obj is None:
            return SV_NONE
        import enum

        if isinstance(obj, enum.Enum):
            rid = self.classes.const_ref(obj)
            self.classes.register(type(obj))
            self.classes.by_name.setdefault(type(obj).__name__, type(obj))
            return SV(smt.mk_ref(rid), "obj:" + type(obj).__name__, ("pyconst", obj))
        if isinstance(obj, bool):
            return sv_bool(obj)
        if isinstance(obj, int):
            return sv_int(obj)
        if isinstance(obj, str):
            return SV(smt.mk_str(obj), "str")
        if isinstance(obj, float):
            return SV(Val.VReal(z3.RealVal(repr(obj))), "real")
        if isinstance(obj, tuple):
            items = [self.const_sv(x) for x in obj]
            return SV(smt.mk_tuple([i.t for i in items]), "tuple", ("tuple", items))
        if isinstance(obj, type):
            return SV(smt.mk_ref(self.classes.const_ref(obj)), None, ("class", obj))
        import types

        if isinstance(obj, types.ModuleType):
            return SV(smt.mk_ref(self.classes.const_ref(obj)), None, ("module", obj))
        if isinstance(obj, (types.FunctionType, types.BuiltinFunctionType, types.MethodType, classmethod, staticmethod)):
            return SV(smt.mk_ref(self.classes.const_ref(obj)), "func", ("func", obj, None))
        rid = self.classes.const_ref(obj)
        cls = type(obj)
        self.classes.register(cls)
        sv = SV(smt.mk_ref(rid), "obj:" + cls.__name__, ("pyconst", obj))
        self.classes.by_name.setdefault(cls.__name__, cls)
        self.const_object_axioms(rid, obj)
        return sv

    def const_object_axioms(self, rid, obj):
        """Scalar slots of constant objects (e.g. SENTINEL_NONE.token_type) as facts on the initial heap."""
        key = ("constax", rid)
        if key in self.uf:
            return
        self.uf[key] = True
        if type(obj).__name__ == "Token":
            for f in ("token_type", "text", "line", "col", "start", "end"):
                v = getattr(obj, f)
                from .state import initial_array

                self.global_axioms.append(z3.Select(initial_array(f), rid) == self.const_sv(v).t)
            self.note("constant object fields are read at entry and assumed unmodified: " + repr(obj)[:60])

    def py_eq(self, st, a, b):
        """Python `==` as a z3 Bool (numbers numerically; everything else structurally / by identity)."""
        ta, tb = a.t, b.t
        if a.ty == "int" and b.ty == "int":
            return Val.i(ta) == Val.i(tb)
        if a.ty in ("int", "bool") and b.ty in ("int", "bool"):
            return smt.num(ta) == smt.num(tb)
        simple = ("str", "none", "func")
        if a.ty in simple or b.ty in simple:
            return ta == tb
        if (a.ty or "").startswith("obj:") or (b.ty or "").startswith("obj:"):
            for x in (a, b):
                if (x.ty or "").startswith("obj:"):
                    cls = self.resolve_class_name(x.ty[4:])
                    if self.class_has_custom_eq(cls):
                        return self.custom_eq(st, cls, a, b)
            return ta == tb
        return z3.If(z3.And(smt.is_num(ta), smt.is_num(tb)), smt.num(ta) == smt.num(tb), ta == tb)

    def class_has_custom_eq(self, cls):
        import enum

        if issubclass(cls, enum.Enum):
            return False
        return cls.__eq__ is not object.__eq__

    def custom_eq(self, st, cls, a, b):
        f = self.get_uf("expr_eq", [Val, Val], z3.BoolSort())
        self.note("structural __eq__ of %s modelled as an uninterpreted equivalence containing identity" % cls.__name__)
        return z3.Or(a.t == b.t, f(a.t, b.t))

    def get_uf(self, name, dom, rng):
        if name not in self.uf:
            if not dom:
                c = z3.Const(name, rng)
                self.uf[name] = lambda: c
            else:
                self.uf[name] = z3.Function(name, *dom, rng)
        return self.uf[name]
