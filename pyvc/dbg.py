import sys, importlib
from . import contract as C, engine
def main():
    mod, qn, oid = sys.argv[1], sys.argv[2], sys.argv[3]
    importlib.import_module(mod)
    con = [c for k, c in C.REGISTRY.items() if k[1] == qn][0]
    v = engine.verify_contract(con)
    print(v.status, v.reason, file=sys.stderr)
    ax = v.axioms()
    for ob in v.obligs:
        if oid in ob.oid:
            open(f"/tmp/ob.smt2", "w").write(v.smt_text(ob, ax))
            print("wrote", ob.oid, file=sys.stderr)
            break
main()
