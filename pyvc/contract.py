"""Sidecar contract registry.

Contracts are *data*: strings holding Python expressions, parsed with ``ast`` and interpreted by
the engine in spec mode (``old(e)``, ``result``, ``exc``, ``forall``, ``exists``, ``implies`` and
user-defined spec functions are available).  Nothing in /repo is annotated.
"""
import ast

REGISTRY = {}  # (relpath, qualname) -> Contract
SPECS = {}  # name -> SpecFn
FIELD_TYPES = {}  # field name -> type string   (data-structure typing assumptions)
AXIOMS = []
AXIOM_CHECKS = {}  # (name, expr-string, params) global axioms over spec functions (listed as assumptions)
UNINTERPRETED = {}  # name -> (arity, result kind)


class SpecFn:
    def __init__(self, name, src):
        self.name = name
        self.src = src
        lam = ast.parse(src.strip(), mode="eval").body
        assert isinstance(lam, ast.Lambda), f"spec {name} must be a lambda"
        self.params = [a.arg for a in lam.args.args]
        self.body = lam.body


def define(name, src):
    SPECS[name] = SpecFn(name, src)


def uninterpreted(name, arity, result="val"):
    """Declare an uninterpreted spec function (result kind: val | str | bool | int; str = val known to be a string)."""
    UNINTERPRETED[name] = (arity, result)


def axiom(name, src, types=None, check=None):
    """Global axiom: 'lambda x, y: <bool expr>' universally quantified (params typed by `types`); ASSUMED by the
    prover, and CHECKED against CPython by selftest/axioms.py when `check` (a python predicate source) is given."""
    lam = ast.parse(src.strip(), mode="eval").body
    lam._types = types or {}
    AXIOMS.append((name, lam, src))
    AXIOM_CHECKS[name] = check


def fields(**kw):
    FIELD_TYPES.update(kw)


class LoopSpec:
    def __init__(self, inv=(), dec=None, fp=None, modifies=None):
        self.inv = [inv] if isinstance(inv, str) else list(inv)
        self.dec = dec
        self.fp = fp  # fingerprint: ast.unparse of the loop header; None = do not check
        self.modifies = modifies


class Contract:
    def __init__(self, relpath, qualname, **kw):
        self.relpath = relpath
        self.qualname = qualname
        self.props = list(kw.pop("props", []))
        self.requires = _lst(kw.pop("requires", ()))
        self.ensures = _lst(kw.pop("ensures", ()))
        # exceptional postconditions: class name -> list of clauses (may raise only if they hold)
        self.raises = {k: _lst(v) for k, v in (kw.pop("raises", None) or {}).items()}
        self.modifies = kw.pop("modifies", None)  # None = unconstrained frame (havoc everything at calls)
        self.loops = {k: (v if isinstance(v, LoopSpec) else LoopSpec(**v)) for k, v in (kw.pop("loops", None) or {}).items()}
        self.opaque = kw.pop("opaque", None) or {}
        self.inline = list(kw.pop("inline", ()))
        self.types = kw.pop("types", None) or {}
        self.self_class = kw.pop("self_class", None)
        self.ghost = kw.pop("ghost", None) or {}
        self.mode = kw.pop("mode", "full")  # full | projection
        self.notes = kw.pop("notes", "")
        self.must_fail = _lst(kw.pop("must_fail", ()))  # clauses that MUST be refutable (vacuity guard)
        self.assert_at = kw.pop("assert_at", None) or []  # [(pattern, [clauses])] mid-function assertions
        self.stop_at = kw.pop("stop_at", None)  # pattern: verify only the slice before this statement
        self.slice_from = kw.pop("slice_from", None)  # pattern: verify only this statement (mechanically extracted); its free variables become parameters
        self.lemmas = kw.pop("lemmas", None) or []
        self.verify = kw.pop("verify", True)  # False: contract is ASSUMED (trusted), used at call sites only
        self.exact_self_class = kw.pop("exact_self_class", False)
        self.variant = kw.pop("variant", None)
        assert not kw, f"unknown contract keys {list(kw)}"

    @property
    def key(self):
        return (self.relpath, self.qualname + (f"#{self.variant}" if self.variant else ""))


def _lst(x):
    if x is None:
        return []
    if isinstance(x, str):
        return [x]
    return list(x)


def contract(relpath, qualname, **kw):
    c = Contract(relpath, qualname, **kw)
    REGISTRY[c.key] = c
    return c


def lookup(relpath, qualname):
    return REGISTRY.get((relpath, qualname))
