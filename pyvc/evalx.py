"""Expression evaluation in continuation-passing style: ev(e, st, k) -> list[Outcome],
k(st, SV) continues the statement.  Exceptions return a 'raise' Outcome without calling k."""
import ast
import builtins

import z3

from . import smt, contract as C
from .smt import Val, IntS
from .state import SV, Unsupported, sv_int, sv_bool, sv_str, SV_NONE, TypeSpec
from .base import Outcome


class EvalMixin:
    def ev(self, e, st, k):
        m = getattr(self, "e_" + type(e).__name__, None)
        if m is None:
            raise Unsupported(f"expression {type(e).__name__} at line {getattr(e, 'lineno', '?')}")
        return m(e, st, k)

    def ev_list(self, es, st, k, acc=None):
        acc = acc or []
        if not es:
            return k(st, acc)
        return self.ev(es[0], st, lambda st1, v: self.ev_list(es[1:], st1, k, acc + [v]))

    # ------------------------------------------------------------------ atoms
    def e_Constant(self, e, st, k):
        if isinstance(e.value, (bytes, complex)) or e.value is Ellipsis:
            raise Unsupported("constant kind")
        return k(st, self.const_sv(e.value))

    def e_Name(self, e, st, k):
        if e.id in st.locals:
            return k(st, st.locals[e.id])
        return k(st, self.global_name(e.id))

    def global_name(self, name):
        key = ("g", name)
        if key in self.uf:
            return self.uf[key]
        from . import source

        # enclosing function scopes: nested defs by name
        for enc in reversed(self.ext.enclosing_functions):
            for n in ast.walk(enc):
                if isinstance(n, ast.FunctionDef) and n.name == name and n is not self.ext.node:
                    cands = [m for m in ast.walk(enc) if isinstance(m, ast.FunctionDef) and m.name == name]
                    pick = self.con.ghost.get("bind", {}).get(name, 0)
                    sv = SV(smt.fresh("closure"), "func", ("lambda", cands[pick], None))
                    return sv
        mod = source.real_module(self.ext.relpath)
        if hasattr(mod, name):
            sv = self.const_sv(getattr(mod, name))
        elif hasattr(builtins, name):
            sv = SV(smt.mk_ref(self.classes.const_ref(getattr(builtins, name))), "func", ("builtin", name))
            if isinstance(getattr(builtins, name), type):
                sv.meta = ("class", getattr(builtins, name))
        else:
            raise Unsupported(f"unresolved name {name}")
        self.uf[key] = sv
        return sv

    def lookup_global_class(self, name):
        from . import source
        import sys

        mod = source.real_module(self.ext.relpath)
        for m in [mod] + [sys.modules.get(x) for x in ("sqlglot.expressions", "sqlglot.errors", "sqlglot.tokens", "sqlglot.tokenizer_core", "sqlglot.parser", "sqlglot.generator", "sqlglot.schema", "sqlglot.diff", "builtins")]:
            if m is not None and isinstance(getattr(m, name, None), type):
                return getattr(m, name)
        raise Unsupported(f"unknown class {name}")

    def e_Tuple(self, e, st, k):
        if any(isinstance(x, ast.Starred) for x in e.elts):
            raise Unsupported("starred in tuple")
        return self.ev_list(e.elts, st, lambda st1, vs: k(st1, SV(smt.mk_tuple([v.t for v in vs]), "tuple", ("tuple", vs))))

    def e_List(self, e, st, k):
        if any(isinstance(x, ast.Starred) for x in e.elts):
            raise Unsupported("starred in list")

        def done(st1, vs):
            ref = self.new_list(st1, [v.t for v in vs])
            return k(st1, SV(ref, "list"))

        return self.ev_list(e.elts, st, done)

    def e_Dict(self, e, st, k):
        if any(x is None for x in e.keys):
            return self.e_dict_unpack(e, st, k)

        def done(st1, vs):
            ref = self.new_dict(st1)
            n = len(e.keys)
            for kk, vv in zip(vs[:n], vs[n:]):
                self.dict_store(st1, ref, kk.t, vv.t)
            return k(st1, SV(ref, "dict"))

        return self.ev_list(list(e.keys) + list(e.values), st, done)

    def dict_merge_into(self, st1, r, sr):
        """d.update(s) / {**d, **s} on the heap: d's key set becomes the union, a key of s takes s's value (point-wise array
        combinators over two declared functions with one defining axiom each: no quantifier over keys)."""
        has_d, val_d = z3.Select(st1.H("$dhas"), r), z3.Select(st1.H("$dval"), r)
        has_s, val_s = z3.Select(st1.H("$dhas"), sr), z3.Select(st1.H("$dval"), sr)
        or2 = self.get_uf("map_or2", [z3.BoolSort(), z3.BoolSort()], z3.BoolSort())
        itv = self.get_uf("map_ite_val", [z3.BoolSort(), Val, Val], Val)
        pb, qb = z3.Bool("p!mo"), z3.Bool("q!mo")
        av, bv = z3.Const("a!mo", Val), z3.Const("b!mo", Val)
        for ax in (z3.ForAll([pb, qb], or2(pb, qb) == z3.Or(pb, qb), patterns=[or2(pb, qb)]),
                   z3.ForAll([pb, av, bv], itv(pb, av, bv) == z3.If(pb, av, bv), patterns=[itv(pb, av, bv)])):
            if not any(a.eq(ax) for a in self.global_axioms):
                self.global_axioms.append(ax)
        nh = z3.Map(or2, has_d, has_s)
        nv = z3.Map(itv, has_s, val_s, val_d)
        n = smt.fresh("mlen", IntS)
        # the length is not tracked exactly: max(len a, len b) <= len <= len a + len b (quantifier-free)
        la, lb = z3.Select(st1.H("$len"), r), z3.Select(st1.H("$len"), sr)
        st1.assume(n >= la, n >= lb, n <= la + lb)
        st1.setH("$dhas", z3.Store(st1.H("$dhas"), r, nh))
        st1.setH("$dval", z3.Store(st1.H("$dval"), r, nv))
        st1.setH("$len", z3.Store(st1.H("$len"), r, n))
        self.written.update(("$dhas", "$dval", "$len"))

    def e_dict_unpack(self, e, st, k):
        """{**a, k: v, **b}: a fresh dict built left to right; a later part overrides an earlier one key by key."""
        parts = []  # ("kv", key expr, value expr) | ("unpack", expr)
        for kk, vv in zip(e.keys, e.values):
            parts.append(("unpack", vv) if kk is None else ("kv", kk, vv))
        exprs = [x for p in parts for x in p[1:]]

        def done(st1, vs):
            it = iter(vs)
            ref = self.new_dict(st1)
            r = Val.r(ref)
            for p in parts:
                if p[0] == "kv":
                    kv, vv = next(it), next(it)
                    self.dict_store(st1, ref, kv.t, vv.t, fresh=True)
                    continue
                src = self.narrow(st1, next(it))
                if src.ty != "dict":
                    raise Unsupported("dict unpacking of a non-dict")
                self.dict_merge_into(st1, r, Val.r(src.t))
            return k(st1, SV(ref, "dict"))

        return self.ev_list(exprs, st, done)

    def e_Set(self, e, st, k):
        def done(st1, vs):
            ref = self.new_dict(st1, kind=smt.CLS_SET)
            for v in vs:
                self.dict_store(st1, ref, v.t, None)
            return k(st1, SV(ref, "set"))

        return self.ev_list(e.elts, st, done)

    def e_Lambda(self, e, st, k):
        return k(st, SV(smt.fresh("closure"), "func", ("lambda", e, dict(st.locals))))

    def e_JoinedStr(self, e, st, k):
        parts = []
        for v in e.values:
            parts.append(v.value if isinstance(v, ast.FormattedValue) else v)

        def done(st1, vs):
            terms = []
            for node, v in zip(e.values, vs):
                if isinstance(node, ast.FormattedValue):
                    if node.format_spec is not None:
                        raise Unsupported("format spec")
                    terms.append(self.str_of(st1, v))
                else:
                    terms.append(Val.s(v.t))
            s = terms[0] if len(terms) == 1 else z3.Concat(*terms) if terms else z3.StringVal("")
            return k(st1, SV(smt.mk_str(s), "str"))

        return self.ev_list(parts, st, done)

    def str_of(self, st, v):
        if v.ty == "str":
            return Val.s(v.t)
        f = self.get_uf("str_of", [Val, IntS], smt.StrS)
        self.note("str()/f-string formatting of non-str values is an uninterpreted function of (value, heap epoch)")
        return f(v.t, getattr(st, "heap_epoch", z3.IntVal(0)))

    def e_NamedExpr(self, e, st, k):
        def done(st1, v):
            st1.locals[e.target.id] = v
            return k(st1, v)

        return self.ev(e.value, st, done)

    def e_IfExp(self, e, st, k):
        return self.ev_cond(e.test, st, lambda s1: self.ev(e.body, s1, k), lambda s2: self.ev(e.orelse, s2, k))

    def e_BoolOp(self, e, st, k):
        vals = e.values
        is_and = isinstance(e.op, ast.And)

        def chain(i, s0):
            if i == len(vals) - 1:
                return self.ev(vals[i], s0, k)

            def got(s1, v):
                tr = self.truthy(s1, v)
                if is_and:
                    return self.branch(s1, tr, lambda a: chain(i + 1, a), lambda b: k(b, v))
                return self.branch(s1, tr, lambda a: k(a, v), lambda b: chain(i + 1, b))

            return self.ev(vals[i], s0, got)

        return chain(0, st)

    def e_UnaryOp(self, e, st, k):
        if isinstance(e.op, ast.Not):
            return self.ev(e.operand, st, lambda s1, v: k(s1, sv_bool(z3.Not(self.truthy(s1, v)))))
        if isinstance(e.op, ast.USub):
            return self.ev(e.operand, st, lambda s1, v: self.need_num(s1, v, e, lambda s2: k(s2, sv_int(-smt.N(v)))))
        raise Unsupported("unary op")

    def need_num(self, st, v, node, k):
        if v.ty in ("int", "bool"):
            return k(st)
        c = smt.is_num(v.t)
        return self.branch(st, c, k, lambda s2: self.raise_builtin(s2, "TypeError", node))

    def non_none(self, st, v, node, k):
        """attribute access on v: AttributeError unless v is an object reference (None, numbers, strings and
        builtin containers have none of the instance fields used by the code under contract)."""
        if v.ty and v.ty.startswith("obj:"):
            return k(st)
        if v.meta and v.meta[0] in ("class", "module", "func", "lambda", "pyconst", "tuple", "super"):
            return k(st)
        if v.ty in ("none", "int", "bool", "str", "list", "dict", "set", "tuple", "real"):
            return self.raise_builtin(st, "AttributeError", node)
        c = z3.And(smt.is_ref(v.t), smt.CLS[Val.r(v.t)] >= smt.FIRST_USER_CLS)
        return self.branch(st, c, k, lambda s2: self.raise_builtin(s2, "AttributeError", node))

    def e_BinOp(self, e, st, k):
        def done(st1, vs):
            a, b = vs
            op = e.op
            if isinstance(op, ast.Add):
                if a.ty == "str" and b.ty == "str":
                    return k(st1, SV(smt.mk_str(z3.Concat(Val.s(a.t), Val.s(b.t))), "str"))
                if a.ty == "list" and b.ty == "list":
                    return k(st1, self.list_concat(st1, a, b))
            if isinstance(op, ast.Mod) and a.ty == "str":
                raise Unsupported("% formatting")
            if isinstance(op, ast.Mult) and (a.ty == "str" or b.ty == "str"):
                f = self.get_uf("str_repeat", [smt.StrS, IntS], smt.StrS)
                s, n = (a, b) if a.ty == "str" else (b, a)
                return k(st1, SV(smt.mk_str(f(Val.s(s.t), smt.N(n))), "str"))
            if a.ty in ("int", "bool") and b.ty in ("int", "bool"):
                if isinstance(op, (ast.FloorDiv, ast.Mod)):
                    return self.branch(st1, smt.N(b) != 0, lambda s2: k(s2, self.arith(op, a, b)), lambda s3: self.raise_builtin(s3, "ZeroDivisionError", e))
                if isinstance(op, ast.Div):
                    raise Unsupported("true division")
                return k(st1, self.arith(op, a, b))
            if a.ty is None or b.ty is None:
                # dynamic: numbers, else strings (for +), else TypeError
                both_num = z3.And(smt.is_num(a.t), smt.is_num(b.t))
                if isinstance(op, (ast.Add, ast.Sub, ast.Mult)):
                    def num_case(s2):
                        return k(s2, self.arith(op, SV(a.t, "int"), SV(b.t, "int")))

                    def other(s3):
                        if isinstance(op, ast.Add):
                            both_str = z3.And(smt.is_str(a.t), smt.is_str(b.t))
                            return self.branch(s3, both_str, lambda s4: k(s4, SV(smt.mk_str(z3.Concat(Val.s(a.t), Val.s(b.t))), "str")), lambda s5: self.raise_builtin(s5, "TypeError", e))
                        return self.raise_builtin(s3, "TypeError", e)

                    return self.branch(st1, both_num, num_case, other)
            raise Unsupported(f"binary op {type(op).__name__} on {a.ty},{b.ty}")

        return self.ev_list([e.left, e.right], st, done)

    def list_concat(self, st, a, b):
        na, nb = self.list_len(st, a.t), self.list_len(st, b.t)
        ia, ib = self.list_items(st, a.t), self.list_items(st, b.t)
        ref = self.new_ref(st, cls_id=smt.CLS_LIST)
        arr = smt.fresh("cat", z3.ArraySort(IntS, Val))
        j = z3.Int(f"j!cat{self._qid()}")
        st.assume(z3.ForAll([j], z3.Implies(z3.And(j >= 0, j < na), arr[j] == ia[j]), patterns=[arr[j]]))
        st.assume(z3.ForAll([j], z3.Implies(z3.And(j >= 0, j < nb), arr[na + j] == ib[j]), patterns=[ib[j]]))
        self.set_list(st, ref, arr, na + nb, fresh=True)
        return SV(ref, "list", a.meta if a.meta and a.meta[0] == "elemtype" else None)

    def e_Compare(self, e, st, k):
        def done(st1, vs):
            terms = []
            left = vs[0]
            checks = []
            for op, right in zip(e.ops, vs[1:]):
                if isinstance(op, (ast.Lt, ast.LtE, ast.Gt, ast.GtE)):
                    checks.append((left, right))
                terms.append((op, left, right))
                left = right

            def finish(s2):
                cs = [self.cmp_term(s2, op, a, b) for op, a, b in terms]
                return k(s2, sv_bool(z3.And(*cs) if len(cs) > 1 else cs[0]))

            # ordering comparisons raise TypeError on None / mixed kinds
            conds = []
            for a, b in checks:
                if a.ty in ("int", "bool") and b.ty in ("int", "bool"):
                    continue
                if a.ty == "str" and b.ty == "str":
                    continue
                if a.ty == "real" or b.ty == "real":
                    continue
                ok = z3.Or(z3.And(smt.is_num(a.t), smt.is_num(b.t)), z3.And(smt.is_str(a.t), smt.is_str(b.t)))
                if (a.ty is None or b.ty is None):
                    # objects with user-defined ordering are outside the model
                    ok = z3.Or(ok, z3.And(smt.is_ref(a.t), smt.is_ref(b.t), smt.fresh("userlt", z3.BoolSort())))
                conds.append(ok)
            if conds:
                if len(e.ops) > 1:
                    self.note("chained comparison: operand type checks are not short-circuited")
                return self.branch(st1, z3.And(*conds), finish, lambda s3: self.raise_builtin(s3, "TypeError", e))
            return finish(st1)

        if len(e.ops) > 1:
            # chained comparison evaluates operands left to right with short circuit; operands here are pure
            for c in e.comparators:
                if any(isinstance(n, (ast.Call, ast.NamedExpr)) for n in ast.walk(c)):
                    raise Unsupported("chained comparison with effects")
        return self.ev_list([e.left] + list(e.comparators), st, done)

    # ------------------------------------------------------------------ attribute / subscript loads
    def e_Attribute(self, e, st, k):
        return self.ev(e.value, st, lambda st1, base: self.attr_load(st1, base, e.attr, e, k))

    BUILTIN_METHOD_NAMES = {"append", "pop", "insert", "extend", "remove", "clear", "get", "items", "values", "keys", "setdefault",
                            "update", "add", "discard", "upper", "lower", "strip", "startswith", "endswith", "join", "replace", "copy",
                            "index", "count", "find", "split", "sort", "reverse", "format", "isdigit", "isalnum", "translate", "isspace", "title"}

    def narrow(self, st, sv):
        """Give a value of statically unknown kind a static hint when the path condition forces its kind."""
        if sv.ty is not None or sv.meta is not None:
            return sv
        t = sv.t
        cands = [
            ("list", z3.And(smt.is_ref(t), z3.Or(smt.CLS[Val.r(t)] == smt.CLS_LIST, smt.CLS[Val.r(t)] == smt.CLS_TUPLE))),
            ("dict", z3.And(smt.is_ref(t), smt.CLS[Val.r(t)] == smt.CLS_DICT)),
            ("set", z3.And(smt.is_ref(t), smt.CLS[Val.r(t)] == smt.CLS_SET)),
            ("str", smt.is_str(t)),
            ("int", smt.is_int(t)),
            ("bool", smt.is_bool(t)),
        ]
        for ty, fact in cands:
            if not self.feasible(st, z3.Not(fact)):
                return SV(t, ty)
        return sv

    def attr_load(self, st, base, attr, node, k):
        if ("." + attr) in self.con.opaque and not (base.meta and base.meta[0] in ("module", "class")):
            return self.non_none(st, base, node, lambda s1: self.apply_opaque(s1, self.con.opaque["." + attr], "." + attr, [base], {}, node, k))
        if base.ty is None and base.meta is None and attr in self.BUILTIN_METHOD_NAMES:
            base = self.narrow(st, base)
            if base.ty is None:
                t = base.t
                builtin_kind = z3.Or(smt.is_str(t), z3.And(smt.is_ref(t), smt.CLS[Val.r(t)] < smt.FIRST_USER_CLS))
                if self.feasible(st, builtin_kind):
                    if attr in ("pop", "append", "extend", "insert", "remove", "clear", "add", "discard", "update", "setdefault", "sort", "reverse", "popitem"):
                        # a mutator of a container of statically unknown kind: modelled as an arbitrary write to that
                        # container's contents (checked against the frame), result unknown
                        return self.non_none(st, base, node, lambda s1: k(s1, SV(smt.fresh("bm"), "func", ("bmethod", SV(base.t, "unknown-container"), attr))))
                    raise Unsupported(f".{attr} on a value of unknown kind (line {getattr(node, 'lineno', '?')})")
        if base.meta and base.meta[0] == "super":
            _, me, cls = base.meta
            mro = list(type.mro(me_cls)) if (me_cls := self.static_class_of(me)) else list(cls.__mro__)
            after = mro[mro.index(cls) + 1 :] if cls in mro else list(cls.__mro__)[1:]
            for c in after:
                if attr in vars(c):
                    obj = vars(c)[attr]
                    if not hasattr(obj, "__code__"):
                        if attr == "__init__" and issubclass(c, BaseException):
                            return k(st, SV(smt.fresh("bm"), "func", ("excinit", me)))
                        raise Unsupported(f"super().{attr} resolves to a builtin")
                    return k(st, SV(smt.fresh("bm"), "func", ("method", obj, me, c)))
            raise Unsupported(f"super().{attr} not found")
        if base.meta and base.meta[0] in ("module", "class"):
            try:
                obj = getattr(base.meta[1], attr)
            except AttributeError:
                raise Unsupported(f"static attribute {attr}")
            sv = self.const_sv(obj)
            if sv.meta and sv.meta[0] == "func":
                sv = SV(sv.t, "func", ("func", obj, None))
            return k(st, sv)
        if base.meta and base.meta[0] == "pyconst" and not self.is_heap_const(base):
            obj = getattr(base.meta[1], attr)
            return k(st, self.const_sv(obj))
        if base.ty in ("str", "list", "dict", "set", "tuple"):
            return k(st, SV(smt.fresh("bm"), "func", ("bmethod", base, attr)))

        def go(st1):
            if base.ty and base.ty.startswith("obj:"):
                cls = self.resolve_class_name(base.ty[4:])
                static = _static_attr(cls, attr)
                if static is None and not self.is_instance_field(cls, attr):
                    # the attribute may be defined by a subclass (e.g. Identifier.quoted on an Expression-typed value):
                    # use that definition only when the path condition forces the value into that subclass
                    from .state import _all_subclasses

                    owners = [c for c in _all_subclasses(cls) if attr in vars(c)]
                    if owners:
                        for c in owners:
                            self.classes.register(c)
                            fact = self.classes.isa(c, smt.CLS[Val.r(base.t)])
                            if not self.feasible(st1, z3.Not(fact)):
                                self.classes.by_name.setdefault(c.__name__, c)
                                return self.attr_load(st1, SV(base.t, "obj:" + c.__name__, base.meta), attr, node, k)
                        raise Unsupported(f"attribute {attr} is defined only by subclasses of {cls.__name__} and the path does not fix the subclass")
                if static is not None:
                    kind, obj = static
                    if kind == "method":
                        return k(st1, SV(smt.fresh("bm"), "func", ("method", obj, base, cls)))
                    if kind == "property":
                        return self.call_property(st1, obj, base, cls, attr, node, k)
                    if kind == "classattr" and not self.is_instance_field(cls, attr):
                        if self.con.ghost.get("concrete_class_attrs") or attr in self.con.ghost.get("concrete_attrs", ()):
                            self.note(f"class attribute {cls.__name__}.{attr} read from the real class (subclass overrides not covered)")
                            return k(st1, self.const_sv(obj))
                        # symbolic per-object constant (dialect subclasses may override it)
                        return k(st1, self.load_field(st1, base.t, attr))
            return k(st1, self.load_field(st1, base.t, attr))

        return self.non_none(st, base, node, go)

    def static_class_of(self, sv):
        if sv.ty and sv.ty.startswith("obj:"):
            return self.resolve_class_name(sv.ty[4:])
        return None

    def is_instance_field(self, cls, attr):
        key = ("ifields", cls)
        if key not in self.uf:
            import inspect

            fields = set()
            for c in cls.__mro__:
                if c is object:
                    continue
                fields.update(getattr(c, "__slots__", ()) if isinstance(getattr(c, "__slots__", ()), (tuple, list)) else ())
                try:
                    src = inspect.getsource(c)
                except (OSError, TypeError):
                    continue
                import re

                fields.update(re.findall(r"self\.(\w+)\s*(?::[^=\n]+)?=(?!=)", src))
            self.uf[key] = fields
        return attr in self.uf[key]

    def e_Subscript(self, e, st, k):
        def with_base(st1, base):
            if isinstance(e.slice, ast.Slice):
                sl = e.slice
                if sl.step is not None:
                    raise Unsupported("slice step")
                parts = [p for p in (sl.lower, sl.upper) if p is not None]

                def got(st2, vs):
                    it = iter(vs)
                    lo = next(it) if sl.lower is not None else None
                    hi = next(it) if sl.upper is not None else None
                    return self.slice_load(st2, base, lo, hi, e, k)

                return self.ev_list(parts, st1, got)
            return self.ev(e.slice, st1, lambda st2, idx: self.subscript_load(st2, base, idx, e, k))

        return self.ev(e.value, st, with_base)

    def slice_load(self, st, base, lo, hi, node, k):
        base = self.narrow(st, base)
        if base.ty == "str":
            s = Val.s(base.t)
            n = z3.Length(s)
            a, b = self.clamp_slice(st, n, lo, hi)
            return k(st, SV(smt.mk_str(z3.SubString(s, a, z3.If(b > a, b - a, z3.IntVal(0)))), "str"))
        if base.ty == "list" or (base.ty == "tuple" and not base.meta):
            n = self.list_len(st, base.t)
            a, b = self.clamp_slice(st, n, lo, hi)
            ref = self.list_slice_copy(st, base.t, a, b)
            return k(st, SV(ref, "list", base.meta if base.meta and base.meta[0] == "elemtype" else None))
        if base.meta and base.meta[0] == "tuple":
            items = base.meta[1]
            def cv(x, d):
                if x is None:
                    return d
                v = z3.simplify(Val.i(x.t))
                if not z3.is_int_value(v):
                    raise Unsupported("symbolic slice of static tuple")
                return v.as_long()
            sub = items[cv(lo, None) : cv(hi, None)]
            return k(st, SV(smt.mk_tuple([i.t for i in sub]), "tuple", ("tuple", sub)))
        raise Unsupported(f"slice of {base.ty}")

    def subscript_load(self, st, base, idx, node, k):
        base = self.narrow(st, base)
        if base.meta and base.meta[0] == "tuple":
            iv = z3.simplify(smt.N(idx))
            if z3.is_int_value(iv):
                i = iv.as_long()
                items = base.meta[1]
                if -len(items) <= i < len(items):
                    return k(st, items[i])
                return self.raise_builtin(st, "IndexError", node)
            raise Unsupported("symbolic index into static tuple")
        if base.meta and base.meta[0] == "pyconst" and isinstance(base.meta[1], dict):
            raise Unsupported("lookup in constant dict")
        if base.ty == "dict":
            has = self.dict_has(st, base.t, idx.t)
            return self.branch(st, has, lambda s1: k(s1, self.dict_value_sv(s1, base, idx)), lambda s2: self.raise_builtin(s2, "KeyError", node))
        if base.ty == "str":
            s = Val.s(base.t)
            n = z3.Length(s)
            i0 = smt.N(idx)
            i = z3.If(i0 < 0, i0 + n, i0)
            ok = z3.And(i >= 0, i < n)
            return self.branch(st, ok, lambda s1: k(s1, SV(smt.mk_str(z3.SubString(s, i, 1)), "str")), lambda s2: self.raise_builtin(s2, "IndexError", node))
        if base.ty in ("list", "tuple"):
            n = self.list_len(st, base.t)
            i0 = smt.N(idx)
            i = z3.If(i0 < 0, i0 + n, i0)
            ok = z3.And(i >= 0, i < n)
            et = base.meta[1] if base.meta and base.meta[0] == "elemtype" else None
            return self.branch(st, ok, lambda s1: k(s1, self.list_get(s1, base.t, i, et)), lambda s2: self.raise_builtin(s2, "IndexError", node))
        if base.ty is None:
            # unknown container kind: decide by class
            is_d = z3.And(smt.is_ref(base.t), smt.CLS[Val.r(base.t)] == smt.CLS_DICT)
            is_l = z3.And(smt.is_ref(base.t), z3.Or(smt.CLS[Val.r(base.t)] == smt.CLS_LIST, smt.CLS[Val.r(base.t)] == smt.CLS_TUPLE))
            return self.branch(
                st,
                is_d,
                lambda s1: self.subscript_load(s1, SV(base.t, "dict"), idx, node, k),
                lambda s2: self.branch(s2, is_l, lambda s3: self.subscript_load(s3, SV(base.t, "list"), idx, node, k), lambda s4: self.raise_unmodelled(s4, node, "subscript of unknown kind")),
            )
        raise Unsupported(f"subscript of {base.ty}")

    def raise_unmodelled(self, st, node, why):
        raise Unsupported(why)

    def dict_value_sv(self, st, base, idx):
        v = self.dict_val(st, base.t, idx.t)
        st.assume(z3.Implies(smt.is_ref(v), Val.r(v) < st.alloc))
        et = base.meta[1] if base.meta and base.meta[0] == "elemtype" else None
        return self.typed(st, v, et) if et else SV(v)

    def store_subscript(self, st, base, slc, v, node):
        base = self.narrow(st, base)
        if isinstance(slc, ast.Slice):
            if slc.step is not None:
                raise Unsupported("slice step store")
            parts = [p for p in (slc.lower, slc.upper) if p is not None]

            def got(st2, vs):
                it = iter(vs)
                lo = next(it) if slc.lower is not None else None
                hi = next(it) if slc.upper is not None else None
                return self.slice_store(st2, base, lo, hi, v, node)

            return self.ev_list(parts, st, got)

        def got_idx(st1, idx):
            if base.ty == "dict":
                self.dict_store(st1, base.t, idx.t, v.t)
                return [Outcome("next", st1)]
            if base.ty == "list":
                n = self.name_int(st1, self.list_len(st1, base.t), "len")
                i0 = smt.N(idx)
                i = self.name_int(st1, z3.If(i0 < 0, i0 + n, i0), "idx")
                ok = z3.And(i >= 0, i < n)

                def do(s1):
                    self.set_list(s1, base.t, z3.Store(self.list_items(s1, base.t), i, v.t), n)
                    return [Outcome("next", s1)]

                return self.branch(st1, ok, do, lambda s2: self.raise_builtin(s2, "IndexError", node))
            raise Unsupported(f"subscript store on {base.ty}")

        return self.ev(slc, st, got_idx)

    def slice_store(self, st, base, lo, hi, v, node):
        """lst[a:b] = other  (list semantics)."""
        if base.ty != "list":
            raise Unsupported("slice store on non-list")
        n = self.name_int(st, self.list_len(st, base.t), "len")
        a, b = self.clamp_slice(st, n, lo, hi)
        a = self.name_int(st, a, "lo")
        b = self.name_int(st, z3.If(b < a, a, b), "hi")
        src = self.list_items(st, base.t)

        def with_list(s1, vv):
            m = self.name_int(s1, self.list_len(s1, vv.t), "len")
            vi = self.list_items(s1, vv.t)
            arr = smt.fresh("spl", z3.ArraySort(IntS, Val))
            j = z3.Int(f"j!spl{self._qid()}")
            s1.assume(z3.ForAll([j], z3.Implies(z3.And(j >= 0, j < a), arr[j] == src[j]), patterns=[arr[j]]))
            s1.assume(z3.ForAll([j], z3.Implies(z3.And(j >= 0, j < m), arr[a + j] == vi[j]), patterns=[vi[j]]))
            s1.assume(z3.ForAll([j], z3.Implies(z3.And(j >= b, j < n), arr[j - b + a + m] == src[j]), patterns=[src[j]]))
            s1.assume(z3.ForAll([j], z3.Implies(z3.And(j >= a + m, j < n - (b - a) + m), arr[j] == src[j + b - a - m]), patterns=[arr[j]]))
            s1.assume(z3.ForAll([j], z3.Implies(z3.And(j >= a, j < a + m), arr[j] == vi[j - a]), patterns=[arr[j]]))
            self.set_list(s1, base.t, arr, n - (b - a) + m)
            return [Outcome("next", s1)]

        if v.ty == "list":
            return with_list(st, v)
        is_l = z3.And(smt.is_ref(v.t), z3.Or(smt.CLS[Val.r(v.t)] == smt.CLS_LIST, smt.CLS[Val.r(v.t)] == smt.CLS_TUPLE))
        return self.branch(st, is_l, lambda s1: with_list(s1, SV(v.t, "list")), lambda s2: self.raise_unmodelled(s2, node, "slice assignment from non-list"))

    # ------------------------------------------------------------------ iteration
    def ev_iter(self, it, st, k):
        """Evaluate a for-loop iterable; enumerate()/reversed()/range()/.items() are kept symbolic."""
        if isinstance(it, ast.Call) and isinstance(it.func, ast.Name) and it.func.id in ("enumerate", "range", "reversed", "zip") and it.func.id not in st.locals:
            fn = it.func.id
            if fn == "enumerate":
                return self.ev_iter(it.args[0], st, lambda s1, inner: k(s1, ("enumerate", inner)))
            if fn == "range":
                return self.ev_list(it.args, st, lambda s1, vs: k(s1, ("range", vs)))
            if fn == "reversed":
                return self.ev_iter(it.args[0], st, lambda s1, inner: k(s1, ("reversed", inner)))
            raise Unsupported("zip iteration")
        if isinstance(it, ast.Call) and ast.unparse(it.func) == "itertools.permutations" and len(it.args) == 1:
            def perms(s1, v):
                if not (v.meta and v.meta[0] == "tuple"):
                    raise Unsupported("permutations of a non-static tuple")
                import itertools

                items = []
                for p in itertools.permutations(v.meta[1]):
                    p = list(p)
                    items.append(SV(smt.mk_tuple([x.t for x in p]), "tuple", ("tuple", p)))
                return k(s1, ("seq", SV(smt.mk_tuple([x.t for x in items]), "tuple", ("tuple", items))))

            return self.ev(it.args[0], st, perms)
        if isinstance(it, ast.Call) and isinstance(it.func, ast.Attribute) and it.func.attr in ("items", "values", "keys") and not it.args:
            return self.ev(it.func.value, st, lambda s1, d: k(s1, ("dict" + it.func.attr, d)))
        return self.ev(it, st, lambda s1, v: k(s1, ("seq", v)))

    def iter_plan(self, st, it, node):
        kind = it[0]
        if kind == "seq":
            v = self.narrow(st, it[1])
            if v.meta and v.meta[0] == "tuple":
                return ("static", list(v.meta[1]))
            if v.meta and v.meta[0] == "pyconst" and isinstance(v.meta[1], (tuple, list)):
                return ("static", [self.const_sv(x) for x in v.meta[1]])
            if v.ty in ("list", "tuple"):
                et = v.meta[1] if v.meta and v.meta[0] == "elemtype" else None
                return ("heap", v, z3.IntVal(0), lambda s, kk: self.list_get(s, v.t, kk, et))
            if v.ty in ("dict", "set"):
                return self.dict_iter_plan(st, v, "dictkeys")
            raise Unsupported(f"iteration over {v.ty}")
        if kind == "enumerate":
            inner = self.iter_plan(st, it[1], node)
            if inner[0] == "static":
                return ("static", [SV(smt.mk_tuple([smt.mk_int(i), x.t]), "tuple", ("tuple", [sv_int(i), x])) for i, x in enumerate(inner[1])])
            _, seq, start, elemfn = inner

            def ef(s, kk):
                el = elemfn(s, kk)
                idx = sv_int(kk)
                return SV(smt.mk_tuple([idx.t, el.t]), "tuple", ("tuple", [idx, el]))

            return ("heap", seq, start, ef)
        if kind == "range":
            vs = it[1]
            consts = [z3.simplify(smt.N(v)) for v in vs]
            if all(z3.is_int_value(c) for c in consts):
                r = range(*[c.as_long() for c in consts])
                if len(r) <= 16:
                    return ("static", [sv_int(i) for i in r])
            raise Unsupported("symbolic range loop (use a while loop contract)")
        if kind in ("dictitems", "dictvalues", "dictkeys"):
            return self.dict_iter_plan(st, it[1], kind)
        if kind == "reversed":
            inner = self.iter_plan(st, it[1], node)
            if inner[0] == "static":
                return ("static", list(reversed(inner[1])))
            _, seq, start, elemfn = inner
            n = self.list_len(st, seq.t)
            # the k-th element of reversed(seq) is seq[len - 1 - k] (len as of loop entry)
            return ("heap", seq, start, lambda s, kk: elemfn(s, n - 1 - kk))
        raise Unsupported(f"iteration kind {kind}")

    def dict_iter_plan(self, st, d, kind):
        """Iteration over a dict/set: a ghost key sequence, an arbitrary duplicate-free enumeration of the keys
        as of loop entry (dict: insertion order, which is not tracked; set: arbitrary)."""
        if d.meta and d.meta[0] == "pyconst":
            raise Unsupported("iteration over constant dict")
        ref = self.new_ref(st, cls_id=smt.CLS_TUPLE)
        keys = smt.fresh("keyseq", z3.ArraySort(IntS, Val))
        n = z3.Select(st.H("$len"), Val.r(d.t))
        st.assume(n >= 0)
        self.set_list(st, ref, keys, n, fresh=True)
        has0 = z3.Select(st.H("$dhas"), Val.r(d.t))
        val0 = z3.Select(st.H("$dval"), Val.r(d.t))
        j, j2 = z3.Int(f"j!ks{self._qid()}"), z3.Int(f"j2!ks{self._qid()}")
        st.assume(z3.ForAll([j], z3.Implies(z3.And(j >= 0, j < n), z3.Select(has0, keys[j])), patterns=[keys[j]]))
        st.assume(z3.ForAll([j, j2], z3.Implies(z3.And(j >= 0, j < j2, j2 < n), keys[j] != keys[j2]), patterns=[z3.MultiPattern(keys[j], keys[j2])]))
        pos = smt.fresh("keypos", z3.ArraySort(Val, IntS))
        kq = z3.Const(f"kq!{self._qid()}", Val)
        st.assume(z3.ForAll([kq], z3.Implies(z3.Select(has0, kq), z3.And(pos[kq] >= 0, pos[kq] < n, keys[pos[kq]] == kq)), patterns=[z3.Select(has0, kq)]))
        self.note("dict/set iteration: an arbitrary duplicate-free enumeration of the keys present at loop entry (mutation of the container during iteration is not modelled)")
        seq = SV(ref, "tuple")
        seq.meta = ("keyseq", keys, n, pos)

        def ef(s, kk):
            key = SV(keys[kk])
            if kind in ("dictkeys",):
                return key
            v = SV(z3.Select(val0, keys[kk]))
            if kind == "dictvalues":
                return v
            return SV(smt.mk_tuple([key.t, v.t]), "tuple", ("tuple", [key, v]))

        return ("heap", seq, z3.IntVal(0), ef)


def _static_attr(cls, attr):
    """Classify an attribute name on a real class: method / property / classattr / None (instance field)."""
    import inspect

    for c in cls.__mro__:
        if attr in vars(c):
            obj = vars(c)[attr]
            if isinstance(obj, property):
                return ("property", obj)
            if isinstance(obj, (classmethod, staticmethod)):
                return ("method", obj)
            if inspect.isfunction(obj):
                return ("method", obj)
            if type(obj).__name__ in ("member_descriptor", "getset_descriptor"):
                return None
            return ("classattr", obj)
    return None
