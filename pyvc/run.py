"""Driver: verify the contracts of the given sidecar modules; print / return JSON results.

One worker process per function under contract generates the verification conditions (SMT-LIB2 text) from the
real source; the solver portfolio then discharges every obligation in its own subprocess.
"""
import importlib
import json
import multiprocessing as mp
import os
import sys
import time

from . import contract as C, engine, solve

_MODS = []


def _gen(key):
    for m in _MODS:
        importlib.import_module(m)
    con = C.REGISTRY[key]
    t0 = time.time()
    v = engine.verify_contract(con)
    rec = {
        "key": key,
        "function": f"{con.relpath}:{con.qualname}" + (f"#{con.variant}" if con.variant else ""),
        "props": con.props, "sha256": v.ext.sha256, "lineno": v.ext.lineno,
        "status": v.status, "reason": v.reason, "paths": v.paths,
        "assumptions": sorted(v.assumptions), "opaque": sorted(v.opaque_used), "inlined": sorted(v.inlined),
        "callee_contracts": sorted(v.used_contracts), "gen_s": 0.0, "obligs": [],
        "requires": con.requires, "ensures": con.ensures, "modifies": con.modifies,
    }
    if v.status == "ok":
        ax = v.axioms()
        seen = {}
        for ob in v.obligs:
            # obligation ids must be unique and stable
            n = seen.get(ob.oid, 0)
            seen[ob.oid] = n + 1
            oid = ob.oid if n == 0 else f"{ob.oid}~{n}"
            rec["obligs"].append({
                "id": oid, "kind": ob.kind, "text": ob.text, "line": ob.lineno, "expect": ob.expect,
                "after_havoc": bool(ob.after_havoc), "smt": v.smt_text(ob, ax),
            })
    rec["gen_s"] = round(time.time() - t0, 2)
    return rec


def verify_all(module_names, prop=None, timeout=10, workers=None, only=None):
    global _MODS
    _MODS = list(module_names)
    for m in _MODS:
        importlib.import_module(m)
    keys = [k for k, con in C.REGISTRY.items() if con.verify and (prop is None or prop in con.props) and (only is None or only in k[1])]
    t0 = time.time()
    workers = workers or min(16, os.cpu_count() or 4)
    if len(keys) > 1 and workers > 1:
        ctx = mp.get_context("fork")
        with ctx.Pool(min(workers, len(keys))) as pool:
            recs = pool.map(_gen, keys, 1)
    else:
        recs = [_gen(k) for k in keys]
    gen_s = time.time() - t0
    items, guards = [], []
    for rec in recs:
        for ob in rec["obligs"]:
            (guards if ob["expect"] == "sat" else items).append(((rec["function"], ob["id"]), ob["smt"]))
    solved = solve.solve_many(items, timeout=timeout, workers=workers)
    solved.update(solve.solve_many(guards, timeout=min(timeout, 5), workers=workers))
    results = []
    for rec in recs:
        out = {k: v for k, v in rec.items() if k not in ("obligs", "key")}
        out["obligations"] = []
        for ob in rec["obligs"]:
            r = solved[(rec["function"], ob["id"])]
            if ob["expect"] == "unsat":
                verdict = {"unsat": "discharged", "sat": "refuted"}.get(r["status"], "undecided")
            else:
                verdict = {"sat": "discharged", "unsat": "vacuous"}.get(r["status"], "guard-undecided")
            out["obligations"].append({
                "id": ob["id"], "kind": ob["kind"], "text": ob["text"], "line": ob["line"], "verdict": verdict,
                "solver": r["solver"], "time": round(r["time"], 3), "attempts": r["attempts"], "after_havoc": ob["after_havoc"],
                "model": r["model"][:6000] if verdict == "refuted" else "",
            })
        results.append(out)
    return {"generation_s": round(gen_s, 2), "wall_s": round(time.time() - t0, 2), "functions": results,
            "solver_time_s": round(sum(r["time"] for r in solved.values()), 2)}


def main():
    import argparse

    ap = argparse.ArgumentParser()
    ap.add_argument("mods", nargs="+")
    ap.add_argument("--prop")
    ap.add_argument("--only")
    ap.add_argument("--timeout", type=int, default=10)
    ap.add_argument("--json")
    ap.add_argument("-m", action="store_true")
    a = ap.parse_args()
    res = verify_all(a.mods, prop=a.prop, timeout=a.timeout, only=a.only)
    for f in res["functions"]:
        obs = f["obligations"]
        d = sum(o["verdict"] == "discharged" for o in obs)
        print(f"{f['function']}: {f['status']} {f['reason']} paths={f['paths']} obligations={len(obs)} discharged={d} gen={f['gen_s']}s")
        for o in obs:
            if o["verdict"] != "discharged":
                print("   ", o["verdict"].upper(), o["id"], "|", o["text"], o["attempts"])
                if a.m and o["model"]:
                    print(o["model"][:1500])
    print("gen", res["generation_s"], "wall", res["wall_s"], "solver", res["solver_time_s"])
    if a.json:
        json.dump(res, open(a.json, "w"), indent=1)


if __name__ == "__main__":
    main()
